/-
C08 — Lifecycle follows the state table; facade-ready / facade-teardown are well-bracketed.

Objects.  `table` (Generated/LifecycleTable.lean) is `GeckoAsyncSpaMan._handle_event`, `async_reset`,
`async_locate_spas`, `async_connect_to_spa`, `async_connect`, `GeckoAsyncSpa._connect/disconnect` as DATA, regenerated
from /repo on every run.  `stepB table m b` runs one call `b` into the manager from state `m` with the generic
interpreter of Model/Lifecycle.lean and returns the new state, the deliveries the client saw (event, spa_state,
facade is None, status sensor) and how the call ended (returned / raised).

Quantifier.  Histories of ANY length of calls from the alphabet `allBase table` — locate (0,1,2 spas found / discover
raises), connect with every event sequence `_connect` can produce (handshake, each early return, a raise at each await,
facade constructor raising), `async_connect`, every run-time event of the spa, ping-miss and RF-error sequences,
water-care error (refresh ok / retry exhaustion), reset, set-spa-info, enter/exit — each call `enabled` in the state it
finds (locate/connect as the sequence pump drives them, run-time events only from a live spa), from each of the four
ways the identifier/name can be configured.

Method.  `Inv` is membership in an explicit finite set `R` of manager states (Generated/LifecycleReach.lean, computed
by the model).  `edges_ok` (Proofs/Lifecycle.lean) makes the KERNEL run the interpreter on every (state of R, enabled
call) pair (`decide +kernel`): the successor is in `R` (one-step preservation = `inv_step`) and the call satisfies every
per-call clause below.  Histories of any length follow by induction (`inv_reachable`, `trace_ok`); nothing is bounded.

FINDING D7 (real defect, reproduced on the implementation by harness/props/c08.py): `async_reset` clears `_facade`
BEFORE `spa.disconnect()` raises RUNNING_SPA_DISCONNECTED, whose CONNECTED branch announces CLIENT_FACADE_TEARDOWN — so
that teardown reaches the client while `facade is None`.  The full clause
    theorem teardown_bracketed : ∀ m b, Inv m → Call m b →
        monitorsOk (stepB T m b).out = true ∧ teardownHasFacade (stepB T m b).out = true
is therefore FALSE for the shipped table (`d7_full_fails`, witness history `locate; connect-ok; reset`).
Proved: `teardown_bracketed_partial` (the counting half everywhere; the facade-exists half for every call except a reset of
a CONNECTED manager) and `teardown_bracketed` = the FULL clause under the hypothesis `resetClearsFacadeFirst table = false`,
a Bool read off the regenerated table.  The kernel-evaluated certificate (`callOk`) excuses a reset of a CONNECTED manager
only while that Bool is true; when `self._facade = None` is moved after `await self._spa.disconnect()` in /repo the table is
regenerated, the Bool becomes false, the certificate checks the full clause on every call and `teardown_bracketed`'s
hypothesis is `rfl` — nothing in the Lean files needs editing.

Concurrency.  The interpreter (`step`, `Input.start/resume`) also runs calls that park at any delivery or await while
other calls run; that part is tied to the implementation by correspondence and searched directly on the real manager
(harness), and `conc_delivery_mirrors` below holds for every interleaving; the other theorems are about calls that are
not interleaved (stated in each).
-/
import GeckoModel.Proofs.Lifecycle
import GeckoModel.Proofs.LifecycleConc
import GeckoModel.Proofs.Coop
import GeckoModel.Generated.Skeletons

namespace GeckoModel.C08
open GeckoModel.Lifecycle

abbrev T : Table := table

/-- the inductive invariant: membership in the closed set `R` -/
def Inv (m : M) : Prop := m ∈ reachList

/-- `b` is a call of the alphabet that can happen in state `m` -/
def Call (m : M) (b : Base) : Prop := b ∈ allBase T ∧ enabled m b = true

/-- **one-step preservation**, over the whole (state × call) grid (evaluated by the kernel in `edges_ok`) -/
theorem inv_step (m : M) (b : Base) (hi : Inv m) (hc : Call m b) : Inv (stepB T m b).m :=
  (edge m b hi hc.1 hc.2).1

/-- every per-call clause at once -/
theorem call_ok (m : M) (b : Base) (hi : Inv m) (hc : Call m b) : callOk T m b (stepB T m b) = true :=
  (edge m b hi hc.1 hc.2).2

/-- a history in which every call is enabled in the state it finds -/
def Hist : M → List Base → Prop
  | _, [] => True
  | m, b :: r => Call m b ∧ Hist (stepB T m b).m r

def Hist.dec : (m : M) → (h : List Base) → Decidable (Hist m h)
  | _, [] => isTrue trivial
  | m, b :: r => @instDecidableAnd _ _ (inferInstanceAs (Decidable (b ∈ allBase T ∧ enabled m b = true))) (Hist.dec _ r)

instance (m : M) (h : List Base) : Decidable (Hist m h) := Hist.dec m h

/-- what the client sees during a history -/
def trace : M → List Base → List Delivered
  | _, [] => []
  | m, b :: r => (stepB T m b).out ++ trace (stepB T m b).m r

theorem inv_run (h : List Base) : ∀ m, Inv m → Hist m h → Inv (runB T m h) := by
  induction h with
  | nil => intro m hi _; exact hi
  | cons b r ih => intro m hi hh; exact ih _ (inv_step m b hi hh.1) hh.2

/-- **all histories, any length**: the invariant holds after every history from every initial configuration -/
theorem inv_reachable (m0 : M) (h0 : m0 ∈ inits T) (h : List Base) (hh : Hist m0 h) : Inv (runB T m0 h) :=
  inv_run h m0 (init_mem m0 h0) hh

/-- **CONNECTED only with a live facade on a fully connected spa** (and that facade was announced and not torn down);
a facade never outlives its spa; the monitor is never left between "built" and "announced" -/
theorem inv_meaning (m : M) (hi : Inv m) :
    (m.state = .CONNECTED → m.facade = true ∧ m.spa = true ∧ m.spaConn = true ∧ m.proto = true ∧ m.fmon = .ready) ∧
    (m.facade = true → m.spa = true ∧ m.spaConn = true ∧ m.proto = true ∧ (m.fmon = .ready ∨ m.fmon = .tornDown)) ∧
    (m.spaConn = true → m.spa = true) ∧ m.fmon ≠ .built ∧ m.sensor = m.status.isSome := by
  have h := good_of_mem m hi
  simp only [good, Bool.and_eq_true, Bool.or_eq_true, bne_iff_ne, beq_iff_eq, Bool.not_eq_true', ne_eq] at h
  obtain ⟨⟨⟨⟨⟨⟨h1, h2⟩, h3⟩, _⟩, h4⟩, h5⟩, _⟩ := h
  refine ⟨?_, ?_, ?_, h4, h5⟩
  · intro hc
    rcases h1 with h1 | h1
    · exact absurd hc h1
    · exact ⟨h1.1.1.1.1, h1.1.1.1.2, h1.1.1.2, h1.1.2, h1.2⟩
  · intro hf
    rcases h2 with h2 | h2
    · rw [hf] at h2; cases h2
    · exact ⟨h2.1.1.1, h2.1.1.2, h2.1.2, h2.2⟩
  · intro hc
    rcases h3 with h3 | h3
    · rw [hc] at h3; cases h3
    · exact h3

theorem connected_implies_live (m0 : M) (h0 : m0 ∈ inits T) (h : List Base) (hh : Hist m0 h)
    (hc : (runB T m0 h).state = .CONNECTED) :
    (runB T m0 h).facade = true ∧ (runB T m0 h).spa = true ∧ (runB T m0 h).spaConn = true ∧ (runB T m0 h).proto = true :=
  let r := (inv_meaning _ (inv_reachable m0 h0 h hh)).1 hc
  ⟨r.1, r.2.1, r.2.2.1, r.2.2.2.1⟩

/-! ## per-call clauses (projections of `call_ok`) -/

section
variable (m : M) (b : Base) (hi : Inv m) (hc : Call m b)
include hi hc

theorem call_parts :
    ((stepB T m b).outcome = .done ∨ (stepB T m b).outcome = .raised) ∧ phasesClosed (stepB T m b).out = true ∧
    readyIffEnter m (stepB T m b) = true ∧ readySample (stepB T m b).out = true ∧ monitorsOk (stepB T m b).out = true ∧
    ((resetClearsFacadeFirst T = true ∧ resetsConnected m b = true) ∨ teardownHasFacade (stepB T m b).out = true) ∧
    deliveryMirrors (stepB T m b).out = true ∧
    statusAfter m (stepB T m b) = true ∧ resetLands m b (stepB T m b) = true := by
  have h := call_ok m b hi hc
  simp only [callOk, Bool.and_eq_true, Bool.or_eq_true, beq_iff_eq] at h
  obtain ⟨⟨⟨⟨⟨⟨⟨⟨⟨⟨_, h1⟩, h2⟩, h3⟩, h4⟩, h5⟩, h6⟩, h7⟩, h8⟩, _⟩, h10⟩ := h
  exact ⟨h1, h2, h3, h4, h5, h6, h7, h8, h10⟩

/-- the interpreter's fuel is never exhausted: every call returns or raises -/
theorem call_terminates : (stepB T m b).outcome = .done ∨ (stepB T m b).outcome = .raised := (call_parts m b hi hc).1

/-- **phases are closed**: every LOCATING_STARTED / CONNECTION_STARTED delivered by a call is followed by its FINISHED in
the same call — also when `discover()`, `_connect()`, a sensor constructor or the facade constructor raises -/
theorem phases_closed : phasesClosed (stepB T m b).out = true := (call_parts m b hi hc).2.1

/-- **facade-ready is announced exactly when CONNECTED is entered** -/
theorem ready_iff_enter_connected :
    (∃ d ∈ (stepB T m b).out, d.event = .CLIENT_FACADE_IS_READY) ↔ (m.state ≠ .CONNECTED ∧ (stepB T m b).m.state = .CONNECTED) := by
  have h := (call_parts m b hi hc).2.2.1
  simp only [readyIffEnter, beq_iff_eq] at h
  constructor
  · intro ⟨d, hd, he⟩
    have : ((stepB T m b).out.any fun d => d.event == .CLIENT_FACADE_IS_READY) = true :=
      List.any_eq_true.2 ⟨d, hd, by simp [he]⟩
    rw [this] at h
    have h' := h.symm
    simp only [Bool.and_eq_true, bne_iff_ne, ne_eq, beq_iff_eq] at h'
    exact h'
  · intro ⟨h1, h2⟩
    have : (m.state != .CONNECTED && (stepB T m b).m.state == .CONNECTED) = true := by simp [h1, h2]
    rw [this] at h
    obtain ⟨d, hd, he⟩ := List.any_eq_true.1 h
    exact ⟨d, hd, by simpa using he⟩

/-- ... and the client sees CONNECTED and a facade at that delivery -/
theorem ready_sample : ∀ d ∈ (stepB T m b).out, d.event = .CLIENT_FACADE_IS_READY → d.state = .CONNECTED ∧ d.facadeNone = false := by
  intro d hd he
  have h := List.all_eq_true.1 (call_parts m b hi hc).2.2.2.1 d hd
  simp only [he, bne_self_eq_false, Bool.false_or, Bool.and_eq_true, beq_iff_eq, Bool.not_eq_true'] at h
  exact h

/-- **teardown is bracketed** (what holds for the shipped table, finding D7 present): per built facade READY is delivered at
most once and TEARDOWN at most once and only after READY (the monitor automaton `monStep` accepts every delivery); and
every TEARDOWN is delivered while a facade exists unless the call resets a CONNECTED manager. -/
theorem teardown_bracketed_partial :
    monitorsOk (stepB T m b).out = true ∧ (resetsConnected m b = false → teardownHasFacade (stepB T m b).out = true) := by
  refine ⟨(call_parts m b hi hc).2.2.2.2.1, fun hr => ?_⟩
  rcases (call_parts m b hi hc).2.2.2.2.2.1 with h | h
  · rw [hr] at h; cases h.2
  · exact h

/-- **teardown is bracketed, FULL statement** — for a table in which `async_reset` does not clear the facade reference
before disconnecting the spa.  For the shipped table the hypothesis is false (`d7_full_fails`); once the two statements
are reordered in /repo the regenerated table makes it `rfl` and this is the full clause, with nothing to edit here. -/
theorem teardown_bracketed (hfix : resetClearsFacadeFirst T = false) :
    monitorsOk (stepB T m b).out = true ∧ teardownHasFacade (stepB T m b).out = true := by
  refine ⟨(call_parts m b hi hc).2.2.2.2.1, ?_⟩
  rcases (call_parts m b hi hc).2.2.2.2.2.1 with h | h
  · rw [hfix] at h; cases h.1
  · exact h

/-- **the status sensor mirrors the state**: at every delivery the text is `to_string` of the state the client sees -/
theorem status_mirrors_delivery : ∀ d ∈ (stepB T m b).out, d.sensor = true →
    statusText d.status = stateText d.state := by
  intro d hd hs
  have h := List.all_eq_true.1 (call_parts m b hi hc).2.2.2.2.2.2.1 d hd
  simp only [hs, Bool.not_true, Bool.false_or, beq_iff_eq] at h
  simp [h, statusText]

/-- ... and after the call it holds the state at the last event (`async_reset` itself raises no event of its own, so
after a reset the text is that of the last event, not of IDLE — see the report) -/
theorem status_after_call : statusAfter m (stepB T m b) = true := (call_parts m b hi hc).2.2.2.2.2.2.2.1

end

/-- **a reset always lands in IDLE with no facade, spa or descriptors** (and returns) -/
theorem reset_lands_idle (m : M) (hi : Inv m) :
    (stepB T m .reset).m.state = .IDLE ∧ (stepB T m .reset).m.facade = false ∧ (stepB T m .reset).m.spa = false ∧
    (stepB T m .reset).m.desc = false ∧ (stepB T m .reset).outcome = .done := by
  have hb : Base.reset ∈ allBase T := by decide +kernel
  have h := (call_parts m .reset hi ⟨hb, rfl⟩).2.2.2.2.2.2.2.2
  simp only [resetLands, idleClean, Bool.and_eq_true, beq_iff_eq, Bool.not_eq_true'] at h
  exact ⟨h.1.1.1.1.1.1.1, h.1.1.1.1.1.1.2, h.1.1.1.1.1.2, h.1.1.1.2, h.1.1.2⟩

/-! ## histories: what the client sees over a whole history -/

theorem trace_run (h : List Base) : ∀ m, Inv m → Hist m h → ∀ d ∈ trace m h,
    d.monOk = true ∧ (d.sensor = true → statusText d.status = stateText d.state) ∧
    (d.event = .CLIENT_FACADE_IS_READY → d.state = .CONNECTED ∧ d.facadeNone = false) := by
  induction h with
  | nil => intro m _ _ d hd; cases hd
  | cons b r ih =>
      intro m hi hh d hd
      rcases List.mem_append.1 hd with hd | hd
      · exact ⟨List.all_eq_true.1 (teardown_bracketed_partial m b hi hh.1).1 d hd,
               status_mirrors_delivery m b hi hh.1 d hd, ready_sample m b hi hh.1 d hd⟩
      · exact ih _ (inv_step m b hi hh.1) hh.2 d hd

/-- over every history: the bracket monitor accepts every delivery (per facade #teardown ≤ #ready ≤ 1), the status text
mirrors the state at every delivery, READY is seen in CONNECTED with a facade -/
theorem trace_ok (m0 : M) (h0 : m0 ∈ inits T) (h : List Base) (hh : Hist m0 h) : ∀ d ∈ trace m0 h,
    d.monOk = true ∧ (d.sensor = true → statusText d.status = stateText d.state) ∧
    (d.event = .CLIENT_FACADE_IS_READY → d.state = .CONNECTED ∧ d.facadeNone = false) :=
  trace_run h m0 (init_mem m0 h0) hh

/-! ## finding D7: the full teardown clause is false for a table in which `async_reset` clears the facade first -/

def d7History : List Base := [.locate (.found 1), .connectTo T.connectOk false, .reset]

/-- the witness: after `locate; connect-ok` the manager is CONNECTED; the reset then delivers CLIENT_FACADE_TEARDOWN with
`facade is None` (state already IDLE).  (Stated under the hypothesis read off the table so that this file keeps building
when /repo is repaired; for the shipped table the hypothesis holds, see `d7_shape_now` in the examples.) -/
theorem teardown_without_facade_witness : resetClearsFacadeFirst T = true →
    Hist (init T true true) d7History ∧
    (runB T (init T true true) (d7History.take 2)).state = .CONNECTED ∧
    ∃ d ∈ trace (init T true true) d7History, d.event = .CLIENT_FACADE_TEARDOWN ∧ d.facadeNone = true ∧ d.state = .IDLE := by
  decide +kernel

theorem d7_full_fails : resetClearsFacadeFirst T = true →
    ¬ (∀ m b, Inv m → Call m b → teardownHasFacade (stepB T m b).out = true) := by
  intro hd h
  have hm : Inv (runB T (init T true true) (d7History.take 2)) :=
    inv_reachable _ (by decide +kernel) _ (by decide +kernel)
  have h1 := h _ .reset hm ⟨by decide +kernel, rfl⟩
  have h2 : resetClearsFacadeFirst T = true →
      teardownHasFacade (stepB T (runB T (init T true true) (d7History.take 2)) .reset).out = true → False := by decide +kernel
  exact h2 hd h1

/-! ## every interleaving: a delivery always shows the sensor text of the state the client sees -/

/-- **any interleaving** (calls parked at any delivery or await while others run, any number of tasks, any length):
whenever the client is handed an event and the status sensor exists, its text is `to_string` of the state the client
sees at that moment -/
theorem conc_delivery_mirrors (s : MState) (i : Input) : ∀ d ∈ (step T s i).2, d.sensor = true →
    statusText d.status = stateText d.state := by
  have key : ∀ env m ops stop, ∀ d ∈ (runOps T env fuel m ops false stop []).out, Mirrors d := by
    intro env m ops stop d hd
    exact runCfg_mirrors env fuel ⟨m, ops, false, stop, []⟩ (by intro x hx; cases hx) d hd
  intro d hd hs
  have hm : Mirrors d := by
    cases i with
    | start b stop =>
        simp only [step, settle] at hd
        split at hd <;> exact key _ _ _ _ d hd
    | resume t stop =>
        simp only [step] at hd
        split at hd
        · simp only [settle] at hd
          split at hd <;> exact key _ _ _ _ d hd
        · cases hd
  simp [hm hs, statusText]

/-! ## non-vacuity -/

/-- the alphabet and the closed set are not trivial (221 states for the shipped table, some of them CONNECTED; about 20 connect paths) -/
example : reachList.length ≥ 100 ∧ (reachList.filter fun m => m.state == .CONNECTED).length ≥ 1 ∧
    (allBase T).length ≥ 60 ∧ (allPaths T).length ≥ 10 := by decide +kernel

/-- a history that reaches CONNECTED, loses the pings, gets them back (which resets) and connects again -/
def tour : List Base :=
  [.enter, .locate (.found 1), .asyncConnect (.found 1) T.connectOk false, .ev .RUNNING_PING_RECEIVED, .pingMiss true,
   .ev .RUNNING_PING_RECEIVED, .locate (.found 1), .connectTo T.connectOk false, .rfErr true]

example : Hist (init T true false) tour ∧
    (trace (init T true false) tour).map (·.event) =
      [.SPA_MAN_ENTER, .LOCATING_STARTED, .LOCATING_DISCOVERED_SPA, .LOCATING_FINISHED,
       .LOCATING_STARTED, .LOCATING_DISCOVERED_SPA, .LOCATING_FINISHED,
       .CLIENT_HAS_STATUS_SENSOR, .CLIENT_HAS_RECONNECT_BUTTON, .CONNECTION_STARTED, .CONNECTION_GOT_FIRMWARE_VERSION,
       .CLIENT_HAS_PING_SENSOR, .CONNECTION_GOT_CHANNEL, .CONNECTION_GOT_CONFIG_FILES,
       .CONNECTION_INITIAL_DATA_BLOCK_REQUEST, .CONNECTION_SPA_COMPLETE, .CLIENT_FACADE_IS_READY, .CONNECTION_FINISHED,
       .RUNNING_PING_RECEIVED, .RUNNING_PING_MISSED, .CLIENT_FACADE_TEARDOWN, .RUNNING_PING_NO_RESPONSE,
       .RUNNING_SPA_DISCONNECTED, .RUNNING_PING_RECEIVED,
       .LOCATING_STARTED, .LOCATING_DISCOVERED_SPA, .LOCATING_FINISHED,
       .CLIENT_HAS_RECONNECT_BUTTON, .CONNECTION_STARTED, .CONNECTION_GOT_FIRMWARE_VERSION, .CLIENT_HAS_PING_SENSOR,
       .CONNECTION_GOT_CHANNEL, .CONNECTION_GOT_CONFIG_FILES, .CONNECTION_INITIAL_DATA_BLOCK_REQUEST,
       .CONNECTION_SPA_COMPLETE, .CLIENT_FACADE_IS_READY, .CONNECTION_FINISHED,
       .CLIENT_FACADE_TEARDOWN, .ERROR_RF_ERROR, .ERROR_TOO_MANY_RF_ERRORS] := by decide +kernel

/-- a teardown delivered WITH a facade exists (the clause is not vacuous), and a phase that raises is still closed -/
example : (∃ d ∈ trace (init T true false) tour, d.event = .CLIENT_FACADE_TEARDOWN ∧ d.facadeNone = false) ∧
    ((stepB T (init T true true) (.locate (.raises 1))).outcome = .raised ∧
     ((stepB T (init T true true) (.locate (.raises 1))).out.map (·.event)) =
       [.CLIENT_HAS_STATUS_SENSOR, .LOCATING_STARTED, .LOCATING_DISCOVERED_SPA, .LOCATING_FINISHED]) := by decide +kernel

/-- `async_reset` as shipped at the audited commit, and with the proposed minimal repair (`self._facade = None` moved
after the spa block).  Literals, so these examples keep building whichever of the two /repo contains. -/
def shippedReset : List RStmt :=
  [⟨none, [.clearDesc]⟩, ⟨some .facadeSome, [.facadeDisconnect, .clearFacade]⟩, ⟨some .spaSome, [.spaDisconnect, .clearSpa]⟩,
   ⟨none, [.setState .IDLE]⟩]
def patchedReset : List RStmt :=
  [⟨none, [.clearDesc]⟩, ⟨some .facadeSome, [.facadeDisconnect]⟩, ⟨some .spaSome, [.spaDisconnect, .clearSpa]⟩,
   ⟨none, [.clearFacade]⟩, ⟨none, [.setState .IDLE]⟩]

/-- the hypotheses of `teardown_without_facade_witness` / `d7_full_fails` and of `teardown_bracketed` are both satisfiable;
on the D7 history the shipped order delivers the teardown without a facade, the repaired order with one, and both land in
the same clean IDLE state -/
example : resetClearsFacadeFirst { T with resetProg := shippedReset } = true ∧
    resetClearsFacadeFirst { T with resetProg := patchedReset } = false ∧
    (let Ts : Table := { T with resetProg := shippedReset }
     let m := runB Ts (init Ts true true) (d7History.take 2)
     (stepB Ts m .reset).out.map (fun d => (d.event, d.facadeNone)) =
       [(.CLIENT_FACADE_TEARDOWN, true), (.RUNNING_SPA_DISCONNECTED, true)]) ∧
    (let Tp : Table := { T with resetProg := patchedReset }
     let m := runB Tp (init Tp true true) (d7History.take 2)
     (stepB Tp m .reset).out.map (fun d => (d.event, d.facadeNone)) =
       [(.CLIENT_FACADE_TEARDOWN, false), (.RUNNING_SPA_DISCONNECTED, false)] ∧
     (stepB Tp m .reset).m = (stepB { T with resetProg := shippedReset }
        (runB { T with resetProg := shippedReset } (init T true true) (d7History.take 2)) .reset).m) := by decide +kernel

/-- the bracket clause can fail: an unclosed phase is rejected -/
example : closedFrom .CONNECTION_STARTED .CONNECTION_FINISHED false [.CONNECTION_STARTED, .CONNECTION_GOT_CHANNEL] = false ∧
    (monStep .tornDown .CLIENT_FACADE_TEARDOWN).2 = false ∧ (monStep .none .CLIENT_FACADE_IS_READY).2 = false := by decide

/-! ### the order inside `GeckoAsyncSpa.disconnect()` that "a reset always lands in IDLE" rests on

The recovery reset runs ON one of the spa's own tasks (ping loop -> RUNNING_PING_RECEIVED -> `async_reset` -> `disconnect`),
and `disconnect` cancels those tasks: everything that is awaited must come BEFORE that cancellation, everything after it must
not suspend (a cancelled task is thrown out at its next suspension, and the reset would stop short of IDLE).  Over the
regenerated suspension skeleton of `disconnect`, for every trace (`scan_accepts`, `sectionsAtomic_sound`). -/
namespace Order
open GeckoModel.Coop GeckoModel.Generated.Skeletons

abbrev spaDisconnect := sk_async_spa__GeckoAsyncSpa_disconnect

def cancelsOwnTasks (a : A) : Bool := a.kind == .call && a.name == "self._taskman.cancel_key_tasks"
def lastCleanupStep (a : A) : Bool := a.kind == .call && a.name == "self.unwatch_all"

/-- the disconnection is announced (the client's handler is awaited) before the spa cancels its own tasks and before it
releases the endpoint; and from the cancellation to the last clean-up step nothing suspends -/
theorem disconnect_order :
    precedes (isAwaitOf "self._event_handler(GeckoSpaEvent.RUNNING_SPA_DISCONNECTED)") (isCallOf "self._taskman.cancel_key_tasks") spaDisconnect = true ∧
    precedes (isAwaitOf "self._event_handler(GeckoSpaEvent.RUNNING_SPA_DISCONNECTED)") (isCallOf "self._transport.close") spaDisconnect = true ∧
    sectionsAtomic cancelsOwnTasks lastCleanupStep spaDisconnect = true := by decide +kernel

theorem disconnect_order_traces (t : List Ev) (o : Out) (h : Run spaDisconnect t o) :
    (runMon (orderMon (isAwaitOf "self._event_handler(GeckoSpaEvent.RUNNING_SPA_DISCONNECTED)") (isCallOf "self._taskman.cancel_key_tasks")) 0 t).isSome = true ∧
    secOK cancelsOwnTasks lastCleanupStep false t = true :=
  ⟨scan_accepts _ 4 spaDisconnect 0 disconnect_order.1 t o h, sectionsAtomic_sound _ _ spaDisconnect disconnect_order.2.2 t o h⟩

/-- non-vacuity: the skeleton contains the three landmarks; and both reorderings are rejected - the announcement moved behind the
cancellation, and a yield placed after the cancellation -/
example : "self._taskman.cancel_key_tasks" ∈ actions .call spaDisconnect ∧ "self.unwatch_all" ∈ actions .call spaDisconnect ∧
    suspensions spaDisconnect = 1 := by decide +kernel

example :
    precedes (isAwaitOf "self._event_handler(GeckoSpaEvent.RUNNING_SPA_DISCONNECTED)") (isCallOf "self._taskman.cancel_key_tasks")
      (.seq (.ev (.act ⟨.call, "self._taskman.cancel_key_tasks"⟩)) (.ev (.aw "self._event_handler(GeckoSpaEvent.RUNNING_SPA_DISCONNECTED)"))) = false ∧
    sectionsAtomic cancelsOwnTasks lastCleanupStep
      (.seq (.ev (.act ⟨.call, "self._taskman.cancel_key_tasks"⟩)) (.seq (.ev (.aw "asyncio.sleep")) (.ev (.act ⟨.call, "self.unwatch_all"⟩)))) = false := by
  decide +kernel

/-- **every started locate / connect phase is closed by its finished event even when the phase raises or is cancelled**: over the
regenerated skeletons of `async_locate_spas` and `async_connect_to_spa`, however the coroutine ends - return, exception, a
cancellation delivered at ANY of its awaits (rule `awRaise`) - once the STARTED announcement has returned, the FINISHED
announcement is awaited before the coroutine is left (`releasedOnEveryExit_sound`) -/
theorem every_started_phase_is_closed :
    releasedOnEveryExit (isAwaitOf "self._handle_event(GeckoSpaEvent.LOCATING_STARTED)")
      (isAwaitOf "self._handle_event(GeckoSpaEvent.LOCATING_FINISHED)") sk_async_spa_manager__GeckoAsyncSpaMan_async_locate_spas = true ∧
    releasedOnEveryExit (isAwaitOf "self._handle_event(GeckoSpaEvent.CONNECTION_STARTED)")
      (isAwaitOf "self._handle_event(GeckoSpaEvent.CONNECTION_FINISHED)") sk_async_spa_manager__GeckoAsyncSpaMan_async_connect_to_spa = true := by
  decide +kernel

theorem every_started_phase_is_closed_traces (t : List Ev) (o : Out)
    (h : Run sk_async_spa_manager__GeckoAsyncSpaMan_async_locate_spas t o) :
    ∃ s, runMon (resourceMon (isAwaitOf "self._handle_event(GeckoSpaEvent.LOCATING_STARTED)")
      (isAwaitOf "self._handle_event(GeckoSpaEvent.LOCATING_FINISHED)")) 0 t = some s ∧ (s = 0 ∨ s = 2) :=
  releasedOnEveryExit_sound _ _ _ every_started_phase_is_closed.1 t o h

/-- non-vacuity: without the `finally` a cancellation inside the phase leaves it open -/
example : releasedOnEveryExit (isAwaitOf "started") (isAwaitOf "finished")
    (.seq (.ev (.aw "started")) (.seq (.ev (.aw "locator.discover")) (.ev (.aw "finished")))) = false ∧
    releasedOnEveryExit (isAwaitOf "started") (isAwaitOf "finished")
    (.fin (.seq (.ev (.aw "started")) (.ev (.aw "locator.discover"))) (.ev (.aw "finished"))) = true := by decide +kernel

end Order

/-! ### the window the stubbed connect has and the real one has not -/

/-- **between the answer to the last exchange of the hand-shake and the mark "connected" nothing can run**: in the regenerated skeleton of
`GeckoAsyncSpa._connect` there is no suspension point between the successful return of the full-block transfer (and the building of
the accessors) and `self._is_connected = True` - a reset cannot fall between them.  (The lifecycle model and the stubbed connect of
the rig have a step there; a reset parked in it - `connect@16; reset; resume` - ends CONNECTED without a spa in the model and on the
stub alike.  This theorem is why that history is not one of the real manager and is not searched for.) -/
theorem connected_mark_follows_the_last_exchange_without_suspension :
    GeckoModel.Coop.sectionsAtomic (fun a => a.kind == .call && a.name == "self.struct.build_accessors")
      (fun a => a.kind == .set && a.name == "self._is_connected")
      GeckoModel.Generated.Skeletons.sk_async_spa__GeckoAsyncSpa__connect = true ∧
    GeckoModel.Coop.sectionsAtomic (fun a => a.kind == .brF && a.name.startsWith "not await self.struct.get(")
      (fun a => a.kind == .set && a.name == "self._is_connected")
      GeckoModel.Generated.Skeletons.sk_async_spa__GeckoAsyncSpa__connect = true := by decide +kernel

end GeckoModel.C08
