/-
C01 — Status-block transfer installs the spa's bytes or nothing, under any faults.

Model: `Model/Transfer.lean` — the simulator's segment chain over the generated per-segment arithmetic
(`Generated.simSegLen`, `Generated.simSegNext`, translated from `GeckoSimulator._on_status_block` on every run) and the
two client assemblers (async `GeckoAsyncStructure.get`, threaded `GeckoStructure` + handler retry).
Fault model = the property's: every delivered segment is a genuine segment of THIS transfer's chain; segments may be
lost, duplicated, re-ordered, delayed across attempts; timeouts may fire anywhere.  All block contents, all
(start, length), all event sequences of any length — by induction.
-/
import GeckoModel.Proofs.TransferSync
import GeckoModel.Generated.ThreadedFacts
import GeckoModel.Proofs.Coop
import GeckoModel.Generated.Skeletons

import GeckoModel.Proofs.Cancel
namespace GeckoModel.C01
open GeckoModel GeckoModel.Generated

/-- every delivered segment is a genuine one of this transfer (any multiplicity, any order, any timeouts in between) -/
def Genuine (spa : Block) (start len : Nat) (evs : List Ev) : Prop :=
  ∀ s, Ev.seg s ∈ evs → s ∈ simChain spa start len

/-- the spa bytes a complete chain carries: `covered` bytes from `start` -/
def spaRun (spa : Block) (start len : Nat) : List Byte := (spa.drop start).take (covered spa.length start len)

/-- **async: installs the spa's bytes or nothing; at most `retry` requests** -/
theorem async_install_or_nothing (spa cli : Block) (start len retry : Nat) (evs : List Ev)
    (hg : Genuine spa start len evs) :
    let r := asyncGet retry evs cli start 0
    (r.ok = true → r.block = replaceSeg cli start (spaRun spa start len)) ∧
    (r.ok = false → r.block = cli) ∧ r.sends ≤ retry := by
  have := asyncGet_genuine spa cli start len retry evs 0 hg
  simp only [chain_data, Nat.zero_add] at this
  exact this

/-- what "the spa's bytes installed" means byte by byte: inside the request (at least `len` bytes from `start`, inside
the block) every byte equals the spa's; every other byte is the client's old byte; the size is unchanged -/
theorem installed_bytes (spa cli : Block) (n start len : Nat) (hs : spa.length = n) (hc : cli.length = n)
    (hin : start + len ≤ n) :
    let b := replaceSeg cli start (spaRun spa start len)
    b.length = n ∧
    (∀ i : Nat, start ≤ i → i < start + len → b[i]? = spa[i]?) ∧
    (∀ i : Nat, b[i]? ≠ cli[i]? → b[i]? = spa[i]?) := by
  have hcov : len ≤ covered n start len := covered_ge n start len hin
  have hcov2 : covered n start len ≤ n - start := by unfold covered; omega
  have hrl : (spaRun spa start len).length = covered n start len := by
    simp only [spaRun, hs, List.length_take, List.length_drop]; omega
  have hmid : ∀ i, start ≤ i → i < start + covered n start len →
      (replaceSeg cli start (spaRun spa start len))[i]? = spa[i]? := by
    intro i h1 h2
    have : i = start + (i - start) := by omega
    rw [this, replaceSeg_getElem?_mid cli start _ (i - start) (by rw [hrl]; omega) (by omega)]
    simp only [spaRun, hs, List.getElem?_take, List.getElem?_drop]
    have : i - start < covered n start len := by omega
    simp [this]
  refine ⟨?_, ?_, ?_⟩
  · rw [replaceSeg_length _ _ _ (by rw [hrl, hc]; omega)]; exact hc
  · intro i h1 h2; exact hmid i h1 (by omega)
  · intro i hne
    by_cases h1 : i < start
    · exact absurd (replaceSeg_getElem?_lt cli start _ i h1 (by omega)) hne
    · by_cases h2 : i < start + covered n start len
      · exact hmid i (by omega) h2
      · exact absurd (replaceSeg_getElem?_ge cli start _ i (by rw [hrl]; omega) (by omega)) hne

/-- **threaded: installs the spa's bytes or nothing; at most 1 + budget requests**, for every sequence of genuine
segments and timeouts (the assembly state surviving a timeout retry included) -/
theorem sync_install_or_nothing (spa cli : Block) (start len budget : Nat) (evs : List Ev)
    (hg : ∀ s, Ev.seg s ∈ evs → s ∈ simChain spa start len) :
    let a := (SyncAsm.start cli budget).run start evs
    (a.installed = true → a.cli = replaceSeg cli start (spaRun spa start len)) ∧
    (a.installed = false → a.cli = cli) ∧ a.sends ≤ 1 + budget := by
  have h := SyncInv.run spa cli start len budget evs hg _ (SyncInv.start spa cli start len budget)
  refine ⟨fun hi => ?_, h.untouched, by have := h.budget; omega⟩
  have := (h.inst hi).1
  rw [chain_data] at this
  exact this

/-- `retry_request` starts every transfer from a clean assembly state (the two generated facts, read off the source) -/
theorem restart_eq_start (prev : SyncAsm) (budget : Nat) : SyncAsm.restart prev budget = SyncAsm.start prev.cli budget := by
  simp [SyncAsm.restart, SyncAsm.start, syncRequestResetsNext, syncRequestResetsSegments]

/-- **threaded, histories of transfers on one structure**: whatever an earlier transfer — failed half-way, succeeded, anything —
left behind in the structure (`prev` is arbitrary), the next transfer installs exactly its spa's bytes into the block as
it stood, or leaves it untouched, with at most 1 + budget requests -/
theorem sync_transfer_install_or_nothing (prev : SyncAsm) (x : Xfer)
    (hg : ∀ s, Ev.seg s ∈ x.evs → s ∈ simChain x.spa x.start x.len) :
    let a := prev.transfer x
    (a.installed = true → a.cli = replaceSeg prev.cli x.start (spaRun x.spa x.start x.len)) ∧
    (a.installed = false → a.cli = prev.cli) ∧ a.sends ≤ 1 + x.budget := by
  simp only [SyncAsm.transfer, restart_eq_start]
  exact sync_install_or_nothing x.spa prev.cli x.start x.len x.budget x.evs hg

/-- every transfer of every history obeys the clause relative to the block as the previous transfer left it
(`prev :: history prev xs` lists the structure's state before the 1st, 2nd, … transfer) -/
theorem sync_history_install_or_nothing (xs : List Xfer)
    (hg : ∀ x ∈ xs, ∀ s, Ev.seg s ∈ x.evs → s ∈ simChain x.spa x.start x.len) :
    ∀ (prev : SyncAsm) (i : Nat) (b a : SyncAsm) (x : Xfer),
      (prev :: SyncAsm.history prev xs)[i]? = some b → (SyncAsm.history prev xs)[i]? = some a → xs[i]? = some x →
      (a.installed = true → a.cli = replaceSeg b.cli x.start (spaRun x.spa x.start x.len)) ∧
      (a.installed = false → a.cli = b.cli) ∧ a.sends ≤ 1 + x.budget := by
  induction xs with
  | nil => intro prev i b a x _ h; simp [SyncAsm.history] at h
  | cons y ys ih =>
    intro prev i b a x hb ha hx
    cases i with
    | zero =>
      simp only [SyncAsm.history, List.getElem?_cons_zero, Option.some.injEq] at hb ha hx
      subst hb ha hx
      exact sync_transfer_install_or_nothing prev y (hg y (by simp))
    | succ j =>
      simp only [SyncAsm.history, List.getElem?_cons_succ] at hb ha hx
      exact ih (fun x hx => hg x (by simp [hx])) (prev.transfer y) j b a x hb ha hx

/-- **fault-free network, bundled simulator: the transfer succeeds for every start and every positive length**, on the
first attempt (full statement — it holds since the `fix:` commit that made the last segment's `next` 0 for lengths that
are multiples of 39; the generated `simSegNext` is what this is proved about) -/
theorem faultfree_success (spa cli : Block) (start len retry : Nat) (hlen : 0 < len) (hr : 0 < retry) :
    asyncGet retry ((simChain spa start len).map Ev.seg) cli start 0 =
      ⟨true, replaceSeg cli start (spaRun spa start len), 1⟩ := by
  have hc : 0 < segCount len := by rw [segCount_def]; omega
  have h := asyncAttempt_inorder spa start len hc (segCount len) 0 (by omega) hc
  have hp : chainPrefix spa start len 0 = [] := by simp [chainPrefix]
  rw [hp, List.drop_zero] at h
  obtain ⟨r, rfl⟩ : ∃ r, retry = r + 1 := ⟨retry - 1, by omega⟩
  simp only [asyncGet, h, chain_data]
  rfl

theorem sync_inorder (spa cli : Block) (start len : Nat) : ∀ (n k : Nat) (a : SyncAsm), k + n = segCount len → 0 < n →
    a.live = true → a.nextExp = k → a.installed = false →
    let a' := a.run start (((simChain spa start len).drop k).map Ev.seg)
    a'.installed = true ∧ a'.sends = a.sends := by
  intro n
  induction n with
  | zero => intro k a _ h; omega
  | succ n ih =>
    intro k a hk _ hl hne hni
    have hki : k < segCount len := by omega
    have hd : (simChain spa start len).drop k = simSeg spa start len k :: (simChain spa start len).drop (k + 1) := by
      rw [List.drop_eq_getElem_cons (by rw [simChain_length]; exact hki)]
      congr 1
      have := simChain_getElem? spa start len k hki
      rw [List.getElem?_eq_getElem (by rw [simChain_length]; exact hki)] at this
      exact Option.some.inj this
    rw [hd]
    simp only [List.map_cons, SyncAsm.run, List.foldl_cons]
    by_cases hlast : k + 1 = segCount len
    · have hz : (k + 1) % segCount len = 0 := (next_zero_iff len k hki).2 hlast
      have hdn : (simChain spa start len).drop (k + 1) = [] := by
        apply List.drop_eq_nil_of_le; rw [simChain_length]; omega
      simp [hdn, SyncAsm.step, hl, hne, simSeg_idx, simSeg_next, hz]
    · have hs : (k + 1) % segCount len = k + 1 := Nat.mod_eq_of_lt (by omega)
      have hstep : a.step start (Ev.seg (simSeg spa start len k)) =
          { a with segs := a.segs ++ [(simSeg spa start len k).data], nextExp := k + 1 } := by
        simp [SyncAsm.step, hl, hne, simSeg_idx, simSeg_next, hs]
      rw [hstep]
      have := ih (k + 1) { a with segs := a.segs ++ [(simSeg spa start len k).data], nextExp := k + 1 } (by omega) (by omega) hl rfl hni
      simpa [SyncAsm.run] using this

/-- the threaded client too: in-order delivery installs on the first request -/
theorem faultfree_success_sync (spa cli : Block) (start len budget : Nat) (hlen : 0 < len) :
    let a := (SyncAsm.start cli budget).run start ((simChain spa start len).map Ev.seg)
    a.installed = true ∧ a.sends = 1 := by
  have hc : 0 < segCount len := by rw [segCount_def]; omega
  have := sync_inorder spa cli start len (segCount len) 0 (SyncAsm.start cli budget) (by omega) hc rfl rfl rfl
  simpa [SyncAsm.start] using this

/-- non-vacuity: a 78-byte request (a multiple of 39 — the case that used to hang) on a concrete block, with the
second segment duplicated and the first attempt losing its last segment -/
def exSpa : Block := (List.range 100).map (fun i => UInt8.ofNat (i + 1))
example : (simChain exSpa 3 78).map (fun s => (s.idx, s.next, s.data.length)) = [(0, 1, 39), (1, 0, 39)] := by decide +kernel
example : (asyncGet 3 [.seg (simSeg exSpa 3 78 0), .timeout,
                       .seg (simSeg exSpa 3 78 0), .seg (simSeg exSpa 3 78 0), .seg (simSeg exSpa 3 78 1)]
            (List.replicate 100 0) 3 0) = ⟨true, replaceSeg (List.replicate 100 0) 3 (spaRun exSpa 3 78), 2⟩ := by decide +kernel

/-- **why the threaded assembler may be modelled one datagram at a time**: the event streams of the theorems above give the
assembler ONE segment, then let the engine remove a finished request before the next one is looked at.  That is the shape of the
engine loop - one `recvfrom` per trip, clean-up after the dispatch - and it is audited statement by statement on every run by C20's
translator (`Generated/ThreadedFacts.lean`; a changed shape leaves a stub and this obligation fails to build): the receive step and the
loop are among the audited shapes and the phases run in the order send, receive, handler loops, clean-up -/
theorem engine_hands_over_one_datagram_per_cleanup :
    "GeckoUdpSocket._process_received_data" ∈ auditedShapes ∧ "GeckoUdpSocket._thread_func" ∈ auditedShapes ∧
    "GeckoUdpSocket._cleanup_handlers" ∈ auditedShapes ∧ "GeckoUdpSocket.dispatch_recevied_data" ∈ auditedShapes ∧
    threadPhaseCodes = [0, 1, 2, 3, 4] := by decide

/-- **why a transfer may be modelled as a function of (client block, reply stream) alone**: over the regenerated skeleton of
`GeckoAsyncStructure.get`, the coroutine assigns NO attribute of the structure (its assembly state lives in local variables) and
its only call on the structure is `replace_status_block_segment` - nothing a transfer learns survives it except the installed
bytes, so a later transfer cannot be influenced by an earlier one (no memo, no cached reply) -/
theorem async_get_keeps_no_state_between_transfers :
    Coop.selfStateWritten Skeletons.sk_driver_async_spastruct__GeckoAsyncStructure_get = [] ∧
    (Coop.actions .call Skeletons.sk_driver_async_spastruct__GeckoAsyncStructure_get).filter Coop.isSelfState =
      ["self.replace_status_block_segment"] := by decide +kernel

/-- non-vacuity: the skeleton does assign (locals) and a memo attribute would be seen -/
example : "retry_count" ∈ Coop.actions .set Skeletons.sk_driver_async_spastruct__GeckoAsyncStructure_get ∧
    Coop.selfStateWritten (.ev (.act ⟨.set, "self._last_fetched[]"⟩)) = ["self._last_fetched[]"] := by decide +kernel

/-- the threaded assembler's whole state is the two attributes of the model (`_next_expected`, the collected segments) plus the
success flag; it installs only through `replace_status_block_segment` -/
theorem threaded_assembler_state_inventory :
    (Coop.selfStateWritten Skeletons.sk_driver_spastruct__GeckoStructure__on_status_block_received,
     (Coop.actions .call Skeletons.sk_driver_spastruct__GeckoStructure__on_status_block_received).filter Coop.isSelfState) =
      (["self._next_expected", "self._status_block_segments", "self._next_expected", "self.had_at_least_one_block"],
       ["self._status_block_segments.append", "self.replace_status_block_segment"]) := by decide +kernel

/-- **a transfer holds the connection for ALL its attempts**: the event streams above contain segments of THIS transfer only; that is
so because `get` takes the connection lock once, outside its retry loop, and transmits only while holding it (over the regenerated
skeleton) - a second transfer cannot run between two attempts of the first and pick up a late segment of its chain -/
theorem transfer_holds_the_connection_for_all_its_attempts :
    Coop.atMostOnce (fun a => a.kind == .acquired && a.name == "protocol.Lock") Skeletons.sk_driver_async_spastruct__GeckoAsyncStructure_get = true ∧
    Coop.alwaysHeld (fun a => a.kind == .acquired && a.name == "protocol.Lock") (fun a => a.kind == .release && a.name == "protocol.Lock")
      (fun a => a.kind == .call && a.name == "queue_send") Skeletons.sk_driver_async_spastruct__GeckoAsyncStructure_get = true := by decide +kernel

/-! ### an installation needs an in-sequence FINAL segment -/

/-- **only a complete chain is installed** (both assemblers, over their regenerated skeletons): `replace_status_block_segment` is
called only on a path on which - since the reply in hand was received - the segment was found IN SEQUENCE and it was the FINAL one
(`next == 0`).  A chain that ended after a gap (its first or a middle segment lost), or a final segment arriving out of sequence,
cannot reach the installation: there is no path around either test -/
theorem install_needs_in_sequence_final_segment :
    Coop.onlyUnderBothGuards (Coop.isAwaitOf "request.wait_for_response") (Coop.isBranch true "next_expected == request.sequence")
      (Coop.isBranch true "request.next == 0") (Coop.isCallOf "self.replace_status_block_segment")
      Skeletons.sk_driver_async_spastruct__GeckoAsyncStructure_get = true ∧
    Coop.onlyUnderBothGuards (fun _ => false) (Coop.isBranch false "not self._next_expected == handler.sequence")
      (Coop.isBranch true "handler.next == 0") (Coop.isCallOf "self.replace_status_block_segment")
      Skeletons.sk_driver_spastruct__GeckoStructure__on_status_block_received = true := by decide +kernel

/-- the same over traces of the awaitable transfer: every trace is accepted by the guard monitor -/
theorem install_needs_in_sequence_final_segment_traces {t : List Coop.Ev} {o : Coop.Out}
    (h : Coop.Run Skeletons.sk_driver_async_spastruct__GeckoAsyncStructure_get t o) :
    (Coop.runMon (Coop.guardMon (Coop.isAwaitOf "request.wait_for_response") (Coop.isBranch true "next_expected == request.sequence")
      (Coop.isBranch true "request.next == 0") (Coop.isCallOf "self.replace_status_block_segment")) 0 t).isSome = true :=
  Coop.onlyUnderBothGuards_sound install_needs_in_sequence_final_segment.1 h

/-- non-vacuity: a flattened loop that installs whenever the final segment arrives while nothing is "expected" has a path to the
installation on which the segment in hand was NOT in sequence -/
example : Coop.onlyUnderBothGuards (Coop.isAwaitOf "w") (Coop.isBranch true "in-sequence") (Coop.isBranch true "final") (Coop.isCallOf "install")
    (.loop (.seq (.ev (.aw "w")) (.seq (.alt (.ev (.act ⟨.brT, "in-sequence"⟩)) (.ev (.act ⟨.brF, "in-sequence"⟩)))
      (.alt (.seq (.ev (.act ⟨.brT, "final"⟩)) (.ev (.act ⟨.call, "install"⟩))) (.ev (.act ⟨.brF, "final"⟩)))))) = false := by decide +kernel

/-! ### the blocking client's refresh (session glue) -/

/-- **the blocking client refreshes only when connected**: in `GeckoSpa.refresh` (called by the ping thread once per ping period and
by the shell) a sequence number is drawn and a request handed to the structure only on the path on which `not self.is_connected` was
found false - during the hand-shake the shared assembly state of the outstanding full-block request is left alone (round 15) -/
theorem refresh_only_when_connected :
    Coop.onlyUnderBothGuards (fun _ => false) (Coop.isBranch false "not self.is_connected") (Coop.isBranch false "not self.is_connected")
      (Coop.isCallOf "self.struct.retry_request") Skeletons.sk_spa__GeckoSpa_refresh = true ∧
    Coop.onlyUnderBothGuards (fun _ => false) (Coop.isBranch false "not self.is_connected") (Coop.isBranch false "not self.is_connected")
      (Coop.isCallOf "self.get_and_increment_sequence_counter") Skeletons.sk_spa__GeckoSpa_refresh = true := by decide +kernel

end GeckoModel.C01
