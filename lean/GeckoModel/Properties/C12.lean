/-
C12 — Device inventory equals the spa's output wiring, with unique keys.

Model: `Model/Inventory.lean` (the comprehensions of `GeckoAsyncFacade._scan_outputs` / `GeckoFacade.scan_outputs`,
`all_automation_devices`, `devices`, `get_device`, `unique_id`) over the constants of `Generated/DeviceTable.lean`
(DEVICES / SENSORS / BINARY_SENSORS, fixed keys, composition order of both facades, de-duplication kind of both facades,
all regenerated from the source on every run) and the regenerated pack tables.

Quantifiers: EVERY wiring `w` - any lists of outputs / devices / user demands, any assignment `val` of labels to outputs
(the same device on several outputs, labels that are a prefix of nothing, everything "NA"), any set of accessor keys.
The one hypothesis, `NoCaseDupDemands` (no two user-demand keys equal up to case), is a decidable property of a log
table and is established for every shipped log table in `shipped_side_conditions`, together with the other table
facts the theorems use (device-table keys distinct, sensor keys disjoint from device ids, ...).

The threaded twin `GeckoFacade.scan_outputs` de-duplicates order-preservingly too (since `fix:` 7fbeafc; before that it
used `set(..)`, whose iteration order follows string hashing - former finding D10).  Which de-duplication each facade
uses is regenerated from the source on every run (`Generated.asyncDedup`, `Generated.syncDedup`); `SyncOrder` states what
iteration orders the threaded scan may use for the regenerated kind, and `sync_same_as_async` is the full statement:
the threaded scan IS the async scan.  Should `set(..)` come back, `sync_same_as_async` stops building and the search
shows the order difference on the real code under different PYTHONHASHSEED values.
-/
import GeckoModel.Proofs.InventoryLemmas
import GeckoModel.Generated.PacksIndex

import GeckoModel.Model.Coop
import GeckoModel.Generated.Skeletons
namespace GeckoModel.C12
open GeckoModel GeckoModel.Generated GeckoModel.Inventory GeckoModel.InventoryLemmas

/-! ### the inventory is the declarative one -/

/-- **inventory_eq_spec**: for every wiring the async facade's `actual_user_devices` is the declarative inventory: the
devices of the table order, each once, that some output is wired to (value ≠ "NA" with the device as prefix), that have
a user demand and are in DEVICES - each with its demand item -/
theorem inventory_eq_spec (w : Wiring) (hn : NoCaseDupDemands w.userDemands) :
    (scanOutputs w).userDevices = specInventory w ∧ (scanOutputs w).userDevices.map (·.device) = specDevices w := by
  have h : (scanOutputs w).userDevices = specInventory w := handled_eq_spec w hn
  exact ⟨h, by rw [h, spec_devices]⟩

/-- each device once -/
theorem inventory_nodup (w : Wiring) (hn : NoCaseDupDemands w.userDemands) :
    ((scanOutputs w).userDevices.map (·.device)).Nodup := by
  rw [(inventory_eq_spec w hn).2]
  exact List.filter_sublist.nodup (nodup_dedup _)

/-- in table order: a sublist of the log table's device list -/
theorem order_is_table_order (w : Wiring) (hn : NoCaseDupDemands w.userDemands) :
    ((scanOutputs w).userDevices.map (·.device)).Sublist (dedup w.allDevices) ∧ (dedup w.allDevices).Sublist w.allDevices := by
  rw [(inventory_eq_spec w hn).2]
  exact ⟨List.filter_sublist, dedup_sublist _⟩

/-- the demand item of every listed device is one of the table's user demands and is the one matching the device -/
theorem demand_right (w : Wiring) (order : List String) :
    ∀ u ∈ (scanWith order w).userDevices,
      u.device ∈ order ∧ u.demandKey ∈ w.userDemands ∧ matchesDemand u.device u.demandKey = true ∧ inTable u.device = true := by
  intro u hu
  simp only [scanWith, handledOf, userDevicesOf, List.mem_filter, List.mem_flatMap, List.mem_map] at hu
  obtain ⟨⟨d, hd, ud, hud, rfl⟩, ht⟩ := hu
  exact ⟨hd, hud.1, hud.2, ht⟩

/-- every class name of DEVICES is one of the three the scan sorts by -/
theorem table_classes : ∀ r ∈ devicesTable, r.cls = classPump ∨ r.cls = classBlower ∨ r.cls = classLight := by decide

/-- **classes_right**: a pump / blower / light is listed exactly for the listed user devices whose DEVICES row has that
class, and carries that row's name, keypad button and state key (pumps also the demand item and its mode list); every
listed user device has a row, with one of the three classes (no KeyError, nothing dropped) -/
theorem classes_right (w : Wiring) (order : List String) :
    let inv := scanWith order w
    (∀ d, d ∈ inv.pumps ↔ ∃ u ∈ inv.userDevices, ∃ r, lookupRow u.device = some r ∧ r.cls = classPump ∧
        d = ⟨u.device, r.name, r.keypad, r.stateKey, r.cls, some (w.demandTag u.demandKey), some (w.demandOptions u.demandKey)⟩) ∧
    (∀ d, d ∈ inv.blowers ↔ ∃ u ∈ inv.userDevices, ∃ r, lookupRow u.device = some r ∧ r.cls = classBlower ∧
        d = ⟨u.device, r.name, r.keypad, r.stateKey, r.cls, none, none⟩) ∧
    (∀ d, d ∈ inv.lights ↔ ∃ u ∈ inv.userDevices, ∃ r, lookupRow u.device = some r ∧ r.cls = classLight ∧
        d = ⟨u.device, r.name, r.keypad, r.stateKey, r.cls, none, none⟩) ∧
    (∀ u ∈ inv.userDevices, ∃ r, lookupRow u.device = some r ∧ (r.cls = classPump ∨ r.cls = classBlower ∨ r.cls = classLight)) := by
  have key : ∀ (cls : String) (b : Bool) (d : Dev), d ∈ devsOfClass cls b (handledOf order w) w ↔
      ∃ u ∈ handledOf order w, ∃ r, lookupRow u.device = some r ∧ r.cls = cls ∧
        d = ⟨u.device, r.name, r.keypad, r.stateKey, r.cls, if b then some (w.demandTag u.demandKey) else none,
             if b then some (w.demandOptions u.demandKey) else none⟩ := by
    intro cls b d
    unfold devsOfClass
    rw [List.mem_filterMap]
    constructor
    · rintro ⟨u, hu, h⟩
      cases hl : lookupRow u.device with
      | none => simp [hl] at h
      | some r =>
        simp only [hl] at h
        by_cases hc : r.cls = cls
        · simp only [beq_iff_eq, hc, if_true, Option.some.injEq] at h
          exact ⟨u, hu, r, hl, hc, by rw [← h, hc]⟩
        · simp [hc] at h
    · rintro ⟨u, hu, r, hl, hc, rfl⟩
      exact ⟨u, hu, by simp [hl, hc]⟩
  refine ⟨fun d => ?_, fun d => ?_, fun d => ?_, ?_⟩
  · simpa [scanWith] using key classPump true d
  · simpa [scanWith] using key classBlower false d
  · simpa [scanWith] using key classLight false d
  · intro u hu
    have ht := (demand_right w order u hu).2.2.2
    unfold inTable at ht
    cases hl : lookupRow u.device with
    | none => simp [hl] at ht
    | some r => exact ⟨r, rfl, table_classes r (lookupRow_some hl).1⟩

/-! ### keys -/

/-- facts about the generated constant tables, evaluated by the kernel: all automation keys that can ever occur - device
ids, upper-cased sensor names, the fixed keys, the eco switch's key - are pairwise distinct -/
theorem tables_ok :
    (deviceIds ++ (sensorKeys ++ (binarySensorKeys ++ (["HEAT", "WATERCARE", "REMINDERS", "KEYPAD"] ++ [ecoRow.id])))).Nodup ∧
    classPump ≠ classBlower ∧ classPump ≠ classLight ∧ classBlower ≠ classLight := by decide +kernel

/-- keys of the objects other than the eco switch (async order) -/
theorem asyncObjects_keys (inv : Inv) :
    (asyncObjects inv).map (·.key) = inv.pumps.map (·.key) ++ inv.blowers.map (·.key) ++ inv.lights.map (·.key) ++
      inv.sensors.map (·.key) ++ inv.binarySensors.map (·.key) ++ ["HEAT", "WATERCARE", "REMINDERS", "KEYPAD"] := by
  simp [asyncObjects, devEntry, sensorEntry, Function.comp_def]

theorem syncObjects_keys (inv : Inv) :
    (syncObjects inv).map (·.key) = inv.pumps.map (·.key) ++ inv.blowers.map (·.key) ++ inv.lights.map (·.key) ++
      inv.sensors.map (·.key) ++ inv.binarySensors.map (·.key) ++ ["HEAT", "WATERCARE", "KEYPAD"] := by
  simp [syncObjects, devEntry, sensorEntry, Function.comp_def]

/-- the user-device keys of a scan: duplicate-free and all ids of DEVICES, as soon as the listed devices are -/
theorem device_keys (w : Wiring) (order : List String) (hH : ((scanWith order w).userDevices.map (·.device)).Nodup) :
    let inv := scanWith order w
    (inv.pumps.map (·.key) ++ (inv.blowers.map (·.key) ++ inv.lights.map (·.key))).Nodup ∧
    ∀ k ∈ inv.pumps.map (·.key) ++ (inv.blowers.map (·.key) ++ inv.lights.map (·.key)), k ∈ deviceIds := by
  obtain ⟨_, c1, c2, c3⟩ := tables_ok
  simp only [scanWith] at hH ⊢
  rw [devsOfClass_keys, devsOfClass_keys, devsOfClass_keys]
  have excl : ∀ (a b : String), a ≠ b → ∀ d, ¬ ((clsOf d == some a) = true ∧ (clsOf d == some b) = true) := by
    intro a b hab d ⟨h1, h2⟩
    have e1 : clsOf d = some a := by simpa using h1
    have e2 : clsOf d = some b := by simpa using h2
    rw [e1] at e2
    exact hab (Option.some.inj e2)
  refine ⟨?_, ?_⟩
  · rw [List.nodup_append]
    refine ⟨List.filter_sublist.nodup hH, nodup_filter_append hH _ _ (excl _ _ c3), ?_⟩
    intro a ha b hb hab
    subst hab
    rw [List.mem_append] at hb
    rw [List.mem_filter] at ha
    rcases hb with hb | hb <;> rw [List.mem_filter] at hb
    · exact excl _ _ c1 a ⟨ha.2, hb.2⟩
    · exact excl _ _ c2 a ⟨ha.2, hb.2⟩
  · intro k hk
    have hcls : ∃ c, clsOf k = some c := by
      simp only [List.mem_append, List.mem_filter] at hk
      rcases hk with h | h | h <;> exact ⟨_, by simpa using h.2⟩
    obtain ⟨c, hc⟩ := hcls
    unfold clsOf at hc
    cases hl : lookupRow k with
    | none => simp [hl] at hc
    | some r =>
      have := lookupRow_some hl
      exact List.mem_map.2 ⟨r, this.1, this.2⟩

/-- core of `keys_unique`, for any iteration order whose listed devices are duplicate-free, both facades -/
theorem keys_nodup_of (w : Wiring) (order : List String) (hH : ((scanWith order w).userDevices.map (·.device)).Nodup) :
    let inv := scanWith order w
    ((asyncObjects inv).map (·.key) ++ (inv.eco.map (·.key)).toList).Nodup ∧
    ((syncObjects inv).map (·.key) ++ (inv.eco.map (·.key)).toList).Nodup := by
  intro inv
  obtain ⟨hU, _⟩ := tables_ok
  obtain ⟨dN, dU⟩ := device_keys w order hH
  have sS : (inv.sensors.map (·.key)).Sublist sensorKeys := sensorsOf_keys_sublist sensorsTable w
  have bS : (inv.binarySensors.map (·.key)).Sublist binarySensorKeys := sensorsOf_keys_sublist binarySensorsTable w
  have eS : ((inv.eco.map (·.key)).toList).Sublist [ecoRow.id] := by
    show ((Option.map (·.key) (scanWith order w).eco).toList).Sublist [ecoRow.id]
    simp only [scanWith]
    split <;> simp
  -- peel the universe from the right
  have u4 := (List.nodup_append.1 hU).2.1
  have u3 := (List.nodup_append.1 u4).2.1
  have u2 := (List.nodup_append.1 u3).2.1
  have fA : (["HEAT", "WATERCARE", "REMINDERS", "KEYPAD"] : List String).Nodup := (List.nodup_append.1 u2).1
  have fSsub : (["HEAT", "WATERCARE", "KEYPAD"] : List String).Sublist ["HEAT", "WATERCARE", "REMINDERS", "KEYPAD"] := by decide
  have e1 := (List.nodup_append.1 u2).2.1
  have build : ∀ F : List String, F.Sublist ["HEAT", "WATERCARE", "REMINDERS", "KEYPAD"] →
      ((inv.pumps.map (·.key) ++ (inv.blowers.map (·.key) ++ inv.lights.map (·.key))) ++
        (inv.sensors.map (·.key) ++ (inv.binarySensors.map (·.key) ++ (F ++ (inv.eco.map (·.key)).toList)))).Nodup := by
    intro F hF
    have s1 := nodup_append_sub (hF.nodup fA) (fun a ha => hF.subset ha) (eS.nodup e1) (fun a ha => eS.subset ha) u2
    have s2 := nodup_append_sub (bS.nodup (List.nodup_append.1 u3).1) (fun a ha => bS.subset ha) s1.1 s1.2 u3
    have s3 := nodup_append_sub (sS.nodup (List.nodup_append.1 u4).1) (fun a ha => sS.subset ha) s2.1 s2.2 u4
    exact (nodup_append_sub dN dU s3.1 s3.2 hU).1
  constructor
  · rw [asyncObjects_keys]
    have := build _ (List.Sublist.refl _)
    simpa [List.append_assoc] using this
  · rw [syncObjects_keys]
    have := build _ fSsub
    simpa [List.append_assoc] using this

/-- the objects of `all_automation_devices` (async facade) -/
theorem present_async (inv : Inv) :
    presentEntries asyncAutomationOrder inv = asyncObjects inv ++ (inv.eco.map (devEntry "eco_mode")).toList := by
  unfold presentEntries
  rw [allAutomation_async]
  cases inv.eco <;> simp [List.filterMap_append]

theorem present_sync (inv : Inv) :
    presentEntries syncAutomationOrder inv = syncObjects inv ++ (inv.eco.map (devEntry "eco_mode")).toList := by
  unfold presentEntries
  rw [allAutomation_sync]
  cases inv.eco <;> simp [List.filterMap_append]

/-- **keys_unique**: all automation keys of the async facade are distinct, and so are the unique ids, for any parent id -/
theorem keys_unique (w : Wiring) (hn : NoCaseDupDemands w.userDemands) (parent : String) :
    ((presentEntries asyncAutomationOrder (scanOutputs w)).map (·.key)).Nodup ∧
    ((presentEntries asyncAutomationOrder (scanOutputs w)).map (fun e => uniqueId parent e.key)).Nodup := by
  have hk : ((presentEntries asyncAutomationOrder (scanOutputs w)).map (·.key)).Nodup := by
    rw [present_async]
    have := (keys_nodup_of w w.actualDevices (inventory_nodup w hn)).1
    cases h : (scanOutputs w).eco <;> simp_all [scanOutputs, devEntry]
  refine ⟨hk, ?_⟩
  have : (presentEntries asyncAutomationOrder (scanOutputs w)).map (fun e => uniqueId parent e.key) =
      ((presentEntries asyncAutomationOrder (scanOutputs w)).map (·.key)).map (uniqueId parent) := by
    rw [List.map_map]; rfl
  rw [this]
  exact nodup_map_of_inj _ (uniqueId_inj parent) _ hk

/-- **lookup_returns_it**: looking an object up by its key returns that object (the `None` that stands for a missing eco
switch sits last in the list and is never reached on the way to an object) -/
theorem lookup_returns_it (w : Wiring) (hn : NoCaseDupDemands w.userDemands) :
    ∀ e ∈ presentEntries asyncAutomationOrder (scanOutputs w), getDevice asyncAutomationOrder (scanOutputs w) e.key = .ok (some e) := by
  intro e he
  have hk := (keys_unique w hn "").1
  unfold getDevice
  rw [allAutomation_async]
  rw [present_async] at he hk
  cases hec : (scanOutputs w).eco with
  | none =>
    rw [hec] at he hk
    simp only [Option.map_none, Option.toList_none, List.append_nil] at he hk ⊢
    exact getDeviceIn_prefix _ _ hk e he
  | some d =>
    rw [hec] at he hk
    simp only [Option.map_some, Option.toList_some] at he hk ⊢
    have := getDeviceIn_prefix (asyncObjects (scanOutputs w) ++ [devEntry "eco_mode" d]) [] hk e he
    simpa using this

/-- the quirk around a missing eco switch, as the code behaves: a key that names nothing returns `None` when the eco
switch exists and raises AttributeError when it does not; `devices` likewise -/
theorem lookup_absent_and_devices (w : Wiring) (key : String)
    (hk : key ∉ (presentEntries asyncAutomationOrder (scanOutputs w)).map (·.key)) :
    ((scanOutputs w).eco.isSome = true →
        getDevice asyncAutomationOrder (scanOutputs w) key = .ok none ∧
        devices asyncAutomationOrder (scanOutputs w) = .ok ((presentEntries asyncAutomationOrder (scanOutputs w)).map (·.key))) ∧
    ((scanOutputs w).eco = none →
        getDevice asyncAutomationOrder (scanOutputs w) key = .error .attributeError ∧
        devices asyncAutomationOrder (scanOutputs w) = .error .attributeError) := by
  unfold getDevice devices
  rw [allAutomation_async]
  rw [present_async] at hk
  constructor
  · intro h
    cases hec : (scanOutputs w).eco with
    | none => simp [hec] at h
    | some d =>
      rw [hec] at hk
      simp only [Option.map_some, Option.toList_some] at hk ⊢
      have e : List.map some (asyncObjects (scanOutputs w)) ++ [some (devEntry "eco_mode" d)] =
          List.map some (asyncObjects (scanOutputs w) ++ [devEntry "eco_mode" d]) := by simp
      rw [e]
      exact ⟨(getDeviceIn_absent _ key hk).1, by rw [present_async, hec]; exact (keysOf_some _).1⟩
  · intro hec
    rw [hec] at hk
    simp only [Option.map_none, Option.toList_none, List.append_nil] at hk
    simp only [hec, Option.map_none]
    exact ⟨(getDeviceIn_absent _ key hk).2, (keysOf_some _).2⟩

/-! ### the threaded twin -/

theorem syncOrder_perm (w : Wiring) (order : List String) (ho : SyncOrder w order) : order.Perm w.actualDevices := by
  unfold SyncOrder at ho
  split at ho
  · exact ho
  · rw [ho]

/-- the threaded facade de-duplicates order-preservingly (syntactic fact regenerated from the source) -/
theorem sync_order_preserving : syncDedup = .orderPreserving := by decide

/-- the full statement for the threaded facade under the hypothesis that its source uses the order preserving de-dup -/
theorem sync_same_as_async_if_order_preserving (hk : syncDedup = .orderPreserving) (w : Wiring) (order : List String)
    (ho : SyncOrder w order) : scanWith order w = scanOutputs w := by
  unfold SyncOrder at ho
  rw [hk] at ho
  simp only at ho
  rw [ho]; rfl

/-- **sync_same_as_async** (full statement): whatever iteration order the threaded `GeckoFacade.scan_outputs` may use, its
scan is the async facade's scan - the same user devices, pumps, blowers, lights IN THE SAME (table) ORDER, the same
sensors, binary sensors and eco switch.  Hence every theorem above about `scanOutputs` holds for the threaded facade. -/
theorem sync_same_as_async (w : Wiring) (order : List String) (ho : SyncOrder w order) : scanWith order w = scanOutputs w :=
  sync_same_as_async_if_order_preserving sync_order_preserving w order ho

/-- the threaded facade composes `all_automation_devices` differently (no reminders object): its automation keys and unique
ids are distinct too, and looking an object up by its key returns it -/
theorem sync_keys_unique_and_lookup (w : Wiring) (hn : NoCaseDupDemands w.userDemands) (order : List String) (ho : SyncOrder w order)
    (parent : String) :
    ((presentEntries syncAutomationOrder (scanWith order w)).map (·.key)).Nodup ∧
    ((presentEntries syncAutomationOrder (scanWith order w)).map (fun e => uniqueId parent e.key)).Nodup ∧
    ∀ e ∈ presentEntries syncAutomationOrder (scanWith order w), getDevice syncAutomationOrder (scanWith order w) e.key = .ok (some e) := by
  have hp := syncOrder_perm w order ho
  have hu : (handledOf order w).Perm (handledOf w.actualDevices w) := (hp.flatMap_right _).filter _
  have hH : ((scanWith order w).userDevices.map (·.device)).Nodup :=
    ((hu.map _).nodup_iff).2 (inventory_nodup w hn)
  have hk : ((presentEntries syncAutomationOrder (scanWith order w)).map (·.key)).Nodup := by
    rw [present_sync]
    have := (keys_nodup_of w order hH).2
    cases h : (scanWith order w).eco <;> simp_all [devEntry]
  refine ⟨hk, ?_, ?_⟩
  · have : (presentEntries syncAutomationOrder (scanWith order w)).map (fun e => uniqueId parent e.key) =
        ((presentEntries syncAutomationOrder (scanWith order w)).map (·.key)).map (uniqueId parent) := by
      rw [List.map_map]; rfl
    rw [this]
    exact nodup_map_of_inj _ (uniqueId_inj parent) _ hk
  · intro e he
    unfold getDevice
    rw [allAutomation_sync]
    rw [present_sync] at he hk
    cases hec : (scanWith order w).eco with
    | none =>
      rw [hec] at he hk
      simp only [Option.map_none, Option.toList_none, List.append_nil] at he hk ⊢
      exact getDeviceIn_prefix _ _ hk e he
    | some d =>
      rw [hec] at he hk
      simp only [Option.map_some, Option.toList_some] at he hk ⊢
      have := getDeviceIn_prefix (syncObjects (scanWith order w) ++ [devEntry "eco_mode" d]) [] hk e he
      simpa using this

/-- the async facade does use the order preserving de-dup (syntactic fact regenerated from the source) -/
theorem async_order_preserving : asyncDedup = .orderPreserving := by decide

/-! ### the shipped tables meet the side conditions -/

def isAscii (s : String) : Bool := s.toList.all (fun c => c.toNat < 128)

/-- decidable form of `NoCaseDupDemands` -/
def noCaseDupB (uds : List String) : Bool := decide uds.Nodup && decide (uds.map upper).Nodup

theorem noCaseDup_of_B (uds : List String) (h : noCaseDupB uds = true) : NoCaseDupDemands uds := by
  unfold noCaseDupB at h
  simp only [Bool.and_eq_true, decide_eq_true_eq] at h
  exact ⟨h.1, nodup_of_map_nodup upper uds h.2⟩

/-- what C12 needs of one log table: user demands without case-duplicates; every key that is upper-cased is ASCII; every
DEVICES device of the table that has a user demand has its state key among the table's items (so the constructors'
`accessors[props[2]]` cannot raise) -/
def logSideB (m : PackModule) : Bool :=
  noCaseDupB m.userDemandKeys &&
  m.userDemandKeys.all isAscii && m.deviceKeys.all isAscii &&
  m.deviceKeys.all (fun d =>
    match lookupRow d with
    | some r => !(m.userDemandKeys.any (matchesDemand d)) || m.items.any (fun it => it.key == r.stateKey)
    | none => true)

/-- … and of one config table: every output item is an enumeration with labels (its value is a string) -/
def cfgSideB (m : PackModule) : Bool :=
  m.outputKeys.all (fun o => m.items.any (fun it => it.key == o && it.kind == .enum && it.hasLabels))

def moduleSideB (m : PackModule) : Bool :=
  match m.kind with
  | .log => logSideB m
  | .cfg => cfgSideB m
  | _ => true

/-- **shipped_side_conditions**: every shipped log / config table meets them (whole-table evaluation by the kernel), and
the sensor names are ASCII -/
theorem shipped_side_conditions :
    (∀ m ∈ Packs.allModules, moduleSideB m = true) ∧
    (sensorsTable ++ binarySensorsTable).all (fun s => isAscii s.name) = true := by decide +kernel

/-- hence the hypothesis of the theorems above holds on every shipped log table -/
theorem shipped_no_case_dup : ∀ m ∈ Packs.allModules, m.kind = .log → NoCaseDupDemands m.userDemandKeys := by
  intro m hm hk
  have := shipped_side_conditions.1 m hm
  unfold moduleSideB at this
  rw [hk] at this
  unfold logSideB at this
  simp only [Bool.and_eq_true] at this
  exact noCaseDup_of_B _ this.1.1.1

/-! ### non-vacuity: a wiring with the same pump on two outputs (issue #3), an unknown device and an "NA" output -/

def exampleWiring : Wiring :=
  { allOutputs := ["Out1", "Out2", "Out3", "OutLi", "Out1"]
    allDevices := ["P1", "P2", "BL", "L120", "LI"]
    userDemands := ["UdP1", "UdP2", "UdBL", "UdL120", "UdLi"]
    val := fun o => if o = "Out1" then "P1H" else if o = "Out2" then "P1L" else if o = "Out3" then "L120" else if o = "OutLi" then "LI" else "NA"
    hasKey := fun k => k ∈ ["P1", "P2", "BL", "UdLi", "CP", "EconActive"]
    demandTag := id
    demandOptions := fun _ => some ["OFF", "ON"] }

example : NoCaseDupDemands exampleWiring.userDemands := noCaseDup_of_B _ (by decide +kernel)
example : (scanOutputs exampleWiring).userDevices.map (·.device) = ["P1", "LI"] := by decide +kernel
example : (scanOutputs exampleWiring).pumps.map (·.key) = ["P1"] ∧ (scanOutputs exampleWiring).lights.map (·.stateKey) = ["UdLi"] := by
  decide +kernel
/-- the table order is an admissible order of the threaded scan (non-vacuity of `SyncOrder`) -/
example : SyncOrder exampleWiring exampleWiring.actualDevices := by
  unfold SyncOrder
  split
  · exact List.Perm.refl _
  · rfl

/-! ### the same facade object scanned again (reconnect of the blocking client) -/

/-- both scans rebuild every inventory list by assignment (generated from the source) -/
theorem scans_rebuild_by_assignment :
    (∀ u ∈ syncScanUpdates, u.2 = true) ∧ (∀ u ∈ asyncScanUpdates, u.2 = true) ∧
    syncScanUpdates.map (·.1) = ["actual_user_devices", "_pumps", "_blowers", "_lights", "_sensors", "_binary_sensors"] ∧
    asyncScanUpdates.map (·.1) = syncScanUpdates.map (·.1) := by decide

/-- **a facade object scanned any number of times holds exactly the inventory of one scan** (each device once, hence all
the key / unique-id / lookup theorems above keep holding after reconnects) -/
theorem rescans_are_idempotent (fresh : Inv) (n : Nat) : scans syncScanUpdates fresh n = fresh ∧ scans asyncScanUpdates fresh n = fresh := by
  have hs : ∀ nm ∈ ["actual_user_devices", "_pumps", "_blowers", "_lights", "_sensors", "_binary_sensors"],
      assigned syncScanUpdates nm = true ∧ assigned asyncScanUpdates nm = true := by decide
  have one : ∀ old : Inv, rescan syncScanUpdates old fresh = fresh ∧ rescan asyncScanUpdates old fresh = fresh := by
    intro old
    simp [rescan, upd, hs]
  induction n with
  | zero => exact one _
  | succ k _ => exact one _

/-- non-vacuity: a scan that APPENDS to the sensor list doubles it on the second scan -/
example : (scans [("actual_user_devices", true), ("_pumps", true), ("_blowers", true), ("_lights", true), ("_sensors", false), ("_binary_sensors", true)]
            { emptyInv with sensors := [⟨"K", "k", "t"⟩] } 1).sensors.length = 2 := by decide

/-! ### the blocking client's session glue -/

/-- **every connection of the blocking client gets declaration objects of its own** (over the regenerated skeleton of
`GeckoSpa._on_config_received`): on every path that ends normally the pack, the config and the log declaration classes are each
INSTANTIATED (once each, in this order, over this connection's structure) before the full block is requested - none is looked up in
something that outlives the connection (rounds 14 and 15: declaration objects kept per process read another connection's block) -/
theorem blocking_declarations_are_made_for_each_connection :
    Coop.everyNormalEndDid (fun a => a.kind == .call && a.name == "GeckoPack") Skeletons.sk_spa__GeckoSpa__on_config_received = true ∧
    Coop.everyNormalEndDid (fun a => a.kind == .call && a.name == "GeckoConfigStruct") Skeletons.sk_spa__GeckoSpa__on_config_received = true ∧
    Coop.everyNormalEndDid (fun a => a.kind == .call && a.name == "GeckoLogStruct") Skeletons.sk_spa__GeckoSpa__on_config_received = true ∧
    Coop.everyNormalEndDid (fun a => a.kind == .call && a.name == "self.struct.retry_request") Skeletons.sk_spa__GeckoSpa__on_config_received = true ∧
    ((Coop.actions .call Skeletons.sk_spa__GeckoSpa__on_config_received).filter fun n => n == "GeckoPack" || n == "GeckoConfigStruct" || n == "GeckoLogStruct") =
      ["GeckoPack", "GeckoConfigStruct", "GeckoLogStruct"] := by decide +kernel

end GeckoModel.C12
