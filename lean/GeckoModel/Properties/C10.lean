/-
C10 — Reset or exit at any point leaks no endpoint/task and has no late effects.

The quantifier (every await point reachable during discovery, each handshake step, steady state) is a finite table that is
regenerated from the source on every run (`Generated.crashPoints`, `Generated.teardownFacts`), so kernel evaluation over
the whole table is the proof.  The FULL statement (`NoLeakAtAnyPoint`) holds on the current tree (`no_leak_at_any_point`) since the `fix:` commits listed
in known_findings.json; `each_fix_is_needed` keeps the witnesses of what it looked like before.
-/
import GeckoModel.Model.Teardown
import GeckoModel.Model.Coop
import GeckoModel.Proofs.Cancel
import GeckoModel.Generated.Skeletons

namespace GeckoModel.C10
open GeckoModel GeckoModel.Generated

/-- FULL statement: at every suspension point, after a reset or an exit nothing is left behind -/
def NoLeakAtAnyPoint (f : TeardownFacts) (pts : List CrashPoint) : Prop :=
  ∀ p ∈ pts, (afterReset f p).clean = true ∧ (afterReset f p).pumpAlive = true ∧ (afterExit f p).clean = true

instance (f : TeardownFacts) (pts : List CrashPoint) : Decidable (NoLeakAtAnyPoint f pts) := by
  unfold NoLeakAtAnyPoint; exact inferInstance

/-- **FULL statement** (it holds since the three `fix:` commits that make the context exit release the connection, make
`_connect` release an endpoint created under a spa that was disconnected meanwhile, and take the facade update task's sleep
out of its `finally` block): at EVERY suspension point of discovery, of the handshake and of steady state, a reset or a
context exit leaves no endpoint open, no background task alive and no observer registered, and a reset leaves the pump alive -/
theorem no_leak_at_any_point : NoLeakAtAnyPoint teardownFacts crashPoints := by decide

/-- what each of those facts buys (the audited tree had all three `false`; finding D6): without the exit releasing the
connection the endpoint stays open at every point of the handshake and in steady state; without the check in `_connect` a
reset inside the endpoint creation leaves the endpoint and seven tasks; with a sleep in the update task's `finally` it lingers -/
theorem each_fix_is_needed :
    endpointLeaks { teardownFacts with exitResets := false } crashPoints .exit = ["_connect", "pump-connected"] ∧
    endpointLeaks { teardownFacts with connectReleasesEndpointIfDisconnected := false } crashPoints .reset = ["_connect"] ∧
    (∃ p ∈ crashPoints, (afterReset { teardownFacts with connectReleasesEndpointIfDisconnected := false } p).tasksAlive = true) ∧
    (∃ p ∈ crashPoints, (afterExit { teardownFacts with facadeUpdateAwaitsInFinally := true } p).tasksAlive = true) := by decide

/-- **every background task of the abandoned connection terminates**, at every point, after a reset and after an exit;
the exit also ends the pump -/
theorem tasks_never_leak : ∀ p ∈ crashPoints,
    (afterReset teardownFacts p).tasksAlive = false ∧ (afterExit teardownFacts p).tasksAlive = false ∧
    (afterExit teardownFacts p).pumpAlive = false := by decide

/-- **no client observer stays registered on abandoned objects** (no late effects through the facade or the spa) -/
theorem no_observer_left : ∀ p ∈ crashPoints,
    (afterReset teardownFacts p).observersLeft = false ∧ (afterExit teardownFacts p).observersLeft = false := by decide

/-- **no endpoint is left open**, whatever the point and whether it is a reset or an exit -/
theorem endpoint_leaks_exact :
    endpointLeaks teardownFacts crashPoints .reset = [] ∧ endpointLeaks teardownFacts crashPoints .exit = [] := by decide

/-- **the manager keeps working after a reset at any point**: the sequence pump survives (full clause; it holds since the
`fix:` commit that makes `_sequence_pump` survive exceptions) -/
theorem pump_survives_every_reset : ∀ p ∈ crashPoints, (afterReset teardownFacts p).pumpAlive = true := by decide

/-- **bounded over cycles**: reset / reconnect cycles in steady state never accumulate endpoints (full statement; it
holds since the `fix:` commit that closes the transport in `disconnect()`) -/
theorem bounded_over_cycles (n : Nat) : openAfterCycles teardownFacts n = 1 := by
  simp [openAfterCycles, afterReset, teardownFacts]

/-- **a reset in an error state leaves nothing behind and runs to its end — whoever issues it and whatever the client's
handler does**: a user reset, or the manager's own reset from inside the spa's ping-loop task (the recovery path, where
`disconnect()` cancels the very task that runs it), with a client event handler that returns at once or really yields -/
theorem error_state_reset_is_clean : ∀ (o : Origin) (suspends : Bool),
    (runReset resetSteps spaDisconnectSteps facadeDisconnectSteps o suspends).ledger.clean = true ∧
    (runReset resetSteps spaDisconnectSteps facadeDisconnectSteps o suspends).completed = true := by
  intro o suspends; cases o <;> cases suspends <;> decide

/-- non-vacuity of the clause above: moving the cancellation of the SPA tasks in front of the handler await (a one-line
reordering of `disconnect()`) makes the self-issued reset abandon the endpoint when the client's handler yields -/
example : (runReset resetSteps [.other, .cancelSpa, .awaitHandler, .other, .dropProtocol, .closeTransport, .unwatch]
                     facadeDisconnectSteps .spaTask true).ledger.endpointOpen = true ∧
    (runReset resetSteps [.other, .cancelSpa, .awaitHandler, .other, .dropProtocol, .closeTransport, .unwatch]
                     facadeDisconnectSteps .spaTask true).completed = false := by decide

/-- **a context exit during discovery closes the discovery endpoint and cancels its helper tasks, whether or not the
client's exit handler suspends** (i.e. even when `gather()`'s second cancellation arrives while the `finally` block of
`discover()` is running): the generated `finally` block contains no await before its close -/
theorem discover_finally_survives_second_cancel : ∀ secondCancel : Bool,
    (runDiscoverFinally discoverFinallySteps secondCancel).closed = true ∧
    (runDiscoverFinally discoverFinallySteps secondCancel).locCancelled = true := by decide

/-- non-vacuity: one awaited sleep between the two statements (a one-line edit) loses the endpoint when the second
cancellation arrives, and only then -/
example : (runDiscoverFinally [.other, .cancelLoc, .awaitOther, .closeTransport, .other, .other] true).closed = false ∧
    (runDiscoverFinally [.other, .cancelLoc, .awaitOther, .closeTransport, .other, .other] false).closed = true := by decide

/-- non-vacuity: the table covers discovery, the handshake and steady state, and contains both endpoint-creation windows -/
example : (∀ p ∈ ["discover", "_connect", "pump-idle", "pump-connected"], p ∈ crashPoints.map (·.proc)) ∧
    (crashPoints.filter (·.endpoint == .pending)).length = 2 ∧ crashPoints.length ≥ 20 := by decide

/-- **the table the statements above quantify over has one entry per suspension point of the two connection procedures**: the
crash-point table (harness/gen_c10.py) and the suspension skeletons (harness/gen_coop.py) are produced by two independent
translators from the same source and agree on how many points there are -/
theorem crash_points_cover_every_suspension :
    (crashPoints.filter (·.proc == "_connect")).length = Coop.suspensions Skeletons.sk_async_spa__GeckoAsyncSpa__connect ∧
    (crashPoints.filter (·.proc == "discover")).length = Coop.suspensions Skeletons.sk_async_locator__GeckoAsyncLocator_discover := by
  decide +kernel

/-- **every background task is tracked as itself**: over the regenerated skeletons of the task registry, `add_task` writes no
attribute and APPENDS the task it created to the registry (a list: two tasks started under the same name are two entries), and
`cancel_key_tasks` cancels by walking the entries - what `disconnectCancelsSpaTasks` / `exitGathersAllTasks` take for granted -/
theorem task_registry_tracks_every_task :
    (Coop.selfStateWritten Skeletons.sk_async_tasks__AsyncTasks_add_task,
     (Coop.actions .call Skeletons.sk_async_tasks__AsyncTasks_add_task).filter Coop.isSelfState) = ([], ["self._tasks.append"]) ∧
    "task.cancel" ∈ Coop.actions .call Skeletons.sk_async_tasks__AsyncTasks_cancel_key_tasks ∧
    Coop.selfStateWritten Skeletons.sk_async_tasks__AsyncTasks_cancel_key_tasks = [] ∧
    -- the housekeeping task rewrites the registry, and the only place where it can be suspended is its sleep: it never yields
    -- between looking at the registry and replacing it (a task registered meanwhile cannot be dropped)
    Coop.awaitsIn Skeletons.sk_async_tasks__AsyncTasks__tidy = ["config_sleep"] ∧
    Coop.selfStateWritten Skeletons.sk_async_tasks__AsyncTasks__tidy = ["self._tasks"] := by decide +kernel

/-- **discovery gives its endpoint back however it ends**: over the regenerated skeleton of `discover()`, in every trace - normal
return, exception, cancellation at any await - the endpoint obtained from `create_datagram_endpoint` is closed before the coroutine
is left (state 2 = the creating await itself did not return: the "pending" window of `crashPoints`) -/
theorem discover_releases_endpoint_on_every_exit :
    Coop.releasedOnEveryExit (Coop.isAwaitOf "loop.create_datagram_endpoint") (Coop.isCallOf "self._transport.close")
      Skeletons.sk_async_locator__GeckoAsyncLocator_discover = true := by decide +kernel

/-- **the only awaits inside `finally:` blocks, in all coroutines of the source tree, are the two FINISHED announcements** (C08's
"closed even when the phase raises"); every other clean-up block runs to its end without a suspension point, so neither a pending
nor a second cancellation can cut it short -/
theorem awaits_inside_finally_are_the_finished_announcements :
    (Skeletons.all.flatMap fun p => Coop.finallyAwaits p.2) =
      ["self._handle_event(GeckoSpaEvent.LOCATING_FINISHED)", "self._handle_event(GeckoSpaEvent.CONNECTION_FINISHED)"] ∧
    (Skeletons.all.filter fun p => !(Coop.actions .finEnter p.2).isEmpty).map (·.1) =
      ["async_locator.py:GeckoAsyncLocator.discover", "async_spa_manager.py:GeckoAsyncSpaMan.async_locate_spas",
       "async_spa_manager.py:GeckoAsyncSpaMan.async_connect_to_spa"] := by decide +kernel

/-! ### cancellation ends a task -/

/-- **no coroutine swallows its cancellation** (all regenerated coroutine skeletons of the source tree, with Python's rule for which
handler gets a `CancelledError`: the first in source order that is bare, `BaseException` or `CancelledError` - `except Exception`
does not): wherever a task of an abandoned connection is suspended when the reset or the context exit cancels it - in a loop's
sleep, inside a request, inside a callback it is delivering - the coroutine ends by the exception; none logs it and carries on -/
theorem cancellation_ends_every_coroutine : ∀ p ∈ Skeletons.all, Coop.neverSwallowsCancel p.2 = true := by decide +kernel

/-- the same semantically: every cancellation of every coroutine, at whichever await and after whatever it did before, propagates -/
theorem cancellation_propagates (p : String × Coop.Sk) (hp : p ∈ Skeletons.all) {o : Coop.Out} (h : Coop.Cancelled p.2 o) : o = .exc :=
  Coop.cancel_propagates (cancellation_ends_every_coroutine p hp) h

/-- non-vacuity: a consumer loop that wraps its callbacks in a bare `except:` which only logs swallows a cancellation that lands
inside a callback (the loop goes on: outcome `fall`), and the analysis sees it; with `except Exception:` it does not -/
example : Coop.Cancelled (.loop (.tryExc (.ev (.aw "self.async_handled")) (.seq (.ev (.act ⟨.exc, ""⟩)) (.ev (.act ⟨.call, "log"⟩))))) .fall :=
  Coop.Thrown.loopNow (o := .fall) (Coop.Thrown.tryCaught (hb := .ev (.act ⟨.call, "log"⟩)) (t := [.act ⟨.call, "log"⟩]) (Coop.Thrown.at _ rfl) (by decide) (Coop.Run.ev _))
example : Coop.neverSwallowsCancel (.loop (.tryExc (.ev (.aw "self.async_handled")) (.seq (.ev (.act ⟨.exc, ""⟩)) (.ev (.act ⟨.call, "log"⟩))))) = false ∧
    Coop.neverSwallowsCancel (.loop (.tryExc (.ev (.aw "self.async_handled")) (.seq (.ev (.act ⟨.exc, "Exception"⟩)) (.ev (.act ⟨.call, "log"⟩))))) = true := by
  decide +kernel

end GeckoModel.C10
