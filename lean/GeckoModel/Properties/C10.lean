/-
C10 — Reset or exit at any point leaks no endpoint/task and has no late effects.

The quantifier (every await point reachable during discovery, each handshake step, steady state) is a finite table that is
regenerated from the source on every run (`Generated.crashPoints`, `Generated.teardownFacts`), so kernel evaluation over
the whole table is the proof.  The FULL statement is false on the current tree (what remains of finding D6: endpoints are not closed at context exit, nor
when a reset lands inside the endpoint creation of `_connect`), so:
  * what does hold is proved for every point (`tasks_never_leak`, `no_observer_left`, `reset_outside_connect_is_clean`);
  * the leaks are pinned down EXACTLY (`endpoint_leaks_exact`, `tasks_never_leak`), so that any other leak, or
    a repaired one, changes a theorem;
  * the full statement is kept visible as `NoLeakAtAnyPoint`, with the witnesses of its negation.
-/
import GeckoModel.Model.Teardown

namespace GeckoModel.C10
open GeckoModel GeckoModel.Generated

/-- FULL statement (not provable today): at every suspension point, after a reset or an exit nothing is left behind -/
def NoLeakAtAnyPoint (f : TeardownFacts) (pts : List CrashPoint) : Prop :=
  ∀ p ∈ pts, (afterReset f p).clean = true ∧ (afterReset f p).pumpAlive = true ∧ (afterExit f p).clean = true

instance (f : TeardownFacts) (pts : List CrashPoint) : Decidable (NoLeakAtAnyPoint f pts) := by
  unfold NoLeakAtAnyPoint; exact inferInstance

/-- the full statement fails on the current tree … -/
theorem full_statement_fails_today : ¬ NoLeakAtAnyPoint teardownFacts crashPoints := by decide

def repairedFacts : TeardownFacts :=
  { teardownFacts with disconnectClosesTransport := true, discoverClosesInFinally := true, exitResets := true, pumpSurvivesExceptions := true,
                       facadeUpdateAwaitsInFinally := false }

/-- … and it would hold for this very table of suspension points if the five teardown facts were as the property requires
(transport closed on disconnect, discovery closing in a `finally`, exit resetting, the pump surviving exceptions, no await in
the facade update task's `finally`, and the endpoint-creation window handled) — i.e. the model is not what makes it fail -/
theorem full_statement_holds_when_repaired :
    NoLeakAtAnyPoint repairedFacts (crashPoints.filter (fun p => p.endpoint != .pending || p.proc != "_connect")) := by decide

/-- **every background task of the abandoned connection terminates**, except in two pinned-down situations: a reset that
lands inside the endpoint creation of `_connect` (the resumed `_connect` then spawns the SPA tasks for an abandoned spa:
late effects), and an exit in steady state, where the facade's update task may linger in its `finally: await config_sleep` -/
theorem tasks_never_leak : ∀ p ∈ crashPoints,
    ((afterReset teardownFacts p).tasksAlive = true ↔ (p.proc = "_connect" ∧ p.endpoint = .pending)) ∧
    (afterExit teardownFacts p).pumpAlive = false ∧
    ((afterExit teardownFacts p).tasksAlive = true ↔ p.proc = "pump-connected") := by decide

/-- **no client observer stays registered on abandoned objects** (no late effects through the facade or the spa) -/
theorem no_observer_left : ∀ p ∈ crashPoints,
    (afterReset teardownFacts p).observersLeft = false ∧ (afterExit teardownFacts p).observersLeft = false := by decide

/-- a reset that lands outside `_connect` and outside steady state (idle pump, running discovery) leaves nothing behind -/
theorem reset_outside_connect_is_clean : ∀ p ∈ crashPoints, p.proc = "discover" ∨ p.proc = "pump-idle" →
    (afterReset teardownFacts p).clean = true ∧ (afterReset teardownFacts p).pumpAlive = true := by decide

/-- **the endpoint leaks are exactly these** (what remains of finding D6 after the `fix:` commits that close the transport
in `disconnect()` and make `discover()` clean up in a `finally`): a reset that lands while `_connect` is still creating
its endpoint (the only `pending` point of `_connect`), and a context exit during the handshake or in steady state -/
theorem endpoint_leaks_exact :
    endpointLeaks teardownFacts crashPoints .reset = ["_connect"] ∧
    ((crashPoints.filter (fun p => (afterReset teardownFacts p).endpointOpen)).map (·.endpoint)) = [.pending] ∧
    endpointLeaks teardownFacts crashPoints .exit = ["_connect", "pump-connected"] := by decide

/-- **the manager keeps working after a reset at any point**: the sequence pump survives (full clause; it holds since the
`fix:` commit that makes `_sequence_pump` survive exceptions) -/
theorem pump_survives_every_reset : ∀ p ∈ crashPoints, (afterReset teardownFacts p).pumpAlive = true := by decide

/-- **bounded over cycles**: reset / reconnect cycles in steady state never accumulate endpoints (full statement; it
holds since the `fix:` commit that closes the transport in `disconnect()`) -/
theorem bounded_over_cycles (n : Nat) : openAfterCycles teardownFacts n = 1 := by
  simp [openAfterCycles, afterReset, teardownFacts]

/-- **a reset in an error state leaves nothing behind and runs to its end — whoever issues it and whatever the client's
handler does**: a user reset, or the manager's own reset from inside the spa's ping-loop task (the recovery path, where
`disconnect()` cancels the very task that runs it), with a client event handler that returns at once or really yields -/
theorem error_state_reset_is_clean : ∀ (o : Origin) (suspends : Bool),
    (runReset resetSteps spaDisconnectSteps facadeDisconnectSteps o suspends).ledger.clean = true ∧
    (runReset resetSteps spaDisconnectSteps facadeDisconnectSteps o suspends).completed = true := by
  intro o suspends; cases o <;> cases suspends <;> decide

/-- non-vacuity of the clause above: moving the cancellation of the SPA tasks in front of the handler await (a one-line
reordering of `disconnect()`) makes the self-issued reset abandon the endpoint when the client's handler yields -/
example : (runReset resetSteps [.other, .cancelSpa, .awaitHandler, .other, .dropProtocol, .closeTransport, .unwatch]
                     facadeDisconnectSteps .spaTask true).ledger.endpointOpen = true ∧
    (runReset resetSteps [.other, .cancelSpa, .awaitHandler, .other, .dropProtocol, .closeTransport, .unwatch]
                     facadeDisconnectSteps .spaTask true).completed = false := by decide

/-- **a context exit during discovery closes the discovery endpoint and cancels its helper tasks, whether or not the
client's exit handler suspends** (i.e. even when `gather()`'s second cancellation arrives while the `finally` block of
`discover()` is running): the generated `finally` block contains no await before its close -/
theorem discover_finally_survives_second_cancel : ∀ secondCancel : Bool,
    (runDiscoverFinally discoverFinallySteps secondCancel).closed = true ∧
    (runDiscoverFinally discoverFinallySteps secondCancel).locCancelled = true := by decide

/-- non-vacuity: one awaited sleep between the two statements (a one-line edit) loses the endpoint when the second
cancellation arrives, and only then -/
example : (runDiscoverFinally [.other, .cancelLoc, .awaitOther, .closeTransport, .other, .other] true).closed = false ∧
    (runDiscoverFinally [.other, .cancelLoc, .awaitOther, .closeTransport, .other, .other] false).closed = true := by decide

/-- non-vacuity: the table covers discovery, the handshake and steady state, and contains both endpoint-creation windows -/
example : (crashPoints.map (·.proc)).eraseDups = ["discover", "_connect", "pump-idle", "pump-connected"] ∧
    (crashPoints.filter (·.endpoint == .pending)).length = 2 ∧ crashPoints.length ≥ 20 := by decide

end GeckoModel.C10
