/-
C03 — Change notifications fire exactly once, iff the decoded value changed.

Model: `Model/Struct.lean` (replace_status_block_segment, status_block_changed, Observable) over the accessor model of
C02; the byte-range intersection filter is the generated `Generated.intersects`.
Quantifiers: every block, every (offset, segment) inside the block — including ones that straddle an item or touch only
one byte of a 2-byte item —, every item with sane geometry (all shipped items but the three of D9: C18), every observer
list, every history of watch / unwatch / patch operations.
-/
import GeckoModel.Model.Struct
import GeckoModel.Proofs.AccessorFrame
import GeckoModel.Properties.C18
import GeckoModel.Model.Coop
import GeckoModel.Generated.Skeletons
import GeckoModel.Model.ObserverDispatch

namespace GeckoModel.C03
open GeckoModel GeckoModel.Generated

/-- the range filter, spelled out: an item the filter skips has a byte range disjoint from the update's -/
theorem intersects_false (pos ilen off len : Nat) (hi : 0 < ilen) (hl : 0 < len)
    (h : intersects pos ilen off len () = false) : pos + ilen ≤ off ∨ off + len ≤ pos := by
  unfold intersects at h
  simp only [] at h
  split at h
  · omega
  · cases h

/-- **the filter loses nothing**: an item the filter skips decodes identically in the old and the new block -/
theorem skipped_item_unchanged (it : Item) (hg : it.Geom) (prev : Block) (off : Nat) (seg : List Byte)
    (ho : off ≤ prev.length) (hf : intersects it.pos it.len off seg.length () = false) :
    it.decode (replaceSeg prev off seg) = it.decode prev := by
  have hword : it.word (replaceSeg prev off seg) = it.word prev := by
    unfold Item.word
    by_cases hs : seg.length = 0
    · have : seg = [] := List.eq_nil_of_length_eq_zero hs
      subst this
      simp [replaceSeg]
    · apply readBE_replaceSeg_disjoint _ _ _ _ _ _ ho
      have := hg.len12
      exact intersects_false _ _ _ _ (by omega) (by omega) hf
  simp [Item.decode, Item.rawRead, hword]

/-- **exactly once, iff changed** (one item): after a patch inside the block, the item's observers are called —
each registered observer exactly once, in registration order, with the old and the new decoded value and the NEW block
readable — if and only if the decoded value differs between the old and the new block; otherwise nobody is called. -/
theorem item_notifies_iff_changed (it : Item) (hg : it.Geom) (prev : Block) (off : Nat) (seg : List Byte)
    (ho : off ≤ prev.length) (obs : List ObsId) :
    itemNotifs prev (replaceSeg prev off seg) off seg.length obs it =
      if it.decode prev = it.decode (replaceSeg prev off seg) then []
      else obs.map (fun o => ⟨it.key, o, it.decode prev, it.decode (replaceSeg prev off seg), replaceSeg prev off seg⟩) := by
  unfold itemNotifs
  cases hf : intersects it.pos it.len off seg.length ()
  · have := skipped_item_unchanged it hg prev off seg ho hf
    simp [this]
  · simp

/-- the whole structure: the calls made by one update are, item by item in dictionary order, exactly the above -/
theorem notifies_iff_changed (s : StructState) (hi : ∀ it ∈ s.items, it.Geom) (off : Nat) (seg : List Byte)
    (ho : off ≤ s.block.length) :
    (s.replaceAndNotify off seg).1.block = replaceSeg s.block off seg ∧
    (s.replaceAndNotify off seg).2 = s.items.flatMap (fun it =>
      if it.decode s.block = it.decode (replaceSeg s.block off seg) then []
      else (s.obsFor it.key).map (fun o =>
        ⟨it.key, o, it.decode s.block, it.decode (replaceSeg s.block off seg), replaceSeg s.block off seg⟩)) := by
  refine ⟨rfl, ?_⟩
  unfold StructState.replaceAndNotify
  simp only
  generalize s.items = items at hi
  induction items with
  | nil => rfl
  | cons it rest ih =>
    simp only [List.flatMap_cons]
    rw [item_notifies_iff_changed it (hi it (by simp)) s.block off seg ho, ih (fun x hx => hi x (by simp [hx]))]

/-- **silent when the value did not change**, even when other bits of the item's bytes did -/
theorem silent_when_value_unchanged (it : Item) (hg : it.Geom) (prev : Block) (off : Nat) (seg : List Byte)
    (ho : off ≤ prev.length) (obs : List ObsId) (h : it.decode prev = it.decode (replaceSeg prev off seg)) :
    itemNotifs prev (replaceSeg prev off seg) off seg.length obs it = [] := by
  rw [item_notifies_iff_changed it hg prev off seg ho]; simp [h]

/-- every call carries old ≠ new, the right values, and the observer already sees the new block -/
theorem every_call_justified (s : StructState) (hi : ∀ it ∈ s.items, it.Geom) (off : Nat) (seg : List Byte)
    (ho : off ≤ s.block.length) :
    ∀ n ∈ (s.replaceAndNotify off seg).2, n.old ≠ n.new ∧ n.blockSeen = (s.replaceAndNotify off seg).1.block ∧
      ∃ it ∈ s.items, n.key = it.key ∧ n.old = it.decode s.block ∧ n.new = it.decode (replaceSeg s.block off seg) ∧
        n.observer ∈ s.obsFor it.key := by
  intro n hn
  rw [(notifies_iff_changed s hi off seg ho).2] at hn
  simp only [List.mem_flatMap] at hn
  obtain ⟨it, hit, hn⟩ := hn
  split at hn
  · cases hn
  · rename_i hne
    simp only [List.mem_map] at hn
    obtain ⟨o, ho', rfl⟩ := hn
    exact ⟨hne, rfl, it, hit, rfl, rfl, rfl, ho'⟩

/-! ### observers: registered twice → called once; removed → never called -/

theorem obs_nodup_step (s : StructState) (h : s.obs.Nodup) (op : StructOp) : (s.step op).1.obs.Nodup := by
  cases op with
  | watch k o =>
    simp only [StructState.step, StructState.watch]
    split
    · exact h
    · rename_i hc
      exact List.nodup_append.2 ⟨h, by simp, by intro a ha b hb; simp at hb; subst hb; intro e; subst e; exact hc ha⟩
  | unwatch k o =>
    simp only [StructState.step]
    split
    · exact h.erase _
    · exact h
  | unwatchAll k => exact h.filter _
  | patch off seg => exact h

/-- over any history the observer list never holds an observer twice -/
theorem obs_nodup_run (ops : List StructOp) : ∀ (s : StructState), s.obs.Nodup → (s.run ops).1.obs.Nodup := by
  induction ops with
  | nil => intro s h; exact h
  | cons op ops ih => intro s h; exact ih _ (obs_nodup_step s h op)

/-- … hence each observer of an item is called at most once per update -/
theorem obsFor_nodup (s : StructState) (h : s.obs.Nodup) (key : String) : (s.obsFor key).Nodup := by
  unfold StructState.obsFor
  have hf : (s.obs.filter (·.1 == key)).Nodup := h.filter _
  unfold List.Nodup at hf ⊢
  rw [List.pairwise_map]
  refine hf.imp_of_mem ?_
  intro a b ha hb hab e
  simp only [List.mem_filter, beq_iff_eq] at ha hb
  exact hab (Prod.ext (ha.2.trans hb.2.symm) e)

/-- registering twice changes nothing -/
theorem watch_twice (s : StructState) (k : String) (o : ObsId) : ((s.watch k o).watch k o) = s.watch k o := by
  unfold StructState.watch
  by_cases h : (k, o) ∈ s.obs <;> simp [h]

/-- a registered observer is in the item's list; a removed one is not (given the list held it once) -/
theorem watch_mem (s : StructState) (k : String) (o : ObsId) : o ∈ (s.watch k o).obsFor k := by
  unfold StructState.watch StructState.obsFor
  by_cases h : (k, o) ∈ s.obs
  · simp only [h, if_true, List.mem_map, List.mem_filter]
    exact ⟨(k, o), ⟨h, by simp⟩, rfl⟩
  · simp only [h, if_false, List.mem_map, List.mem_filter]
    exact ⟨(k, o), ⟨by simp, by simp⟩, rfl⟩

theorem unwatch_not_mem (s s' : StructState) (h : s.obs.Nodup) (k : String) (o : ObsId) (hu : s.unwatch k o = some s') :
    o ∉ s'.obsFor k := by
  unfold StructState.unwatch at hu
  split at hu
  · cases hu
    unfold StructState.obsFor
    simp only [List.mem_map, List.mem_filter, beq_iff_eq, not_exists, not_and]
    intro ⟨k', o'⟩ ⟨hm, hk⟩ ho
    simp only at hk ho
    subst hk ho
    exact (List.Nodup.mem_erase_iff h).1 hm |>.1 rfl
  · cases hu

theorem unwatchAll_empty (s : StructState) (k : String) : (s.unwatchAll k).obsFor k = [] := by
  unfold StructState.unwatchAll StructState.obsFor
  simp [List.filter_filter]

/-- watching / unwatching one item never affects another item's observers -/
theorem watch_other (s : StructState) (k k' : String) (o : ObsId) (h : k' ≠ k) : (s.watch k o).obsFor k' = s.obsFor k' := by
  unfold StructState.watch StructState.obsFor
  by_cases hc : (k, o) ∈ s.obs <;> simp [hc, List.filter_append, h.symm]

/-- the invariants the step theorems need are preserved by every history whose patches stay inside the block -/
def PatchInRange (n : Nat) : StructOp → Prop
  | .patch off seg => off + seg.length ≤ n
  | _ => True

theorem block_length_run (ops : List StructOp) : ∀ (s : StructState) (n : Nat), s.block.length = n →
    (∀ op ∈ ops, PatchInRange n op) → (s.run ops).1.block.length = n ∧ (s.run ops).1.items = s.items := by
  induction ops with
  | nil => intro s n h _; exact ⟨h, rfl⟩
  | cons op ops ih =>
    intro s n h hr
    have h1 : (s.step op).1.block.length = n ∧ (s.step op).1.items = s.items := by
      cases op with
      | watch k o => simp only [StructState.step, StructState.watch]; split <;> exact ⟨h, rfl⟩
      | unwatch k o =>
        simp only [StructState.step]
        split <;> exact ⟨h, rfl⟩
      | unwatchAll k => exact ⟨h, rfl⟩
      | patch off seg =>
        have := hr (.patch off seg) (by simp)
        simp only [PatchInRange] at this
        exact ⟨by simp only [StructState.step, StructState.replaceAndNotify]; rw [replaceSeg_length _ _ _ (by omega)]; exact h, rfl⟩
    have := ih (s.step op).1 n h1.1 (fun o ho => hr o (by simp [ho]))
    simp only [StructState.run]
    exact ⟨this.1, this.2.trans h1.2⟩

/-- **history level**: over any history of watch / unwatch / in-range patches, every observer call ever made carries
old ≠ new and saw the block of its own update -/
theorem run_calls_justified (ops : List StructOp) : ∀ (s : StructState) (n : Nat), s.block.length = n →
    (∀ it ∈ s.items, it.Geom) → (∀ op ∈ ops, PatchInRange n op) → ∀ c ∈ (s.run ops).2, c.old ≠ c.new := by
  induction ops with
  | nil => intro s n _ _ _ c hc; simp [StructState.run] at hc
  | cons op ops ih =>
    intro s n h hi hr c hc
    simp only [StructState.run, List.mem_append] at hc
    have hstep := block_length_run [op] s n h (fun o ho => hr o (by simp at ho; simp [ho]))
    simp only [StructState.run] at hstep
    rcases hc with hc | hc
    · cases op with
      | patch off seg =>
        have := hr (.patch off seg) (by simp)
        simp only [PatchInRange] at this
        exact (every_call_justified s hi off seg (by omega) c hc).1
      | watch k o => simp [StructState.step] at hc
      | unwatch k o => simp [StructState.step] at hc
      | unwatchAll k => simp [StructState.step] at hc
    · exact ih (s.step op).1 n hstep.1 (by rw [hstep.2]; exact hi) (fun o ho => hr o (by simp [ho])) c hc

/-- all shipped items (outside finding D9) have the geometry the theorems assume -/
theorem shipped_items_geom : ∀ m ∈ Packs.allModules, ∀ it ∈ m.items, (m.file, it.tag) ∈ knownIllFormed ∨ it.Geom :=
  fun m hm it hit => ((C18.all_modules_ok m hm).1 it hit).imp id Item.WF.geom

/-- non-vacuity: a bit-field item; a patch that flips only a foreign bit of its byte is silent, one that flips its bit
notifies the single registered observer once even though it was registered twice -/
def exItem : Item := ⟨"B", "B", 10, .bool, 1, some 3, 1, [], false, none, some "ALL"⟩
def exState : StructState := (((⟨List.replicate 1024 0, [exItem], []⟩ : StructState).watch "B" 7).watch "B" 7)
example : (exState.replaceAndNotify 10 [0x01]).2.length = 0 := by decide +kernel
example : ((exState.replaceAndNotify 10 [0x08]).2.map (·.observer)) = [7] := by decide +kernel

/-- what a synchronous method / coroutine writes into its own object and which of its own methods or attributes it calls -/
private def stateOf (sk : Coop.Sk) : List String × List String :=
  (Coop.selfStateWritten sk, (Coop.actions .call sk).filter Coop.isSelfState)

/-- **notification keeps no memory** (state inventory over the regenerated skeletons): an accessor's `status_block_changed` and
its value decoders write NO attribute (old and new value are decoded from the two blocks every time - no cached value can go stale
when another item, e.g. the unit, changes), and both structures' `replace_status_block_segment` write only the block -/
theorem notification_state_inventory :
    stateOf Skeletons.sk_driver_accessor__GeckoStructAccessor_status_block_changed = ([], ["self._get_value", "self._on_change"]) ∧
    stateOf Skeletons.sk_driver_accessor__GeckoStructAccessor__get_value = ([], ["self._get_raw_value"]) ∧
    stateOf Skeletons.sk_driver_accessor__GeckoTempStructAccessor__get_value = ([], []) ∧
    stateOf Skeletons.sk_driver_spastruct__GeckoStructure_replace_status_block_segment = (["self._status_block"], ["self.accessors.values"]) ∧
    stateOf Skeletons.sk_driver_async_spastruct__GeckoAsyncStructure_replace_status_block_segment = (["self._status_block"], ["self.accessors.values"]) := by
  decide +kernel

/-- **the notification walk keeps no memory** (state inventory over the regenerated skeletons of `Observable`, the base of every item,
sensor, device and facade): `_on_change` assigns no attribute - there is no "busy" or "already told" mark that a failing observer
could leave set - and calls every observer that is still registered; `watch` / `unwatch` touch nothing but the observer list.  So
whatever happened during one notification (an observer raised, the walk was abandoned), the next change is delivered like the first -/
theorem notification_walk_keeps_no_state :
    Coop.selfStateWritten Skeletons.sk_driver_observable__Observable__on_change = [] ∧
    Coop.actions .brT Skeletons.sk_driver_observable__Observable__on_change = ["observer in self._observers"] ∧
    "observer" ∈ Coop.actions .call Skeletons.sk_driver_observable__Observable__on_change ∧
    (Coop.selfStateWritten Skeletons.sk_driver_observable__Observable_watch, Coop.actions .call Skeletons.sk_driver_observable__Observable_watch) =
      ([], ["self._observers.append"]) ∧
    (Coop.selfStateWritten Skeletons.sk_driver_observable__Observable_unwatch, Coop.actions .call Skeletons.sk_driver_observable__Observable_unwatch) =
      ([], ["self._observers.remove"]) := by decide +kernel

/-- non-vacuity: a re-entrancy mark would be seen -/
example : Coop.selfStateWritten (.seq (.ev (.act ⟨.set, "self._notifying"⟩)) (.ev (.act ⟨.call, "observer"⟩))) = ["self._notifying"] := by decide +kernel

/-! ### observers that change the registration list while they are being notified -/
namespace Reentrant
open GeckoModel.ObserverDispatch

/-- every observer the dispatch calls is registered at the moment it is called: **a removed observer is never called**, whoever
removed it (itself earlier, another observer during this very notification, `unwatch_all`) -/
theorem called_only_while_registered (react : ObsId → React) : ∀ (todo live : List ObsId) (o : ObsId),
    o ∈ (dispatch react todo live).1 → ∃ pre post, todo = pre ++ o :: post ∧ o ∈ (dispatch react pre live).2 := by
  intro todo
  induction todo with
  | nil => intro live o h; simp [dispatch] at h
  | cons x rest ih =>
    intro live o h
    by_cases hx : x ∈ live
    · simp only [dispatch, hx, if_true] at h
      rcases List.mem_cons.mp h with rfl | h'
      · exact ⟨[], rest, rfl, by simpa [dispatch] using hx⟩
      · obtain ⟨pre, post, hsplit, hmem⟩ := ih _ o h'
        refine ⟨x :: pre, post, by simp [hsplit], ?_⟩
        simpa [dispatch, hx] using hmem
    · simp only [dispatch, hx, if_false] at h
      obtain ⟨pre, post, hsplit, hmem⟩ := ih _ o h
      refine ⟨x :: pre, post, by simp [hsplit], ?_⟩
      simpa [dispatch, hx] using hmem

/-- nobody is called twice for one change (the registration list has no duplicates: `watch` refuses them) -/
theorem called_at_most_once (react : ObsId → React) : ∀ (todo live : List ObsId), todo.Nodup → (dispatch react todo live).1.Nodup := by
  intro todo
  induction todo with
  | nil => intro live _; simp [dispatch]
  | cons x rest ih =>
    intro live hnd
    have hx' : x ∉ rest := (List.nodup_cons.mp hnd).1
    have hrest := (List.nodup_cons.mp hnd).2
    have sub : ∀ (l : List ObsId) (y : ObsId), y ∈ (dispatch react rest l).1 → y ∈ rest := by
      intro l y hy
      obtain ⟨pre, post, hs, _⟩ := called_only_while_registered react rest l y hy
      rw [hs]; simp
    by_cases hx : x ∈ live
    · simp only [dispatch, hx, if_true]
      exact List.nodup_cons.mpr ⟨fun h => hx' (sub _ _ h), ih _ hrest⟩
    · simp only [dispatch, hx, if_false]
      exact ih _ hrest

/-- **an observer that stays registered throughout is called** (exactly once, with `called_at_most_once`): if nobody's reaction
removes `o`, then `o`, registered when the change arrives, is among the observers called -/
theorem unremoved_observer_is_called (react : ObsId → React) (o : ObsId)
    (hkeep : ∀ x, react x ≠ .unwatch o ∧ react x ≠ .unwatchAll) : ∀ (todo live : List ObsId),
    o ∈ todo → o ∈ live → o ∈ (dispatch react todo live).1 := by
  intro todo
  induction todo with
  | nil => intro live h; cases h
  | cons x rest ih =>
    intro live hto hlive
    have keep : ∀ y, o ∈ applyReact live (react y) := by
      intro y
      have := hkeep y
      cases hr : react y with
      | nothing => simpa [applyReact] using hlive
      | unwatch z =>
        have hz : z ≠ o := by intro h; rw [h] at hr; exact this.1 hr
        simp only [applyReact]
        exact (List.mem_erase_of_ne (Ne.symm hz)).mpr hlive
      | unwatchAll => exact absurd hr this.2
      | watch z => simp only [applyReact]; split <;> simp [hlive]
    by_cases hx : x ∈ live
    · simp only [dispatch, hx, if_true]
      rcases List.mem_cons.mp hto with rfl | h'
      · simp
      · exact List.mem_cons_of_mem _ (ih _ h' (keep x))
    · simp only [dispatch, hx, if_false]
      rcases List.mem_cons.mp hto with rfl | h'
      · exact absurd hlive hx
      · exact ih _ h' hlive

/-- non-vacuity: an observer that unwatches itself does not make the next one miss the change; an observer removed by an earlier
one is not called -/
example : notify (fun o => if o = 1 then .unwatch 1 else .nothing) [1, 2, 3] = ([1, 2, 3], [2, 3]) ∧
    notify (fun o => if o = 1 then .unwatch 3 else .nothing) [1, 2, 3] = ([1, 2], [1, 2]) ∧
    notify (fun o => if o = 2 then .unwatchAll else .nothing) [1, 2, 3] = ([1, 2], []) := by decide

end Reentrant

/-! ### the blocking client's session glue -/

/-- **every connection of the blocking client gets declaration objects of its own** (over the regenerated skeleton of
`GeckoSpa._on_config_received`): on every path that ends normally the pack, the config and the log declaration classes are each
INSTANTIATED (once each, in this order, over this connection's structure) before the full block is requested - none is looked up in
something that outlives the connection (rounds 14 and 15: declaration objects kept per process read another connection's block) -/
theorem blocking_declarations_are_made_for_each_connection :
    Coop.everyNormalEndDid (fun a => a.kind == .call && a.name == "GeckoPack") Skeletons.sk_spa__GeckoSpa__on_config_received = true ∧
    Coop.everyNormalEndDid (fun a => a.kind == .call && a.name == "GeckoConfigStruct") Skeletons.sk_spa__GeckoSpa__on_config_received = true ∧
    Coop.everyNormalEndDid (fun a => a.kind == .call && a.name == "GeckoLogStruct") Skeletons.sk_spa__GeckoSpa__on_config_received = true ∧
    Coop.everyNormalEndDid (fun a => a.kind == .call && a.name == "self.struct.retry_request") Skeletons.sk_spa__GeckoSpa__on_config_received = true ∧
    ((Coop.actions .call Skeletons.sk_spa__GeckoSpa__on_config_received).filter fun n => n == "GeckoPack" || n == "GeckoConfigStruct" || n == "GeckoLogStruct") =
      ["GeckoPack", "GeckoConfigStruct", "GeckoLogStruct"] := by decide +kernel

end GeckoModel.C03
