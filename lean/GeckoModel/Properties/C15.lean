/-
C15 — Discovery lists each spa once, honours the filter, and terminates on time.

Model: `Model/Discovery.lean` (hand model of `GeckoAsyncLocator.discover` / `_async_on_discovered`, the hello `consume`
loop and `GeckoHelloProtocolHandler.handle`), waits taken from `Generated/ConfigTables.lean`.

* The functional theorems (`listed_once`, `listed_eq_handled`, `listed_first_reply`, `listed_covers`, `filter_honoured`,
  `closed_on_return`, `closed_on_cancel`, `frozen_after_return`, `no_early_return`, `always_by_timeout_any_schedule`) hold for
  EVERY input sequence over `datagram | tick | consume suspend | resume | poll | cancel`, i.e. for arbitrary datagrams (any bytes), arbitrary relative
  timing and order of the three tasks, and an event handler that may suspend arbitrarily long.
* The timing theorems (`returns_on_found`, `returns_after_initial`, `always_by_timeout`) are about the lockstep tick model:
  both 0.1 s pollers wake at every tick, in either order (`Slot.mainFirst`), with any arrivals in between
  (real timer skew is outside).
* D2 (fixed in /repo by 8ce8f9d): `GeckoHelloProtocolHandler.handle` used to split the content on EVERY `|`, so a spa whose
  name contains `|` made it raise inside the consumer task, which died.  The model mirrors the repaired `content.split(b"|", 1)`
  and `listed_iff_replied` is proved at full strength: names are ARBITRARY byte strings (including `|`, non-ASCII, empty).
  The one remaining hypothesis is on identifiers (`GoodId`: no `|`, not starting with `IOS` / `AND`), which `SPA…` MAC-style
  identifiers satisfy; `id_hypothesis_needed` shows it cannot be dropped.
-/
import GeckoModel.Proofs.DiscoveryLemmas
import GeckoModel.Model.Coop
import GeckoModel.Generated.Skeletons

namespace GeckoModel.C15
open GeckoModel.Discovery

variable (c : DCfg) (f : Filter)

/-- the two waits exist in the generated table and are non-negative (any time unit) -/
theorem waits_defined : (discoveryCfg 10).isSome = true ∧ (discoveryCfg 1000).isSome = true := by decide +kernel

/-- the invariant holds after every input sequence -/
theorem inv (is : List Input) : DInv c f (discoverRun c f is) := inv_run c f is _ (inv_init c f)

/-! ### what is listed -/

/-- **listed_once**: no identifier is listed twice -/
theorem listed_once (is : List Input) : ((discoverRun c f is).spas.map (·.id)).Nodup := by
  have h := inv c f is
  rw [h.ids]; exact h.nodup

/-- **filter_honoured**: with `spa_identifier=i` only that identifier is ever listed -/
theorem filter_honoured (is : List Input) (i : Bytes) (hf : f.id = some i) :
    ∀ d ∈ (discoverRun c f is).spas, d.id = i := by
  intro d hd
  have := (inv c f is).filt d hd
  simp only [Filter.passes, hf, beq_iff_eq] at this
  exact this.symm

/-- the list is exactly: scan the successfully parsed replies in the order the consumer handled them, drop those the
filter rejects, keep the first per identifier -/
theorem listed_eq_handled (is : List Input) :
    (discoverRun c f is).spas =
      firstPerId ((discoverRun c f is).handled.filter (fun d => f.passes d.id)) := (inv c f is).listed

/-- … so every listed descriptor carries identifier, name and address of the FIRST handled reply with its identifier -/
theorem listed_first_reply (is : List Input) : ∀ d ∈ (discoverRun c f is).spas,
    ((discoverRun c f is).handled.filter (fun d => f.passes d.id)).find? (fun y => y.id == d.id) = some d := by
  intro d hd
  rw [listed_eq_handled] at hd
  rcases fpFold_mem _ [] d hd with h | ⟨_, h⟩
  · cases h
  · exact h

/-- … and every handled reply that passes the filter is represented -/
theorem listed_covers (is : List Input) : ∀ h ∈ (discoverRun c f is).handled, f.passes h.id = true →
    ∃ d ∈ (discoverRun c f is).spas, d.id = h.id := by
  intro h hh hp
  have := (fpFold_covers ((discoverRun c f is).handled.filter (fun d => f.passes d.id)) []).2 h
    (List.mem_filter.mpr ⟨hh, by simpa using hp⟩)
  rw [← show firstPerId _ = fpFold [] _ from rfl, ← listed_eq_handled] at this
  obtain ⟨d, hd, hid⟩ := List.mem_map.mp this
  exact ⟨d, hd, hid⟩

/-- datagrams are handled strictly in arrival order, none skipped, none twice; while the loop runs every datagram is queued -/
theorem fifo (is : List Input) :
    (discoverRun c f is).arrived = (discoverRun c f is).popped ++ (discoverRun c f is).queue ∧
    ((discoverRun c f is).main = .running → (discoverRun c f is).arrived = datagramsOf is) := by
  refine ⟨(inv c f is).fifo, fun h => ?_⟩
  have := arrived_run c f is DState.init (inv_init c f) h
  have h0 : DState.init.arrived = [] := rfl
  rw [h0, List.nil_append] at this
  exact this

/-- **listed_iff_replied** (full strength; names are arbitrary bytes): if every datagram is a spa reply
(`<HELLO>id|name</HELLO>` with a `GoodId`), the consumer never dies and the list is exactly the first reply (identifier,
name, address intact) of every spa the consumer has taken off the queue and the filter admits, in that order; nothing is
skipped or handled twice (`arrived = popped ++ queue`).  `specDecode` is the specification's reading of a reply: identifier
up to the first `|`, name = everything after it. -/
theorem listed_iff_replied (is : List Input) (hgood : ∀ d, Input.datagram d ∈ is → IsSpaReply d) :
    let s := discoverRun c f is
    s.spas = firstPerId ((s.popped.map specDecode).filter (fun d => f.passes d.id)) ∧
    s.arrived = s.popped ++ s.queue ∧ (∀ e, s.consumer ≠ .dead e) := by
  intro s
  have hi := inv c f is
  have hg := ginv_run c f is hgood DState.init (inv_init c f) ginv_init
  refine ⟨?_, hi.fifo, hg.alive⟩
  show (run c f DState.init is).spas =
    firstPerId (((run c f DState.init is).popped.map specDecode).filter (fun d => f.passes d.id))
  rw [← hg.decoded]; exact hi.listed

/-- the hypothesis on identifiers cannot be dropped: a responder whose identifier starts like a client identifier (`IOS…`)
is taken for a client hello, `handler.spa_identifier` asserts, and the consumer dies (such identifiers do not occur: real
ones are `SPA` + MAC) -/
theorem id_hypothesis_needed :
    (discoverRun ⟨40, 100⟩ ⟨none, false⟩
      [Input.datagram ⟨helloReply [73, 79, 83, 49] [77, 121], ⟨[49], 10022⟩⟩, Input.consume false]).consumer = .dead .assertErr := by
  decide +kernel

/-- a name with `|`, non-ASCII bytes, or nothing at all is listed intact -/
example : (discoverRun ⟨40, 100⟩ ⟨none, false⟩
    [Input.datagram ⟨helloReply [83, 80, 65] [97, 124, 98, 124, 233], ⟨[49], 10022⟩⟩, Input.consume false,
     Input.datagram ⟨helloReply [83, 80, 66] [], ⟨[50], 10022⟩⟩, Input.consume false]).spas =
    [⟨[83, 80, 65], [97, 124, 98, 124, 233], ⟨[49], 10022⟩⟩, ⟨[83, 80, 66], [], ⟨[50], 10022⟩⟩] := by decide +kernel

/-! ### termination -/

/-- **always_by_timeout** (lockstep): whatever arrives and in whatever order the pollers run, after `TIMEOUT` ticks the loop
has returned, and it returned at an age ≤ `TIMEOUT` -/
theorem always_by_timeout (slots : List Slot) (h : c.timeout < slots.length) :
    ∃ r, (discoverRun c f (lockstep slots)).main = .returned r ∧ r ≤ c.timeout := by
  apply returns_by c f (fun _ => True) c.timeout (fun _ _ _ => trivial) ?_ slots DState.init trivial
  · intro _; simp [DState.init]
  · intro r hr; simp [DState.init] at hr
  · intro a; simp [DState.init]
  · simpa [DState.init] using h
  · intro s _ hK _
    simp [exitNow, Nat.not_lt.mpr hK]

/-- … and under ANY schedule: an iteration of the main loop at an age ≥ `TIMEOUT` never continues -/
theorem always_by_timeout_any_schedule (is : List Input) (h : c.timeout ≤ (discoverRun c f is).t) :
    (step c f (discoverRun c f is) .poll).main ≠ .running := by
  cases hm : (discoverRun c f is).main with
  | returned r => rw [step_returned c f _ _ r hm]; simp
  | cancelled a => rw [step_final c f _ _ (by rw [hm]; simp), hm]; simp
  | running =>
    rw [poll_exits c f _ hm (by simp [exitNow, Nat.not_lt.mpr h])]; simp

/-- **returns_on_found** (lockstep): with an address or identifier given, once a spa is listed the loop returns at the
very next tick at the latest -/
theorem returns_on_found (pre post : List Slot) (hr : f.restricting = true)
    (hl : (discoverRun c f (lockstep pre)).spas ≠ []) (hp : post ≠ []) :
    ∃ r, (discoverRun c f (lockstep (pre ++ post))).main = .returned r ∧ r ≤ pre.length := by
  have hi := inv c f (lockstep pre)
  have ht : (discoverRun c f (lockstep pre)).t = pre.length := by
    have := lockstep_t c f pre DState.init
    have h0 : DState.init.t = 0 := rfl
    rw [h0, Nat.zero_add] at this
    exact this
  unfold discoverRun at *
  rw [lockstep_append, run_append]
  have hnc := run_noCancel c f _ (lockstep_noCancel pre) DState.init (by simp [DState.init])
  cases hm : (run c f DState.init (lockstep pre)).main with
  | cancelled a => exact absurd hm (hnc a)
  | returned r0 =>
    exact ⟨r0, run_returned c f _ _ _ hm, by rw [← ht]; exact (hi.ret r0 hm).1⟩
  | running =>
    have hns := run_noSuspend c f _ (lockstep_noSuspend pre) DState.init (by simp [DState.init])
    have hfound := hi.foundOf hm hns hr hl
    have := returns_by c f (fun s => s.found = true) (run c f DState.init (lockstep pre)).t
      (fun s i h => (step_spas_found c f s i).2 h)
      (fun s hs _ _ => by simp [exitNow, hs])
      post _ hfound (fun _ => Nat.le_refl _) (fun r h => by rw [hm] at h; cases h) hnc
      (by have : 0 < post.length := List.length_pos_iff.mpr hp
          omega)
    rw [ht] at this
    exact this

/-- **returns_after_initial** (lockstep): once a spa is listed, the loop returns at the first tick after the initial wait
(or at the next tick, if the initial wait is already over) -/
theorem returns_after_initial (pre post : List Slot)
    (hl : (discoverRun c f (lockstep pre)).spas ≠ [])
    (hlen : max pre.length (c.initial + 1) < pre.length + post.length) :
    ∃ r, (discoverRun c f (lockstep (pre ++ post))).main = .returned r ∧ r ≤ max pre.length (c.initial + 1) := by
  have hi := inv c f (lockstep pre)
  have ht : (discoverRun c f (lockstep pre)).t = pre.length := by
    have := lockstep_t c f pre DState.init
    have h0 : DState.init.t = 0 := rfl
    rw [h0, Nat.zero_add] at this
    exact this
  unfold discoverRun at *
  rw [lockstep_append, run_append]
  apply returns_by c f (fun s => s.spas ≠ []) (max pre.length (c.initial + 1))
    (fun s i h => (step_spas_found c f s i).1 h) ?_ post _ hl
  · intro _; rw [ht]; exact Nat.le_max_left _ _
  · intro r hr
    have := (hi.ret r hr).1
    rw [ht] at this
    exact Nat.le_trans this (Nat.le_max_left _ _)
  · exact run_noCancel c f _ (lockstep_noCancel pre) DState.init (by simp [DState.init])
  · rw [ht]; exact hlen
  · intro s hs hK _
    have h1 : c.initial < s.t := by
      have := Nat.le_max_right pre.length (c.initial + 1)
      omega
    have h2 : s.spas.isEmpty = false := by
      cases hsp : s.spas with
      | nil => exact absurd hsp hs
      | cons _ _ => rfl
    simp [exitNow, h1, h2]

/-- **no_early_return**: under any schedule the loop returns only for one of its three reasons; in particular without an
address / identifier it never returns before the initial wait is over (unless the timeout is shorter) -/
theorem no_early_return (is : List Input) (r : Nat) (h : (discoverRun c f is).main = .returned r) :
    c.timeout ≤ r ∨ (c.initial < r ∧ (discoverRun c f is).spas ≠ []) ∨
    (f.restricting = true ∧ (discoverRun c f is).spas ≠ [] ∧ (discoverRun c f is).found = true) := by
  have hi := inv c f is
  rcases (hi.ret r h).2.2.2 with h1 | h1 | h1
  · exact Or.inl h1
  · exact Or.inr (Or.inl h1)
  · exact Or.inr (Or.inr ⟨(hi.foundImp h1).1, (hi.foundImp h1).2, h1⟩)

/-- **closed_on_return** (both ways out, under any schedule): when `discover` has returned OR was cancelled (its clean-up is
a `finally` block since /repo 865a18b) the endpoint is closed, the broadcaster and the hello consumer are cancelled (or the
consumer had already died); while it runs the endpoint is open.  (A cancellation that lands before the endpoint exists —
inside `create_datagram_endpoint` — is outside the model: there is nothing to close yet.) -/
theorem closed_on_return (is : List Input) :
    ((discoverRun c f is).main ≠ .running →
      (discoverRun c f is).closed = true ∧ (discoverRun c f is).bcastAlive = false ∧
      ((discoverRun c f is).consumer = .cancelled ∨ ∃ e, (discoverRun c f is).consumer = .dead e)) ∧
    (∀ r, (discoverRun c f is).main = .returned r → r ≤ (discoverRun c f is).t) ∧
    ((discoverRun c f is).main = .running → (discoverRun c f is).closed = false) := by
  have hi := inv c f is
  refine ⟨fun h => ?_, fun r h => (hi.ret r h).1, fun h => ?_⟩
  · obtain ⟨h2, h3⟩ := hi.fin h
    exact ⟨hi.closedIff.mpr h, h3, h2⟩
  · cases hcl : (discoverRun c f is).closed with
    | false => rfl
    | true => exact absurd h (hi.closedIff.mp hcl)

/-- cancelling a running discovery runs the clean-up in that very step and keeps what was listed -/
theorem closed_on_cancel (is : List Input) (h : (discoverRun c f is).main = .running) :
    let s := discoverRun c f is
    (step c f s .cancel).main = .cancelled s.t ∧ (step c f s .cancel).closed = true ∧
    (step c f s .cancel).bcastAlive = false ∧ (step c f s .cancel).spas = s.spas ∧
    ((step c f s .cancel).consumer = .cancelled ∨ ∃ e, (step c f s .cancel).consumer = .dead e) := by
  intro s
  simp only [step]
  rcases onCancel_cases s with ⟨_, h2⟩ | ⟨h1, _⟩
  · rw [h2]; exact ⟨rfl, rfl, rfl, rfl, cleanup_consumer s _⟩
  · exact absurd h h1

/-- nothing happens after the return / the cancellation: late datagrams are dropped, the list and the status stay -/
theorem frozen_after_return (is more : List Input) (h : (discoverRun c f is).main ≠ .running) :
    (discoverRun c f (is ++ more)).spas = (discoverRun c f is).spas ∧
    (discoverRun c f (is ++ more)).main = (discoverRun c f is).main ∧ (discoverRun c f (is ++ more)).closed = true := by
  unfold discoverRun at *
  rw [run_append]
  obtain ⟨h1, h2, h3, _⟩ := frozen_run c f more _ (inv c f is) h
  exact ⟨h1, h2, h3⟩

/-! ### non-vacuity: concrete runs (ticks of 0.1 s: INITIAL = 40, TIMEOUT = 100) -/

def spaA : Datagram := ⟨helloReply [83, 80, 65, 49] [77, 121], ⟨[49, 48], 10022⟩⟩            -- SPA1 "My"   from "10"
def spaA' : Datagram := ⟨helloReply [83, 80, 65, 49] [79, 116, 104], ⟨[49, 49], 10022⟩⟩     -- SPA1 "Oth"  from "11" (same id, other address)
def spaB : Datagram := ⟨helloReply [83, 80, 65, 50] [77, 121], ⟨[49, 50], 10022⟩⟩            -- SPA2 "My"   (same name)
def quiet (n : Nat) : List Slot := List.replicate n ⟨[], true⟩

example : IsSpaReply spaA := ⟨[83, 80, 65, 49], [77, 121], ⟨by unfold NoBar; decide, by decide, by decide⟩, rfl⟩

/-- duplicates, the same id from two addresses, two spas with the same name; no filter: listed once each, first reply's
fields, return at the first tick after the initial wait -/
example : (discoverRun ⟨40, 100⟩ ⟨none, false⟩ (lockstep (⟨[spaA, spaA', spaB, spaA], false⟩ :: quiet 50))).spas =
    [⟨[83, 80, 65, 49], [77, 121], ⟨[49, 48], 10022⟩⟩, ⟨[83, 80, 65, 50], [77, 121], ⟨[49, 50], 10022⟩⟩] := by decide +kernel
example : (discoverRun ⟨40, 100⟩ ⟨none, false⟩ (lockstep (⟨[spaA, spaA', spaB, spaA], false⟩ :: quiet 50))).main = .returned 41 := by
  decide +kernel
/-- identifier filter: only SPA2, return at the tick after it was handled (third datagram: handled at tick 2 after the main loop's poll) -/
example : (discoverRun ⟨40, 100⟩ ⟨some [83, 80, 65, 50], false⟩ (lockstep (⟨[spaA, spaA', spaB], false⟩ :: quiet 50))).spas =
    [⟨[83, 80, 65, 50], [77, 121], ⟨[49, 50], 10022⟩⟩] := by decide +kernel
example : (discoverRun ⟨40, 100⟩ ⟨some [83, 80, 65, 50], false⟩ (lockstep (⟨[spaA, spaA', spaB], false⟩ :: quiet 50))).main = .returned 3 := by
  decide +kernel
/-- nobody answers: return exactly at the timeout -/
example : (discoverRun ⟨40, 100⟩ ⟨none, false⟩ (lockstep (quiet 120))).main = .returned 100 := by decide +kernel
/-- a discovery cancelled at tick 7 with one spa listed: closed, helpers gone, list kept -/
example : (discoverRun ⟨40, 100⟩ ⟨none, false⟩ (lockstep (⟨[spaA], false⟩ :: quiet 6) ++ [Input.cancel])).main = .cancelled 7 ∧
    (discoverRun ⟨40, 100⟩ ⟨none, false⟩ (lockstep (⟨[spaA], false⟩ :: quiet 6) ++ [Input.cancel])).closed = true ∧
    (discoverRun ⟨40, 100⟩ ⟨none, false⟩ (lockstep (⟨[spaA], false⟩ :: quiet 6) ++ [Input.cancel])).spas.length = 1 := by
  decide +kernel
/-- the hypotheses of the timing theorems are satisfiable -/
example : (discoverRun ⟨40, 100⟩ ⟨none, true⟩ (lockstep [⟨[spaA], false⟩])).spas ≠ [] := by decide +kernel
example : (⟨none, true⟩ : Filter).restricting = true := by decide

/-- what a synchronous method / coroutine writes into its own object and which of its own methods or attributes it calls -/
private def stateOf (sk : GeckoModel.Coop.Sk) : List String × List String :=
  (GeckoModel.Coop.selfStateWritten sk, (GeckoModel.Coop.actions .call sk).filter GeckoModel.Coop.isSelfState)

/-- **what discovery remembers** (state inventory over the regenerated skeletons): listing a spa appends to the two lists and may
SET the found flag; nothing else is written -/
theorem discovery_state_inventory :
    stateOf GeckoModel.Generated.Skeletons.sk_async_locator__GeckoAsyncLocator__async_on_discovered =
      (["self._has_found_spa"], ["self._on_change", "self._spa_identifiers.append", "self._spas.append"]) ∧
    stateOf GeckoModel.Generated.Skeletons.sk_locator__GeckoLocator__on_discovered =
      (["self._has_found_spa", "self._has_found_spa", "self._has_found_spa"], ["self.spa_identifiers.append", "self.spas.append", "self._on_found"]) := by
  decide +kernel

end GeckoModel.C15
