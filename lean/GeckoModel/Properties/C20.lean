/-
C20 — Threaded engine: FIFO paced sends, first-match dispatch, bounded handler life.

Model: `Model/Threaded.lean` — `engineIter`, one iteration of `GeckoUdpSocket._thread_func`, statement by statement; phase order,
throttle gap, popped end of the queue and timeout strictness come from `Generated/ThreadedFacts.lean` (re-extracted from the source
on every run).  TIME UNIT: 1 tick = 1 microsecond of `time.monotonic()`.
Quantifiers: every program `P` of handlers (any `can_handle`, any callbacks), every engine state (any registration order), every list
of steps = iterations with ANY environment (clock advances, at most one datagram, nested packets) interleaved with client calls.
All statements are proved by induction over the step list / the handler list / the datagram nesting.
-/
import GeckoModel.Proofs.ThreadedHandshake
import GeckoModel.Proofs.Coop
import GeckoModel.Generated.Skeletons
import GeckoModel.Proofs.Cancel

namespace GeckoModel.C20
open GeckoModel GeckoModel.Generated GeckoModel.Threaded

variable {σ : Type}

/-! ## the source still has the audited control flow -/

/-- the facts the hand model mirrors, as extracted from /repo on this run: five phases in this order, `pop(0)`, strict `>` in
has_timedout, `handler.loop` (per handler) and `_loop_func` inside a swallowing try in `_thread_func`, `queue_send` recording the
destination on the handler.  (A different source makes this theorem, and the proofs below, fail.) -/
theorem source_facts :
    threadPhaseCodes = [0, 1, 2, 3, 4] ∧ sendPopsFront = true ∧ timeoutStrict = true ∧ timeoutZeroNever = true ∧
    loopPhaseGuarded = true ∧ loopFuncGuarded = true ∧ queueSendRecordsDest = true := by
  decide

/-- the generated throttle gap is at least one period of the generated rate: `gap µs × rate ≥ 1 s` -/
theorem throttle_gap_is_a_period : 1000000 ≤ throttleMinGapUs * throttleRate := by decide

/-! ## fifo_sends -/

/-- **FIFO**: for every run, (queue at the start) ++ (queue_send calls, in call order, whoever made them) =
(datagrams taken from the queue, in order) ++ (queue at the end). -/
theorem fifo_sends (P : Prog σ) (e : Engine σ) (steps : List Step) :
    e.sendq ++ enqs (run P e steps).2 = pops (run P e steps).2 ++ (run P e steps).1.sendq :=
  (run_rel P steps e).fifo

/-- every popped entry is transmitted unless its send fails (no `send_bytes`, destination None) -/
theorem popped_is_transmitted (P : Prog σ) (e : Engine σ) (steps : List Step)
    (hnf : failedSends (run P e steps).2 = []) :
    pops (run P e steps).2 = (sents (run P e steps).2).map (fun x => (x.1, some x.2)) :=
  pops_eq_sents _ hnf

/-- the transmitted sequence IS the queue_send call sequence, once the queue has drained and no send failed -/
theorem fifo_transmitted (P : Prog σ) (e : Engine σ) (steps : List Step) (h0 : e.sendq = [])
    (hend : (run P e steps).1.sendq = []) (hnf : failedSends (run P e steps).2 = []) :
    (sents (run P e steps).2).map (fun x => (x.1, some x.2)) = enqs (run P e steps).2 := by
  have := fifo_sends P e steps
  rw [h0, hend, pops_eq_sents _ hnf] at this
  simpa using this.symm

/-! ## paced -/

/-- **pacing**: in every run from a state whose `_last_send_time` is not in the future (true of a new socket), each transmission is at
least `throttleMinGapUs` (20001 µs ≥ 1/50 s) after the previous one, the first one after the initial `_last_send_time`. -/
theorem paced (P : Prog σ) (e : Engine σ) (steps : List Step) (h : e.lastSend ≤ e.clock) :
    PacedFrom throttleMinGapUs e.lastSend (sentTimes (run P e steps).2) :=
  ((run_rel P steps e).paced h).1

theorem pacedFrom_consecutive (gap : Nat) : ∀ (l : List Nat) (t0 : Nat), PacedFrom gap t0 l →
    ∀ (i : Nat) (t1 t2 : Nat), l[i]? = some t1 → l[i + 1]? = some t2 → t1 + gap ≤ t2
  | [], _, _, _, _, _, h1, _ => by simp at h1
  | [_], _, _, i, _, _, _, h2 => by simp at h2
  | a :: b :: r, _, hp, 0, t1, t2, h1, h2 => by
    simp at h1 h2; subst h1; subst h2; exact hp.2.1
  | a :: b :: r, _, hp, i + 1, t1, t2, h1, h2 => by
    simp only [List.getElem?_cons_succ] at h1 h2
    exact pacedFrom_consecutive gap (b :: r) a hp.2 i t1 t2 h1 h2

/-- consecutive transmissions are at least one throttle period apart (index form, in seconds: `(t₂ - t₁) × 50 ≥ 10⁶ µs`) -/
theorem paced_consecutive (P : Prog σ) (e : Engine σ) (steps : List Step) (h : e.lastSend ≤ e.clock) (i t1 t2 : Nat)
    (h1 : (sentTimes (run P e steps).2)[i]? = some t1) (h2 : (sentTimes (run P e steps).2)[i + 1]? = some t2) :
    t1 + throttleMinGapUs ≤ t2 ∧ 1000000 ≤ (t2 - t1) * throttleRate := by
  have := pacedFrom_consecutive _ _ _ (paced P e steps h) i t1 t2 h1 h2
  refine ⟨this, ?_⟩
  have hg : 1000000 ≤ throttleMinGapUs * throttleRate := throttle_gap_is_a_period
  have : throttleMinGapUs ≤ t2 - t1 := by omega
  exact Nat.le_trans hg (Nat.mul_le_mul_right _ this)

/-! ## first_match -/

/-- **first match**: the datagram is handled by the handler at the minimal registration position whose `can_handle` is true
(`invoke` = that handler's `handle` then `handled`), whatever the later handlers accept -/
theorem first_match (P : Prog σ) (inner : Inner σ) (d : Dgram) (e : Engine σ) (pre post : List Nat) (h : Nat)
    (hsplit : e.handlers = pre ++ h :: post) (hpre : ∀ g ∈ pre, (P.spec g).canHandle d = false)
    (hh : (P.spec h).canHandle d = true) :
    dispatchWith P inner d e = invoke P inner h d e := by
  unfold dispatchWith
  have : e.handlers.find? (fun g => (P.spec g).canHandle d) = some h := by
    rw [hsplit, List.find?_append]
    have : pre.find? (fun g => (P.spec g).canHandle d) = none := by
      rw [List.find?_eq_none]; intro g hg; simp [hpre g hg]
    simp [this, hh]
  rw [this]

/-- index form: `handlers[i]` with `i` minimal such that `can_handle` -/
theorem first_match_index (P : Prog σ) (inner : Inner σ) (d : Dgram) (e : Engine σ) (i h : Nat)
    (hi : e.handlers[i]? = some h) (hh : (P.spec h).canHandle d = true)
    (hmin : ∀ j g, j < i → e.handlers[j]? = some g → (P.spec g).canHandle d = false) :
    dispatchWith P inner d e = invoke P inner h d e := by
  have hlt : i < e.handlers.length := by
    rcases Nat.lt_or_ge i e.handlers.length with h1 | h1
    · exact h1
    · rw [List.getElem?_eq_none h1] at hi; cases hi
  have hget : e.handlers[i] = h := by
    rw [List.getElem?_eq_getElem hlt] at hi; exact Option.some.inj hi
  apply first_match P inner d e (e.handlers.take i) (e.handlers.drop (i + 1)) h
  · rw [← hget]; simp
  · intro g hg
    obtain ⟨j, hj, hgj⟩ := List.mem_take_iff_getElem.1 hg
    have hj' : j < i := by omega
    exact hmin j g hj' (by rw [List.getElem?_eq_getElem (by omega)]; exact congrArg some hgj)
  · exact hh

/-- ... and by nobody if no registered handler accepts it: the engine is unchanged -/
theorem first_match_none (P : Prog σ) (inner : Inner σ) (d : Dgram) (e : Engine σ)
    (hnone : ∀ g ∈ e.handlers, (P.spec g).canHandle d = false) :
    dispatchWith P inner d e = (e, [.unhandled d]) := by
  unfold dispatchWith
  have : e.handlers.find? (fun g => (P.spec g).canHandle d) = none := by
    rw [List.find?_eq_none]; intro g hg; simp [hnone g hg]
  rw [this]

/-- `dispatch_recevied_data` on a datagram is `dispatchWith` at every nesting level (the packet handler's re-dispatch goes through the
same first-match search), so the three theorems above cover inner datagrams too -/
theorem dispatch_levels (P : Prog σ) (e : Engine σ) :
    (∀ v, dispatch P (.raw v) e = dispatchWith P none (.raw v) e) ∧
    (∀ i, dispatch P (.pkt i) e = dispatchWith P (some (dispatch P i)) (.pkt i) e) :=
  ⟨fun _ => rfl, fun _ => rfl⟩

/-- the first thing `invoke` does is call `handle` of that handler with that datagram -/
theorem invoke_calls_handle (P : Prog σ) (inner : Inner σ) (h : Nat) (d : Dgram) (e : Engine σ) :
    (invoke P inner h d e).2.head? = some (.handled h d) := by
  unfold invoke
  simp only
  split <;> rfl

/-! ## exception_isolated -/

/-- a `handle` that raises (before doing anything to the engine) changes NOTHING but what the callback itself did to the client
state: queue, handler list, every handler's timer (its own too: `handled()` is not reached), send clock, liveness -/
theorem exception_isolated (P : Prog σ) (inner : Inner σ) (h : Nat) (d : Dgram) (e : Engine σ)
    (hacts : ((P.spec h).handle e.client d).acts = []) (hraise : ((P.spec h).handle e.client d).raises = true) :
    invoke P inner h d e = ({ e with client := ((P.spec h).handle e.client d).client }, [.handled h d, .raised h]) := by
  unfold invoke
  simp [hacts, hraise, runActs]

/-- an `on_handled` that raises at once: the only engine change is the handler's own timeout reset done by `handled()` before -/
theorem exception_isolated_on_handled (P : Prog σ) (inner : Inner σ) (h : Nat) (d : Dgram) (e : Engine σ)
    (hacts : ((P.spec h).handle e.client d).acts = []) (hnr : ((P.spec h).handle e.client d).raises = false)
    (hacts2 : ∀ c, ((P.spec h).onHandled c d).acts = []) (hraise : ∀ c, ((P.spec h).onHandled c d).raises = true) :
    (invoke P inner h d e).1 =
      { e with client := ((P.spec h).onHandled ((P.spec h).handle e.client d).client d).client,
               hs := upd e.hs h { e.hs h with start := e.clock } } ∧
    (invoke P inner h d e).2 = [.handled h d, .raised h] := by
  unfold invoke
  simp [hacts, hnr, hacts2, hraise, runActs]

/-- whatever the callbacks do (raise anywhere, at any nesting depth), dispatching never stops the engine -/
theorem dispatch_never_stops_engine (P : Prog σ) (d : Dgram) (e : Engine σ) : (dispatch P d e).1.alive = e.alive :=
  dispatch_alive P d e

/-- **no handler exception ever stops the engine** (full statement): whatever `handle`, `on_handled`, `on_retry_failed` and
`_loop_func` do — raise anywhere, at any nesting depth — EVERY iteration leaves the engine running, for every program and every
environment: the next iteration runs.  (`handler.loop` and `_loop_func` are guarded in `_thread_func` since the fix of the
engine-stop defect; the model follows the extracted `loopPhaseGuarded` / `loopFuncGuarded`.) -/
theorem engine_survives (P : Prog σ) (e : Engine σ) (env : Env) : (engineIter P e env).1.alive = e.alive := by
  cases ha : e.alive with
  | false => unfold engineIter; simp [ha]
  | true =>
    rw [engineIter_unfold P e env ha]
    show (loopFuncPhase P (cleanup (afterLoop P e env).1)).1.alive = true
    rw [loopFuncPhase_alive]
    show (afterLoop P e env).1.alive = true
    rw [afterLoop_alive]; exact ha

theorem run_survives (P : Prog σ) : ∀ (steps : List Step) (e : Engine σ), (run P e steps).1.alive = e.alive
  | [], _ => rfl
  | s :: ss, e => by
    unfold run
    simp only
    rw [run_survives P ss]
    cases s with
    | iter env => exact engine_survives P e env
    | queueSend h d => rfl
    | register h => rfl
    | create h => rfl

/-- a raising `on_retry_failed` is swallowed too: the handler stays registered (it did not flag itself), the other handlers are
still looped in the same iteration, nothing else changes -/
theorem on_retry_failed_exception_isolated (P : Prog σ) (h : Nat) (e : Engine σ) (hf : (P.spec h).onFail = .raises)
    (ht : timedOut P h e = true) (hr : (e.hs h).retries = 0) :
    handlerLoop P h e = (e, [.timedOut h, .failed h], false) := by
  unfold handlerLoop
  simp [ht, hr, hf, loopPhaseGuarded_eq]

/-! ## answered_removed -/

/-- **answered**: if during the receive phase of an iteration the reply reaches handler `h` (`Answered`: flagged for removal,
timeout reset by `handled()`), and no callback re-queues / re-creates / re-registers `h` (`Quiet`), then this iteration makes NO
`queue_send` for `h` (no retransmission: the loop phase finds it fresh) and `h` is gone from the handler list at this
iteration's clean-up. -/
theorem answered_removed (P : Prog σ) (h : Nat) (hq : Quiet P h) (e : Engine σ) (env : Env) (ha : e.alive = true)
    (hans : Answered h (afterRecv P e env).1) :
    enqsOf h (engineIter P e env).2 = [] ∧ h ∉ (engineIter P e env).1.handlers := by
  obtain ⟨_, _, _, _, n0⟩ := afterSend_facts P h e env
  obtain ⟨qf, _⟩ := afterRecv_q P h hq e env
  obtain ⟨s2, n2⟩ := loopAll_fresh P h (afterRecv P e env).1.handlers (afterRecv P e env).1 hans.2
  have e0 : enqsOf h (afterSend P e env).2 = [] := by unfold enqsOf; rw [n0]; rfl
  have n2' : enqsOf h (afterLoop P e env).2 = [] := n2
  have hrem : ((afterLoop P e env).1.hs h).remove = true := by
    show ((loopAll P _ _).1.hs h).remove = true
    rw [s2]; exact hans.1
  rw [engineIter_unfold P e env ha]
  refine ⟨?_, ?_⟩
  · show enqsOf h (_ ++ (_ ++ (_ ++ _))) = []
    rw [enqsOf_append, enqsOf_append, enqsOf_append, e0, qf.noEnq, n2']
    unfold enqsOf; rw [(loopFuncPhase_facts P _).2.2.2.2]; rfl
  · show h ∉ (loopFuncPhase P (cleanup (afterLoop P e env).1)).1.handlers
    rw [(loopFuncPhase_facts P _).1]
    unfold cleanup
    simp only [List.mem_filter]
    intro x
    rw [hrem] at x
    simp at x

/-- the reply reaches `h` when `h` is the first handler accepting the datagram and its `handle` just marks it (the shape of every
reply handler of the library; `on_handled` may then do anything `Quiet`) -/
theorem answered_when_first_match (P : Prog σ) (h : Nat) (hq : Quiet P h) (d : Dgram) (e : Engine σ)
    (hfirst : e.handlers.find? (fun g => (P.spec g).canHandle d) = some h)
    (hacts : ((P.spec h).handle e.client d).acts = [.markRemove]) (hnr : ((P.spec h).handle e.client d).raises = false) :
    Answered h (dispatch P d e).1 := by
  cases d with
  | raw v => exact answered_at_level P h hq True none (fun f hf => by cases hf) _ e hfirst hacts hnr
  | pkt i =>
    exact answered_at_level P h hq (Unanswered P h i) (some (dispatch P i))
      (fun f hf e' => by cases hf; exact dispatch_q P h hq i e') _ e hfirst hacts hnr

/-- ... or when the datagram is a `<PACKT>` whose first acceptor unwraps it (GeckoPacketProtocolHandler) and `h` is the first
handler accepting the content: the way every reply reaches a request handler of the real client -/
theorem answered_inside_packet (P : Prog σ) (h g : Nat) (hq : Quiet P h) (i : Dgram) (e : Engine σ)
    (hfirst : e.handlers.find? (fun g => (P.spec g).canHandle (.pkt i)) = some g)
    (hacts : ((P.spec g).handle e.client (.pkt i)).acts = [.unwrap]) (hnr : ((P.spec g).handle e.client (.pkt i)).raises = false)
    (hfirst2 : e.handlers.find? (fun g => (P.spec g).canHandle i) = some h)
    (hacts2 : ∀ c, ((P.spec h).handle c i).acts = [.markRemove]) (hnr2 : ∀ c, ((P.spec h).handle c i).raises = false) :
    Answered h (dispatch P (.pkt i) e).1 :=
  answered_through_packet P h hq i e g hfirst hacts hnr
    (answered_when_first_match P h hq i _ hfirst2 (hacts2 _) (hnr2 _))

/-- once removed it stays removed and nothing is ever queued for it again, whatever the environment does and for any number of
further steps (the client not re-using the instance): "no further transmission" -/
theorem removed_stays_silent (P : Prog σ) (h : Nat) (hq : Quiet P h) (e : Engine σ) (steps : List Step)
    (hsteps : ∀ s ∈ steps, s.mentions h = false) (hgone : h ∉ e.handlers) :
    h ∉ (run P e steps).1.handlers ∧ enqsOf h (run P e steps).2 = [] :=
  run_gone P h hq steps e hsteps hgone

theorem mem_sents_pops : ∀ (o : List Out) (x : Nat × Nat), x ∈ sents o → (x.1, some x.2) ∈ pops o
  | [], _, h => by simp [sents] at h
  | a :: r, x, h => by
    cases a with
    | sent g d t =>
      simp only [sents, List.mem_cons] at h
      rcases h with rfl | h
      · simp [pops]
      · simp only [pops, List.mem_cons]; right; exact mem_sents_pops r x h
    | sendFailed g d => simp only [sents] at h; simp only [pops, List.mem_cons]; right; exact mem_sents_pops r x h
    | enq g d => simp only [sents] at h; simpa [pops] using mem_sents_pops r x h
    | handled g d => simp only [sents] at h; simpa [pops] using mem_sents_pops r x h
    | unhandled d => simp only [sents] at h; simpa [pops] using mem_sents_pops r x h
    | raised g => simp only [sents] at h; simpa [pops] using mem_sents_pops r x h
    | timedOut g => simp only [sents] at h; simpa [pops] using mem_sents_pops r x h
    | failed g => simp only [sents] at h; simpa [pops] using mem_sents_pops r x h
    | died => simp only [sents] at h; simpa [pops] using mem_sents_pops r x h

/-- **no further transmission once answered** — PARTIAL.  Full statement of the property: "once its reply is handled, nothing of
`h` is ever transmitted again" (no hypothesis on the queue).  Proved here: the same under one hypothesis the code does not enforce,
that no transmission of `h` is still PENDING in the send queue when the reply is handled (`hnoq`).  Then, from the answering iteration on,
for any environment and any number of further steps, nothing of `h` is ever transmitted and `h` stays unregistered.
(Without `hnoq` the statement is false for the model and for the code: a retransmission that `retry` queued just before the reply
arrived — and that the throttle or a backlog kept in the queue — is still transmitted after the handler is gone: the witness is the
`example` (3) below, confirmed on the real engine as the recorded finding `answered:retransmission-after-answer`.) -/
theorem answered_no_further_transmission_partial (P : Prog σ) (h : Nat) (hq : Quiet P h) (e : Engine σ) (env : Env) (ha : e.alive = true)
    (hans : Answered h (afterRecv P e env).1) (hnoq : ∀ x ∈ e.sendq, x.1 ≠ h)
    (steps : List Step) (hsteps : ∀ s ∈ steps, s.mentions h = false) :
    (∀ x ∈ sents (run P (engineIter P e env).1 steps).2, x.1 ≠ h) ∧ h ∉ (run P (engineIter P e env).1 steps).1.handlers := by
  obtain ⟨hen, hrem⟩ := answered_removed P h hq e env ha hans
  have hgone := hrem
  -- nothing of h in the queue after the answering iteration
  have hq1 : ∀ x ∈ (engineIter P e env).1.sendq, x.1 ≠ h := by
    intro x hx
    have hf := (engineIter_rel P e env).fifo
    have : x ∈ e.sendq ++ enqs (engineIter P e env).2 := by rw [hf]; simp [hx]
    rcases List.mem_append.1 this with h1 | h1
    · exact hnoq x h1
    · intro hxh
      have := mem_enqs_of h _ x h1 hxh
      rw [hen] at this; cases this
  obtain ⟨g1, g2⟩ := run_gone P h hq steps _ hsteps hgone
  refine ⟨fun x hx hxh => ?_, g1⟩
  have hp := mem_sents_pops _ x hx
  have hf := fifo_sends P (engineIter P e env).1 steps
  have : (x.1, some x.2) ∈ (engineIter P e env).1.sendq ++ enqs (run P (engineIter P e env).1 steps).2 := by rw [hf]; simp [hp]
  rcases List.mem_append.1 this with h1 | h1
  · exact hq1 _ h1 hxh
  · have := mem_enqs_of h _ _ h1 hxh
    rw [g2] at this; cases this

/-! ## retry_exact -/

/-- **retry**: a request handler `h` with timeout `T > 0`, `N` retries and the default `on_retry_failed`, queued for `dst` (so
`last_destination = dst`: `queue_send` records it; the initial transmission may still be pending in the queue, all queue entries
of `h` go to `dst`) with its timer started at `s0`, that nobody answers (`StepOK`: no datagram of the run, at
any nesting level, is accepted by `h`) and that no callback or client call touches (`Quiet`, `StepOK`), in an engine
whose iterations advance the clock by at most `Δ` each ("iterates at least once per `Δ`"; in the code
`Δ` = socket timeout 50 ms + processing):  for EVERY such run, with `k` = number of `queue_send` calls made for `h`,
  * `k ≤ N` and every one of them is `(h, dst)` — never more than `N` retransmissions, all to the original destination;
  * while `h` is registered: `k + retries left = N` and the clock is at most `s0 + (N+1)·(T+Δ)`;
  * once `h` is not registered: `k = N` exactly, and the clock is beyond `s0 + (N+1)·T` (it was not removed early).
Hence at any time later than `s0 + (N+1)(T+Δ)` the handler is gone after exactly `N` retransmissions (1 + N datagrams on the wire
with the initial one, by `fifo_sends`); `retry_last_timeout` says it goes in the very iteration that sees the last timeout. -/
theorem retry_exact (P : Prog σ) (h T N dst s0 Δ : Nat) (hq : Quiet P h)
    (hT : (P.spec h).timeout = T) (hTpos : 0 < T) (hf : (P.spec h).onFail = .remove)
    (e : Engine σ) (ha : e.alive = true) (hreg : h ∈ e.handlers)
    (hst : e.hs h = ⟨s0, N, false, some dst⟩) (hclk : e.clock ≤ s0 + T)
    (hqd : ∀ x ∈ e.sendq, x.1 = h → x.2 = some dst)
    (steps : List Step) (hok : ∀ s ∈ steps, StepOK P h Δ s) :
    (enqsOf h (run P e steps).2).length ≤ N ∧
    (∀ x ∈ enqsOf h (run P e steps).2, x = (h, some dst)) ∧
    (h ∈ (run P e steps).1.handlers →
      (enqsOf h (run P e steps).2).length + ((run P e steps).1.hs h).retries = N ∧
      (run P e steps).1.clock ≤ s0 + (N + 1) * (T + Δ)) ∧
    (h ∉ (run P e steps).1.handlers →
      (enqsOf h (run P e steps).2).length = N ∧ s0 + (N + 1) * T < (run P e steps).1.clock) := by
  have inv0 : RInv h T N dst s0 Δ e 0 := by
    refine ⟨ha, hqd, fun _ => ?_, fun x => absurd hreg x⟩
    rw [hst]
    exact ⟨rfl, rfl, rfl, hclk, Nat.le_refl _, Nat.le_refl _⟩
  obtain ⟨inv, hall⟩ := rinv_run P h T N dst s0 Δ hq hT hTpos hf steps e 0 inv0 hok
  simp only [Nat.zero_add] at inv
  refine ⟨?_, hall, fun hm => ?_, fun hm => inv.gone hm⟩
  · by_cases hm : h ∈ (run P e steps).1.handlers
    · have := (inv.live hm).2.2.1; omega
    · have := (inv.gone hm).1; omega
  · obtain ⟨_, _, l3, l4, l5, _⟩ := inv.live hm
    refine ⟨by omega, ?_⟩
    have e1 : (((run P e steps).1.hs h).retries + 1) * (T + Δ) = ((run P e steps).1.hs h).retries * (T + Δ) + (T + Δ) := Nat.succ_mul _ _
    rw [e1] at l5
    generalize ((run P e steps).1.hs h).retries * (T + Δ) = X at *
    omega

/-- **exactly 1 + N datagrams on the wire** — no "already transmitted" hypothesis: `h` is a FRESH request (constructed at `s0`,
`last_destination` None), registered, not yet queued; the client calls `queue_send(h, dst)` and then anything allowed by `StepOK`
happens (in particular its first timeout may precede its first transmission: short timeout, throttle, backlog).  Then every
`queue_send` for `h` (the client's and each `retry`'s) carries `dst`, and once `h` is removed and nothing of it is left in the
queue, the datagrams transmitted for `h` are exactly `1 + N`, all to `dst`, none failed. -/
theorem retry_exact_on_the_wire (P : Prog σ) (h T N dst s0 Δ : Nat) (hq : Quiet P h)
    (hT : (P.spec h).timeout = T) (hTpos : 0 < T) (hf : (P.spec h).onFail = .remove) (hsend : (P.spec h).sendable = true)
    (e : Engine σ) (ha : e.alive = true) (hreg : h ∈ e.handlers)
    (hst : e.hs h = ⟨s0, N, false, none⟩) (hclk : e.clock ≤ s0 + T) (hnoq : ∀ x ∈ e.sendq, x.1 ≠ h)
    (steps : List Step) (hok : ∀ s ∈ steps, StepOK P h Δ s)
    (hgone : h ∉ (run P e (.queueSend h (some dst) :: steps)).1.handlers)
    (hdrained : ∀ x ∈ (run P e (.queueSend h (some dst) :: steps)).1.sendq, x.1 ≠ h) :
    enqsOf h (run P e (.queueSend h (some dst) :: steps)).2 = List.replicate (1 + N) (h, some dst) ∧
    ((sents (run P e (.queueSend h (some dst) :: steps)).2).filter (fun x => x.1 == h)).map (fun x => (x.1, some x.2)) =
      List.replicate (1 + N) (h, some dst) ∧
    (∀ x ∈ failedSends (run P e (.queueSend h (some dst) :: steps)).2, x.1 ≠ h) := by
  -- the state after the client's queue_send: destination recorded, one entry for h in the queue
  have hrun : run P e (.queueSend h (some dst) :: steps) =
      ((run P (e.enq h (some dst)) steps).1, [.enq h (some dst)] ++ (run P (e.enq h (some dst)) steps).2) := rfl
  have hst1 : (e.enq h (some dst)).hs h = ⟨s0, N, false, some dst⟩ := by
    simp only [Engine.enq, upd_self, recordDest, queueSendRecordsDest_eq, hst]
    rfl
  have hq1 : ∀ x ∈ (e.enq h (some dst)).sendq, x.1 = h → x.2 = some dst := by
    intro x hx hxh
    simp only [Engine.enq, List.mem_append, List.mem_singleton] at hx
    rcases hx with hx | hx
    · exact absurd hxh (hnoq x hx)
    · rw [hx]
  obtain ⟨_, hall, _, hg⟩ := retry_exact P h T N dst s0 Δ hq hT hTpos hf (e.enq h (some dst)) ha hreg hst1 hclk hq1 steps hok
  rw [hrun] at hgone hdrained ⊢
  simp only at hgone hdrained
  have hlen := (hg hgone).1
  have henq : enqsOf h ([Out.enq h (some dst)] ++ (run P (e.enq h (some dst)) steps).2) = List.replicate (1 + N) (h, some dst) := by
    rw [enqsOf_append]
    have h1 : enqsOf h [Out.enq h (some dst)] = [(h, some dst)] := by simp [enqsOf, enqs]
    rw [h1, List.eq_replicate_iff]
    refine ⟨by simp [hlen]; omega, fun x hx => ?_⟩
    rcases List.mem_append.1 hx with hx | hx
    · simpa using hx
    · exact hall x hx
  -- fifo, restricted to h: what was queued for h = what was popped for h
  have hf2 := fifo_sends P e (.queueSend h (some dst) :: steps)
  rw [hrun] at hf2
  have hfil := congrArg (List.filter (fun x : Nat × Option Nat => x.1 == h)) hf2
  simp only [List.filter_append] at hfil
  have z1 : e.sendq.filter (fun x => x.1 == h) = [] := by
    rw [List.filter_eq_nil_iff]; intro x hx; simpa using hnoq x hx
  have z2 : (run P (e.enq h (some dst)) steps).1.sendq.filter (fun x => x.1 == h) = [] := by
    rw [List.filter_eq_nil_iff]; intro x hx; simpa using hdrained x hx
  have hpops : (pops ([Out.enq h (some dst)] ++ (run P (e.enq h (some dst)) steps).2)).filter (fun x => x.1 == h) =
      List.replicate (1 + N) (h, some dst) := by
    have : (enqs ([Out.enq h (some dst)] ++ (run P (e.enq h (some dst)) steps).2)).filter (fun x => x.1 == h) =
        enqsOf h ([Out.enq h (some dst)] ++ (run P (e.enq h (some dst)) steps).2) := rfl
    rw [z1, z2] at hfil
    simp only [List.nil_append, List.append_nil] at hfil
    rw [← hfil]
    exact henq
  -- none of h's sends failed: a failed pop of h would be (h, none) or h without send_bytes
  have hnf : ∀ x ∈ failedSends ([Out.enq h (some dst)] ++ (run P (e.enq h (some dst)) steps).2), x.1 ≠ h := by
    intro x hx hxh
    have hok' := run_fails P (.queueSend h (some dst) :: steps) e
    rw [hrun] at hok'
    have hp := failedSends_sub_pops _ x hx
    have hxf : x ∈ (pops ([Out.enq h (some dst)] ++ (run P (e.enq h (some dst)) steps).2)).filter (fun x => x.1 == h) :=
      List.mem_filter.2 ⟨hp, by simpa using hxh⟩
    rw [hpops] at hxf
    have hx2 : x = (h, some dst) := (List.mem_replicate.1 hxf).2
    rcases hok' x hx with h1 | h1
    · rw [hx2] at h1; simp only at h1; rw [hsend] at h1; cases h1
    · rw [hx2] at h1; cases h1
  refine ⟨henq, ?_, hnf⟩
  rw [← popsOf_eq_sentsOf h _ hnf]
  exact hpops

/-- **removed within one iteration of the (N+1)-th timeout**: in the iteration whose loop phase sees `h` timed out with no retry
left, `h` is flagged by the default on_retry_failed and dropped by the clean-up of that same iteration; with a retry left it is
re-queued once, to its recorded destination, its timeout restarting at the loop-phase clock `c`; not timed out (age ≤ T, the
comparison is strict), nothing happens. -/
theorem retry_last_timeout (P : Prog σ) (h : Nat) (hq : Quiet P h) (hf : (P.spec h).onFail = .remove)
    (e : Engine σ) (env : Env) (ha : e.alive = true) (hun : ∀ d, env.dgram = some d → Unanswered P h d)
    (hreg : h ∈ e.handlers) (hnq : ∀ x ∈ e.sendq, x.1 ≠ h) :
    let c := e.clock + env.dtPre + env.dtRecv
    let T := (P.spec h).timeout
    (0 < T ∧ T < c - (e.hs h).start ∧ (e.hs h).retries = 0 → h ∉ (engineIter P e env).1.handlers ∧ enqsOf h (engineIter P e env).2 = []) ∧
    (0 < T ∧ T < c - (e.hs h).start ∧ (e.hs h).retries ≠ 0 →
      enqsOf h (engineIter P e env).2 = [(h, (e.hs h).lastDest)] ∧
      (engineIter P e env).1.hs h = { e.hs h with retries := (e.hs h).retries - 1, start := c }) ∧
    (¬ (0 < T ∧ T < c - (e.hs h).start) → (engineIter P e env).1.hs h = e.hs h ∧ enqsOf h (engineIter P e env).2 = []) := by
  obtain ⟨s, hs, _, _, hst, henq, hmem, _⟩ := iter_summary P h hq hf e env ha hun
  have hs' : s = e.hs h := by
    rcases hs with hs | ⟨d, hd, _⟩
    · exact hs
    · exact absurd rfl (hnq _ hd)
  subst hs'
  simp only [hreg, if_true] at hst henq
  refine ⟨fun hx => ?_, fun hx => ?_, fun hx => ?_⟩
  · have hex : expired (P.spec h).timeout (e.clock + env.dtPre + env.dtRecv) (e.hs h) := ⟨hx.1, hx.2.1⟩
    have ht : tick (P.spec h).timeout (e.clock + env.dtPre + env.dtRecv) (e.hs h) = { e.hs h with remove := true } := by
      unfold tick; simp [hex, hx.2.2]
    rw [ht] at hst
    exact ⟨by rw [hmem, hst]; simp, by rw [henq]; unfold tickEnq; simp [hx.2.2]⟩
  · have hex : expired (P.spec h).timeout (e.clock + env.dtPre + env.dtRecv) (e.hs h) := ⟨hx.1, hx.2.1⟩
    exact ⟨by rw [henq]; unfold tickEnq; simp [hex, hx.2.2], by rw [hst]; unfold tick; simp [hex, hx.2.2]⟩
  · have hex : ¬ expired (P.spec h).timeout (e.clock + env.dtPre + env.dtRecv) (e.hs h) := hx
    exact ⟨by rw [hst]; unfold tick; simp [hex], by rw [henq]; unfold tickEnq; simp [hex]⟩

/-- a handler with timeout 0 never times out: the loop phase never touches it -/
theorem timeout_zero_never (P : Prog σ) (h : Nat) (e : Engine σ) (h0 : (P.spec h).timeout = 0) :
    handlerLoop P h e = (e, [], false) := by
  unfold handlerLoop timedOut
  simp [h0]

/-! ## handshake_completes -/

/-- **the handshake completes**: version → channel → config → status block.  Loss pattern: before each reply ANY events may
occur at the client (duplicates of earlier replies, stray segments, timeouts of the current request) as long as the current
request times out at most `budget` times (one attempt per step gets through); in the block stage any genuine segments of the
spa's chain, lost / duplicated / re-ordered, and timeouts, as long as the request handler survives them (`survives_within_budget`:
it does when timeouts + final segments ≤ budget), followed by one clean delivery of the chain.  Then the client is connected, its
block has the spa's bytes installed (C01's `sync_install_or_nothing`), each simple request was transmitted 1 + (its timeouts)
times and the block request at most 1 + budget times. -/
theorem handshake_completes (spa cli : Block) (start len budget : Nat) (hlen : 0 < len)
    (preV preC preF : List HEv) (preB : List Ev)
    (hV : HEv.svers ∉ preV) (hVt : preV.count .timeout ≤ budget)
    (hC : HEv.chcur ∉ preC) (hCt : preC.count .timeout ≤ budget)
    (hF : HEv.files ∉ preF) (hFt : preF.count .timeout ≤ budget)
    (hgen : ∀ s, Ev.seg s ∈ preB → s ∈ simChain spa start len)
    (hsurv : ((SyncAsm.start cli budget).run start preB).live = true ∨ ((SyncAsm.start cli budget).run start preB).installed = true) :
    let evs := preV ++ [.svers] ++ (preC ++ [.chcur] ++ (preF ++ [.files] ++ (preB ++ (simChain spa start len).map Ev.seg).map liftEv))
    let r := (HS.init cli budget).run cli budget start evs
    r.stage = .connected ∧ r.asm.cli = replaceSeg cli start (C01.spaRun spa start len) ∧
    r.sendsV = 1 + preV.count .timeout ∧ r.sendsC = 1 + preC.count .timeout ∧ r.sendsF = 1 + preF.count .timeout ∧
    r.asm.sends ≤ 1 + budget := by
  intro evs r
  have e1 := pass_version cli budget start preV (HS.init cli budget) rfl hV hVt
  have e2 := pass_channel cli budget start preC
    { stage := .channel, retries := budget, sendsV := (HS.init cli budget).sendsV + preV.count .timeout, sendsC := 1,
      sendsF := (HS.init cli budget).sendsF, asm := (HS.init cli budget).asm } rfl hC hCt
  have e3 := pass_config cli budget start preF
    { stage := .config, retries := budget, sendsV := (HS.init cli budget).sendsV + preV.count .timeout, sendsC := 1 + preC.count .timeout,
      sendsF := 1, asm := (HS.init cli budget).asm } rfl hF hFt
  have hr : r = HS.run { stage := .block, retries := budget - preF.count .timeout, sendsV := (HS.init cli budget).sendsV + preV.count .timeout,
                         sendsC := 1 + preC.count .timeout, sendsF := 1 + preF.count .timeout, asm := SyncAsm.start cli budget }
      cli budget start ((preB ++ (simChain spa start len).map Ev.seg).map liftEv) := by
    show (HS.init cli budget).run cli budget start evs = _
    simp only [evs]
    rw [HS.run_append, e1, HS.run_append, e2, HS.run_append, e3]
  obtain ⟨a1, a2, a3, a4, a5⟩ := stage_block cli budget start (preB ++ (simChain spa start len).map Ev.seg)
    { stage := .block, retries := budget - preF.count .timeout, sendsV := (HS.init cli budget).sendsV + preV.count .timeout,
      sendsC := 1 + preC.count .timeout, sendsF := 1 + preF.count .timeout, asm := SyncAsm.start cli budget }
    (by simp [stageOf, SyncAsm.start]) (by intro x; simp [SyncAsm.start] at x) (Or.inl rfl)
  obtain ⟨bi, bc, bs⟩ := block_completes spa cli start len budget hlen preB hgen hsurv
  rw [hr]
  refine ⟨?_, ?_, ?_, ?_, ?_, ?_⟩
  · rw [a2]; unfold stageOf; simp only; rw [bi]; rfl
  · rw [a1]; exact bc
  · rw [a3]; simp [HS.init]
  · rw [a4]
  · rw [a5]
  · rw [a1]; exact bs

/-- with the full request of the real client (start 0, the whole block): the client's block IS the simulator's block -/
theorem handshake_block_identical (spa cli : Block) (n budget : Nat) (hn : 0 < n) (hs : spa.length = n) (hc : cli.length = n)
    (preV preC preF : List HEv) (preB : List Ev)
    (hV : HEv.svers ∉ preV) (hVt : preV.count .timeout ≤ budget)
    (hC : HEv.chcur ∉ preC) (hCt : preC.count .timeout ≤ budget)
    (hF : HEv.files ∉ preF) (hFt : preF.count .timeout ≤ budget)
    (hgen : ∀ s, Ev.seg s ∈ preB → s ∈ simChain spa 0 n)
    (hsurv : ((SyncAsm.start cli budget).run 0 preB).live = true ∨ ((SyncAsm.start cli budget).run 0 preB).installed = true) :
    let r := (HS.init cli budget).run cli budget 0
      (preV ++ [.svers] ++ (preC ++ [.chcur] ++ (preF ++ [.files] ++ (preB ++ (simChain spa 0 n).map Ev.seg).map liftEv)))
    r.stage = .connected ∧ r.asm.cli = spa := by
  intro r
  obtain ⟨h1, h2, _⟩ := handshake_completes spa cli 0 n budget hn preV preC preF preB hV hVt hC hCt hF hFt hgen hsurv
  refine ⟨h1, ?_⟩
  show r.asm.cli = spa
  rw [h2]
  obtain ⟨b1, b2, _⟩ := C01.installed_bytes spa cli n 0 n hs hc (by omega)
  apply List.ext_getElem?
  intro i
  by_cases hi : i < n
  · exact b2 i (Nat.zero_le _) (by omega)
  · rw [List.getElem?_eq_none (by rw [b1]; omega), List.getElem?_eq_none (by rw [hs]; omega)]

/-- a sufficient, checkable form of "within the retry budget" for the block stage -/
theorem block_survives (cli : Block) (start budget : Nat) (preB : List Ev) (hcost : evsCost preB ≤ budget) :
    ((SyncAsm.start cli budget).run start preB).live = true ∨ ((SyncAsm.start cli budget).run start preB).installed = true :=
  survives_within_budget start preB (SyncAsm.start cli budget) (Or.inl rfl) (fun _ => hcost)

/-! ## non-vacuity: a concrete program on which every hypothesis above is met -/

/-- handlers: 0 = packet handler (accepts any `<PACKT>`, unwraps), 1 = a request (accepts its own verb 1 and the reply verb 2; the
reply marks it and its on_handled creates, registers and queues the next request 3), 2 = an overlapping acceptor of verb 2
registered later, 3 = the next request, 4 = a handler whose `handle` raises, 5 = a handler whose `on_handled` raises -/
def exSpec (h : Nat) : Spec Nat :=
  match h with
  | 0 => { canHandle := fun d => match d with | .pkt _ => true | .raw _ => false
           timeout := 0, retries := 0, onFail := .none, sendable := false
           handle := fun c _ => ⟨c, [.unwrap], false⟩, onHandled := fun c _ => ⟨c, [], false⟩ }
  | 1 => { canHandle := fun d => d == .raw 1 || d == .raw 2
           timeout := 100000, retries := 2, onFail := .remove, sendable := true
           handle := fun c d => ⟨c + 1, if d == .raw 2 then [.markRemove] else [], false⟩
           onHandled := fun c d => ⟨c, if d == .raw 2 then [.create 3, .add 3, .send 3 (some 7)] else [], false⟩ }
  | 2 => { canHandle := fun d => d == .raw 2 || d == .raw 3
           timeout := 0, retries := 0, onFail := .none, sendable := true
           handle := fun c _ => ⟨c + 10, [], false⟩, onHandled := fun c _ => ⟨c, [], false⟩ }
  | 3 => { canHandle := fun d => d == .raw 3
           timeout := 100000, retries := 1, onFail := .remove, sendable := true
           handle := fun c _ => ⟨c, [.markRemove], false⟩, onHandled := fun c _ => ⟨c, [], false⟩ }
  | 4 => { canHandle := fun d => d == .raw 4
           timeout := 15000, retries := 2, onFail := .remove, sendable := true
           handle := fun c _ => ⟨c + 100, [], true⟩, onHandled := fun c _ => ⟨c, [], false⟩ }
  | 5 => { canHandle := fun d => d == .raw 5
           timeout := 0, retries := 0, onFail := .none, sendable := true
           handle := fun c _ => ⟨c, [], false⟩, onHandled := fun c _ => ⟨c + 1000, [], true⟩ }
  | _ => { canHandle := fun _ => false, timeout := 0, retries := 0, onFail := .none, sendable := true
           handle := fun c _ => ⟨c, [], false⟩, onHandled := fun c _ => ⟨c, [], false⟩ }

def exP : Prog Nat := { spec := exSpec, loopFunc := fun c => (c, false) }

/-- a new socket at clock 0 with handlers 0, 1, 2, 4 registered in this order, every instance constructed at clock 0 -/
def exE : Engine Nat :=
  { (Engine.new (fun h => fresh exP h 0) 0 0) with handlers := [0, 1, 2, 4] }

/-- an iteration that receives nothing, `dt` µs after the previous one -/
def idle (dt : Nat) : Step := .iter ⟨dt, 0, none⟩

/-- fifo + pacing on a concrete run: three queue_send calls in one burst leave in call order, 20001 µs apart (the second
iteration comes 20000 µs after the first transmission: throttled) -/
example :
    sents (run exP exE [.queueSend 1 (some 7), .queueSend 2 (some 8), .queueSend 1 (some 9),
      idle 20001, idle 20000, idle 1, idle 20001]).2 = [(1, 7), (2, 8), (1, 9)] ∧
    sentTimes (run exP exE [.queueSend 1 (some 7), .queueSend 2 (some 8), .queueSend 1 (some 9),
      idle 20001, idle 20000, idle 1, idle 20001]).2 = [20001, 40002, 60003] := by decide

example : exE.lastSend ≤ exE.clock := by decide

/-- first match: verb 2 is accepted by handlers 1 and 2; handler 1 (registered first, not at the head) gets it -/
example : dispatchWith exP none (.raw 2) exE = invoke exP none 1 (.raw 2) exE :=
  first_match exP none (.raw 2) exE [0] [2, 4] 1 rfl (by decide) (by decide)

example : (dispatch exP (.raw 2) exE).2 = [.handled 1 (.raw 2), .enq 3 (some 7)] := by decide

/-- nested: the packet goes to handler 0, its content to handler 1 -/
example : (dispatch exP (.pkt (.raw 2)) exE).2 = [.handled 0 (.pkt (.raw 2)), .handled 1 (.raw 2), .enq 3 (some 7)] := by decide

example : dispatchWith exP none (.raw 9) exE = (exE, [.unhandled (.raw 9)]) :=
  first_match_none exP none (.raw 9) exE (by decide)

/-- exception isolation: handler 4 raises; only the client state it touched differs -/
example : invoke exP none 4 (.raw 4) exE = ({ exE with client := 100 }, [.handled 4 (.raw 4), .raised 4]) :=
  exception_isolated exP none 4 (.raw 4) exE rfl rfl

/-- an `on_handled` that raises: only the handler's own timeout reset (by `handled()`, before the callback) and the client state -/
example : (invoke exP none 5 (.raw 5) { exE with clock := 77 }).1 =
      { exE with clock := 77, client := 1000, hs := upd exE.hs 5 { exE.hs 5 with start := 77 } } ∧
    (invoke exP none 5 (.raw 5) { exE with clock := 77 }).2 = [.handled 5 (.raw 5), .raised 5] :=
  exception_isolated_on_handled exP none 5 (.raw 5) _ rfl rfl (fun _ => rfl) (fun _ => rfl)

example : dispatchWith exP none (.raw 2) exE = invoke exP none 1 (.raw 2) exE :=
  first_match_index exP none (.raw 2) exE 1 1 rfl (by decide) (by
    intro j g hj hg
    have : j = 0 := by omega
    subst this
    have : g = 0 := by simpa [exE] using hg.symm
    subst this; decide)

example : (sents (run exP { exE with handlers := [0, 1, 2] } [.queueSend 1 (some 7), .queueSend 2 (some 8), idle 20001, idle 20001]).2).map
      (fun x => (x.1, some x.2)) =
    enqs (run exP { exE with handlers := [0, 1, 2] } [.queueSend 1 (some 7), .queueSend 2 (some 8), idle 20001, idle 20001]).2 :=
  fifo_transmitted exP _ _ rfl (by decide) (by decide)

example : handlerLoop exP 0 { exE with clock := 10 ^ 12 } = ({ exE with clock := 10 ^ 12 }, [], false) :=
  timeout_zero_never exP 0 _ rfl

theorem exP_quiet1 : Quiet exP 1 := by
  intro g c d
  unfold exP exSpec
  match g with
  | 0 => simp [Act.touches]
  | 1 =>
    simp only
    by_cases hd : (d == Dgram.raw 2) = true <;> simp [hd, Act.touches]
  | 2 => simp
  | 3 => simp [Act.touches]
  | 4 => simp
  | 5 => simp
  | _ + 6 => simp

/-- answered: the reply (verb 2, inside a packet) reaches request 1 → gone at this clean-up, nothing queued for it, the next
request 3 registered and queued -/
example : Answered 1 (afterRecv exP exE ⟨0, 1000, some (.pkt (.raw 2))⟩).1 := by unfold Answered; decide

example : (engineIter exP exE ⟨0, 1000, some (.pkt (.raw 2))⟩).1.handlers = [0, 2, 4, 3] ∧
    enqsOf 1 (engineIter exP exE ⟨0, 1000, some (.pkt (.raw 2))⟩).2 = [] := by decide

example : Answered 1 (dispatch exP (.pkt (.raw 2)) exE).1 :=
  answered_inside_packet exP 1 0 exP_quiet1 (.raw 2) exE (by decide) rfl rfl (by decide) (fun _ => rfl) (fun _ => rfl)

example : Answered 1 (dispatch exP (.raw 2) exE).1 :=
  answered_when_first_match exP 1 exP_quiet1 (.raw 2) exE (by decide) rfl rfl

example : enqsOf 1 (engineIter exP exE ⟨0, 1000, some (.pkt (.raw 2))⟩).2 = [] :=
  (answered_removed exP 1 exP_quiet1 exE ⟨0, 1000, some (.pkt (.raw 2))⟩ rfl (by unfold Answered; decide)).1

/-- ... and from then on nothing of request 1 is transmitted, whatever arrives (here: two more datagrams it used to accept) -/
example : ∀ x ∈ sents (run exP (engineIter exP exE ⟨0, 1000, some (.pkt (.raw 2))⟩).1
      [.iter ⟨30000, 0, some (.raw 2)⟩, .iter ⟨30000, 0, some (.pkt (.raw 1))⟩, idle 200000]).2, x.1 ≠ 1 :=
  (answered_no_further_transmission_partial exP 1 exP_quiet1 exE ⟨0, 1000, some (.pkt (.raw 2))⟩ rfl (by unfold Answered; decide)
    (by intro x hx; cases hx) _ (by decide)).1

example : 1 ∉ (run exP { exE with handlers := [0, 2] } [.iter ⟨30000, 0, some (.raw 2)⟩, idle 200000]).1.handlers :=
  (removed_stays_silent exP 1 exP_quiet1 { exE with handlers := [0, 2] } _ (by decide) (by decide)).1

/-- retry: request 1 (T = 100 ms, N = 2), transmitted once to 7, never answered, engine iterating every 50 ms (Δ = 50000) -/
def exR : Engine Nat := { exE with hs := upd exE.hs 1 ⟨0, 2, false, some 7⟩ }

def exSteps : List Step := List.replicate 9 (idle 50000) ++ [.iter ⟨0, 1, some (.raw 9)⟩]

theorem exSteps_ok : ∀ s ∈ exSteps, StepOK exP 1 50000 s := by
  intro s hs
  simp only [exSteps, List.mem_append, List.mem_replicate, List.mem_singleton] at hs
  rcases hs with ⟨_, rfl⟩ | rfl
  · exact ⟨by decide, fun d hd => by cases hd⟩
  · refine ⟨by decide, fun d hd => ?_⟩
    have : d = .raw 9 := by cases hd; rfl
    subst this
    show (exP.spec 1).canHandle (.raw 9) = false
    decide

example : (run exP exR exSteps).1.alive = true := by
  rw [run_survives exP]; rfl

/-- one iteration at the 300002-th microsecond: age 100001 > T with no retry left → gone in this very iteration -/
example : 1 ∉ (engineIter exP { exR with clock := 300001, hs := upd exR.hs 1 ⟨200001, 0, false, some 7⟩ } ⟨1, 0, none⟩).1.handlers :=
  ((retry_last_timeout exP 1 exP_quiet1 rfl { exR with clock := 300001, hs := upd exR.hs 1 ⟨200001, 0, false, some 7⟩ }
    ⟨1, 0, none⟩ rfl (fun d hd => by cases hd) (by decide) (by intro x hx; cases hx)).1 (by decide)).1

/-- all hypotheses of `retry_exact` hold here, and its conclusion is sharp: exactly 2 re-queues to 7, then removed (at 450 ms,
inside (300, 450] = (s0 + 3T, s0 + 3(T+Δ)]) -/
example :
    (enqsOf 1 (run exP exR exSteps).2).length = 2 ∧ 100000 * 3 < (run exP exR exSteps).1.clock :=
  (retry_exact exP 1 100000 2 7 0 50000 exP_quiet1 rfl (by decide) rfl exR rfl (by decide) rfl (by decide)
    (by intro x hx; cases hx) exSteps exSteps_ok).2.2.2 (by decide)

example : enqsOf 1 (run exP exR exSteps).2 = [(1, some 7), (1, some 7)] ∧ (run exP exR exSteps).1.handlers = [0, 2] ∧
    (run exP exR exSteps).1.clock = 450001 := by decide

theorem exP_quiet4 : Quiet exP 4 := by
  intro g c d
  unfold exP exSpec
  match g with
  | 0 => simp [Act.touches]
  | 1 =>
    simp only
    by_cases hd : (d == Dgram.raw 2) = true <;> simp [hd, Act.touches]
  | 2 => simp
  | 3 => simp [Act.touches]
  | 4 => simp
  | 5 => simp
  | _ + 6 => simp

/-- (1) [the former defect `retry-lost:timeout-before-first-transmission`, fixed] handler 4 (T = 15 ms, shorter than the throttle
period, N = 2) is queued behind another datagram and times out BEFORE its first transmission; `queue_send` recorded its
destination, so `retry` re-queues it with that destination: all 1 + 2 datagrams reach the wire, nothing fails -/
example :
    let r := run exP { exE with sendq := [(1, some 7)] } [.queueSend 4 (some 9), idle 20001, idle 20001, idle 20001, idle 20001]
    failedSends r.2 = [] ∧ sents r.2 = [(1, 7), (4, 9), (4, 9), (4, 9)] ∧ 4 ∉ r.1.handlers ∧
    r.2.take 5 = [.enq 4 (some 9), .sent 1 7 20001, .timedOut 4, .enq 4 (some 9), .sent 4 9 40002] := by decide

/-- ... which is an instance of `retry_exact_on_the_wire` (all its hypotheses hold here) -/
example :
    ((sents (run exP { exE with sendq := [(1, some 7)] } (.queueSend 4 (some 9) :: List.replicate 4 (idle 20001))).2).filter
      (fun x => x.1 == 4)).map (fun x => (x.1, some x.2)) = List.replicate (1 + 2) (4, some 9) :=
  (retry_exact_on_the_wire exP 4 15000 2 9 0 20001 exP_quiet4 rfl (by decide) rfl rfl { exE with sendq := [(1, some 7)] } rfl
    (by decide) rfl (by decide) (by decide) (List.replicate 4 (idle 20001))
    (by intro s hs; rw [List.mem_replicate] at hs; rw [hs.2]; exact ⟨by decide, fun d hd => by cases hd⟩)
    (by decide) (by decide)).2.1

/-- (3) [finding `answered:retransmission-after-answer`, the witness of `answered_no_further_transmission_partial`] a retransmission still pending in the queue when the reply arrives is transmitted after the handler is gone: request 1
(transmitted at 20001 µs) times out at 120002 µs and is re-queued; handler 2's datagram left 1 µs earlier, so the throttle holds the
retransmission back; in the next iteration the reply (verb 2) is handled and request 1 removed; 20001 µs later the stale
retransmission is transmitted all the same -/
example :
    let r := run exP { exE with handlers := [0, 1, 2] } [.queueSend 1 (some 7), idle 20001, .queueSend 2 (some 8),
      .iter ⟨100000, 1, none⟩, .iter ⟨1000, 0, some (.raw 2)⟩, idle 20001, idle 20001]
    sents r.2 = [(1, 7), (2, 8), (1, 7), (3, 7)] ∧ r.1.handlers = [0, 2, 3] := by decide

/-- (2) [the former defect `engine-stopped:on_retry_failed-raises`, fixed] an `on_retry_failed` that raises is swallowed: the
engine keeps running, the handler (which did not flag itself) stays registered and fails again at the next iteration -/
def exSpecX (h : Nat) : Spec Nat := if h = 1 then { exSpec 1 with retries := 0, onFail := .raises } else exSpec h

example :
    let r := run { exP with spec := exSpecX } { exE with handlers := [0, 1, 2], hs := upd exE.hs 1 ⟨0, 0, false, some 7⟩ } [idle 100001, idle 1]
    r.1.alive = true ∧ r.1.handlers = [0, 1, 2] ∧ r.2 = [.timedOut 1, .failed 1, .timedOut 1, .failed 1] := by decide

example : handlerLoop { exP with spec := exSpecX } 1 { exE with clock := 100001, hs := upd exE.hs 1 ⟨0, 0, false, some 7⟩ } =
    ({ exE with clock := 100001, hs := upd exE.hs 1 ⟨0, 0, false, some 7⟩ }, [.timedOut 1, .failed 1], false) :=
  on_retry_failed_exception_isolated _ 1 _ (by decide) (by decide) (by decide)

/-- a raising `_loop_func` is swallowed as well -/
example : (engineIter { exP with loopFunc := fun c => (c + 1, true) } exE ⟨1, 1, none⟩).1.alive = true :=
  engine_survives _ exE _

/-- handshake: on a 100-byte block, a 78-byte request (2 segments), budget 1: the version request times out once, a duplicate
SVERS and a timeout precede CHCUR, the first block attempt loses its final segment (segment 0 arrives, then the timeout; the
assembly state survives), then the chain arrives cleanly -/
example :
    ((HS.init (List.replicate 100 0) 1).run (List.replicate 100 0) 1 3
      ([.timeout] ++ [.svers] ++ ([.svers, .timeout] ++ [.chcur] ++ ([] ++ [.files] ++
        ([Ev.seg (simSeg C01.exSpa 3 78 0), Ev.timeout] ++ (simChain C01.exSpa 3 78).map Ev.seg).map liftEv)))).stage = .connected :=
  (handshake_completes C01.exSpa (List.replicate 100 0) 3 78 1 (by decide) [.timeout] [.svers, .timeout] []
    [Ev.seg (simSeg C01.exSpa 3 78 0), Ev.timeout] (by decide) (by decide) (by decide) (by decide) (by decide) (by decide)
    (by
      intro s hs
      simp only [List.mem_cons, Ev.seg.injEq, List.mem_nil_iff, or_false] at hs
      rcases hs with rfl | hs
      · exact (mem_simChain _ _ _ _).2 ⟨0, by decide, rfl⟩
      · cases hs)
    (block_survives _ 3 1 _ (by decide))).1

example : ((HS.init (List.replicate 100 0) 1).run (List.replicate 100 0) 1 0
      ([] ++ [.svers] ++ ([] ++ [.chcur] ++ ([] ++ [.files] ++ ([] ++ (simChain C01.exSpa 0 100).map Ev.seg).map liftEv)))).asm.cli = C01.exSpa :=
  (handshake_block_identical C01.exSpa (List.replicate 100 0) 100 1 (by decide) (by decide) (by simp) [] [] [] []
    (by decide) (by decide) (by decide) (by decide) (by decide) (by decide) (by intro s hs; cases hs) (Or.inl rfl)).2

example : evsCost [Ev.seg (simSeg C01.exSpa 3 78 0), Ev.timeout] = 1 := by decide

/-- and beyond the budget the model stalls (the handshake theorem's hypothesis is not vacuous) -/
example : ((HS.init (List.replicate 100 0) 1).run (List.replicate 100 0) 1 3 [.timeout, .timeout, .svers]).stage = .stalled := by decide

end GeckoModel.C20

/-! ### the lists and counters the engine thread shares with its callers

`engineIter` above steps ONE thread; the client's threads call `queue_send`, `add_receive_handler`, `remove_receive_handler` and
the sequence counter concurrently with it.  Over the regenerated skeletons of every method of the socket that touches the two handler
lists or the counters: each mutation happens between the method's own acquisition and release of `self._lock`
(`alwaysHeld`, sound for every trace by `scan_accepts`), hence - `lock_mutex`, for ANY number of threads and ANY pre-emptive
interleaving that respects the lock - every mutation in the global trace is made by the thread that holds the lock. -/
namespace GeckoModel.C20.Locking
open GeckoModel.Coop GeckoModel.Generated.Skeletons

def acq (a : A) : Bool := a.kind == .acquired && a.name == "self._lock"
def rel (a : A) : Bool := a.kind == .release && a.name == "self._lock"

/-- a mutation of a handler list or of a sequence counter -/
def mutates (a : A) : Bool :=
  (a.kind == .call && (a.name == "self._receive_handlers.append" || a.name == "self._receive_handlers.remove" ||
                        a.name == "self._send_handlers.append" || a.name == "self._send_handlers.pop")) ||
  (a.kind == .set && (a.name == "self._receive_handlers" || a.name == "self._send_handlers" ||
                       a.name == "self._sequence_counter_command" || a.name == "self._sequence_counter_protocol"))

def engineMethods : List Sk :=
  [sk_driver_udp_socket__GeckoUdpSocket_add_receive_handler, sk_driver_udp_socket__GeckoUdpSocket_remove_receive_handler,
   sk_driver_udp_socket__GeckoUdpSocket_queue_send, sk_driver_udp_socket__GeckoUdpSocket_get_and_increment_sequence_counter,
   sk_driver_udp_socket__GeckoUdpSocket__process_send_requests, sk_driver_udp_socket__GeckoUdpSocket_dispatch_recevied_data,
   sk_driver_udp_socket__GeckoUdpSocket__cleanup_handlers]

theorem shared_state_mutated_under_the_lock : ∀ sk ∈ engineMethods, alwaysHeld acq rel mutates sk = true := by decide +kernel

/-- **for any number of threads, any calls, any pre-emptive interleaving that respects the lock**: every mutation of the handler
lists and of the counters is made by the thread holding `self._lock` -/
theorem shared_state_mutually_exclusive (task : Nat → Sk) (h : ∀ j, task j ∈ engineMethods)
    (locals : Nat → List Coop.Ev) (hrun : ∀ j, ∃ o, Coop.Run (task j) (locals j) o) (g : List (Nat × Coop.Ev)) (hi : Coop.Inter locals g)
    (hl : LockRespecting acq rel none g) : InnerByHolder acq rel mutates none g :=
  lock_mutex_of_skeletons acq rel mutates task (fun j => shared_state_mutated_under_the_lock _ (h j)) locals hrun g hi hl

/-- non-vacuity: the methods do mutate (five list operations, one list replacement, four counter assignments) and do lock -/
example : (engineMethods.flatMap fun sk => (actions .call sk).filter fun n => mutates ⟨.call, n⟩).length = 4 ∧
    (engineMethods.flatMap fun sk => (actions .set sk).filter fun n => mutates ⟨.set, n⟩).length = 5 ∧
    (engineMethods.all fun sk => (actions .acquired sk).contains "self._lock") = true := by decide +kernel

/-- non-vacuity: an append outside the `with self._lock:` block is rejected -/
example : alwaysHeld acq rel mutates
    (.seq (.ev (.act ⟨.acquired, "self._lock"⟩)) (.seq (.ev (.act ⟨.release, "self._lock"⟩))
      (.ev (.act ⟨.call, "self._send_handlers.append"⟩)))) = false := by decide +kernel

/-- **every answer restarts the handler's clock** (the base class of every handler, threaded and awaitable alike): each normal end of
`handled` / `async_handled` has called `_reset_timeout` - unconditionally, whether or not the handler is about to be removed - so
the timeout scan that follows in the same engine iteration cannot take the request it has just seen answered for a timed-out one -/
theorem every_answer_restarts_the_clock :
    everyNormalEndDid (fun a => a.kind == .call && a.name == "self._reset_timeout")
      sk_driver_udp_protocol_handler__GeckoUdpProtocolHandler_handled = true ∧
    everyNormalEndDid (fun a => a.kind == .call && a.name == "self._reset_timeout")
      sk_driver_udp_protocol_handler__GeckoUdpProtocolHandler_async_handled = true ∧
    actions .brT sk_driver_udp_protocol_handler__GeckoUdpProtocolHandler__reset_timeout = [] := by decide +kernel

/-! ### code that is not the engine's own never stops the engine -/

/-- where the engine runs code it does not own: a handler's `send_bytes` property and the OS socket on the send side, the OS socket
and the whole dispatch (handler `can_handle` / `handle` / `handled`) on the receive side, every handler's `loop`, the sub-class hook -/
def foreignSend (e : Coop.Ev) : Bool := isReadOf "send_bytes" e || isCallOf "self._socket.sendto" e
def foreignRecv (e : Coop.Ev) : Bool := isCallOf "self._socket.recvfrom" e || isCallOf "self.dispatch_recevied_data" e
def foreignDispatch (e : Coop.Ev) : Bool := isCallOf "receive_handler.handle" e || isCallOf "receive_handler.handled" e
def foreignLoop (e : Coop.Ev) : Bool := isCallOf "handler.loop" e || isCallOf "self._loop_func" e

/-- **a handler exception never stops the engine** (over the regenerated skeletons of the engine's four steps, with Python's rule for
which handler gets an exception): whatever a handler's code or the OS socket raises - while its bytes are being built, while it is
sent, received, dispatched, handled, or in its timeout turn - some `except Exception` of the step itself swallows it and the step
ends normally; so `_thread_func`, whose own turn contains `handler.loop` and the hook the same way, goes on to its next turn -/
theorem foreign_code_never_stops_the_engine :
    survivesEveryException foreignSend sk_driver_udp_socket__GeckoUdpSocket__process_send_requests = true ∧
    survivesEveryException foreignRecv sk_driver_udp_socket__GeckoUdpSocket__process_received_data = true ∧
    survivesEveryException foreignDispatch sk_driver_udp_socket__GeckoUdpSocket_dispatch_recevied_data = true ∧
    survivesEveryException foreignLoop sk_driver_udp_socket__GeckoUdpSocket__thread_func = true ∧
    (actions .read sk_driver_udp_socket__GeckoUdpSocket__process_send_requests).contains "send_bytes" = true := by decide +kernel

/-- the same semantically, for the send step: an exception thrown where the handler's bytes are built or sent does not leave it -/
theorem send_step_contains_handler_exceptions {o : Coop.Out}
    (h : Thrown catchesAny foreignSend sk_driver_udp_socket__GeckoUdpSocket__process_send_requests o) : o ≠ .exc :=
  exception_is_contained foreign_code_never_stops_the_engine.1 h

/-- non-vacuity: building the bytes just above the `try` is a place where a handler's exception leaves the step -/
example : survivesEveryException foreignSend
    (.seq (.ev (.act ⟨.read, "send_bytes"⟩)) (.tryExc (.ev (.act ⟨.call, "self._socket.sendto"⟩)) (.ev (.act ⟨.exc, "Exception"⟩)))) = false := by
  decide +kernel

/-! ### the blocking client's session glue -/

/-- **the blocking client refreshes only when connected**: in `GeckoSpa.refresh` (called by the ping thread once per ping period and
by the shell) a sequence number is drawn and a request handed to the structure only on the path on which `not self.is_connected` was
found false - during the hand-shake the shared assembly state of the outstanding full-block request is left alone (round 15) -/
theorem refresh_only_when_connected :
    onlyUnderBothGuards (fun _ => false) (isBranch false "not self.is_connected") (isBranch false "not self.is_connected")
      (isCallOf "self.struct.retry_request") sk_spa__GeckoSpa_refresh = true ∧
    onlyUnderBothGuards (fun _ => false) (isBranch false "not self.is_connected") (isBranch false "not self.is_connected")
      (isCallOf "self.get_and_increment_sequence_counter") sk_spa__GeckoSpa_refresh = true := by decide +kernel

/-- `_final_connect` (accessors built, `_is_connected` set) is reached from the engine's loop hook only with the socket open, a
complete block received and the connection not yet marked; the ping thread's iteration is: ping, refresh, wait one period -/
theorem final_connect_needs_an_open_socket_and_a_block :
    onlyUnderBothGuards (fun _ => false) (isBranch true "self.isopen") (isBranch true "self.struct.had_at_least_one_block")
      (isCallOf "self._final_connect") sk_spa__GeckoSpa__loop_func = true ∧
    onlyUnderBothGuards (fun _ => false) (isBranch false "self._is_connected") (isBranch false "self._is_connected")
      (isCallOf "self._final_connect") sk_spa__GeckoSpa__loop_func = true ∧
    actions .call sk_spa__GeckoSpa__ping_thread_func = ["queue_send", "self.refresh", "self.wait", "time.monotonic"] := by decide +kernel

/-- **every write the blocking structure hands over is sent**: `GeckoSpa._on_set_value` has no early return - on its only path it
registers the acknowledgement handler and queues ONE set-value command (over the regenerated skeleton; round 15: a command equal
to the client's mirror was dropped while the report of the previous write was still under way) -/
theorem every_blocking_set_value_is_sent :
    everyNormalEndDid (fun a => a.kind == .call && a.name == "queue_send") sk_spa__GeckoSpa__on_set_value = true ∧
    everyNormalEndDid (fun a => a.kind == .call && a.name == "self.add_receive_handler") sk_spa__GeckoSpa__on_set_value = true ∧
    (actions .call sk_spa__GeckoSpa__on_set_value).count "queue_send" = 1 ∧
    outs sk_spa__GeckoSpa__on_set_value = [.fall] := by decide +kernel

end GeckoModel.C20.Locking
