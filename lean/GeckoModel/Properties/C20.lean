/-
C20 — Threaded engine: FIFO paced sends, first-match dispatch, bounded handler life.

Model: `Model/Threaded.lean` — `engineIter`, one iteration of `GeckoUdpSocket._thread_func`, statement by statement; phase order,
throttle gap, popped end of the queue and timeout strictness come from `Generated/ThreadedFacts.lean` (re-extracted from the source
on every run).  TIME UNIT: 1 tick = 1 microsecond of `time.monotonic()`.
Quantifiers: every program `P` of handlers (any `can_handle`, any callbacks), every engine state (any registration order), every list
of steps = iterations with ANY environment (clock advances, at most one datagram, nested packets) interleaved with client calls.
All statements are proved by induction over the step list / the handler list / the datagram nesting.
-/
import GeckoModel.Proofs.ThreadedHandler

namespace GeckoModel.C20
open GeckoModel GeckoModel.Generated GeckoModel.Threaded

variable {σ : Type}

/-! ## the source still has the audited control flow -/

/-- the facts the hand model mirrors, as extracted from /repo on this run: five phases in this order, `pop(0)`, strict `>` in
has_timedout, the handler loop of `_thread_func` unguarded.  (A different source makes this theorem, and the proofs below, fail.) -/
theorem source_facts :
    threadPhaseCodes = [0, 1, 2, 3, 4] ∧ sendPopsFront = true ∧ timeoutStrict = true ∧ timeoutZeroNever = true ∧ loopPhaseGuarded = false := by
  decide

/-- the generated throttle gap is at least one period of the generated rate: `gap µs × rate ≥ 1 s` -/
theorem throttle_gap_is_a_period : 1000000 ≤ throttleMinGapUs * throttleRate := by decide

/-! ## fifo_sends -/

/-- **FIFO**: for every run, (queue at the start) ++ (queue_send calls, in call order, whoever made them) =
(datagrams taken from the queue, in order) ++ (queue at the end). -/
theorem fifo_sends (P : Prog σ) (e : Engine σ) (steps : List Step) :
    e.sendq ++ enqs (run P e steps).2 = pops (run P e steps).2 ++ (run P e steps).1.sendq :=
  (run_rel P steps e).fifo

/-- every popped entry is transmitted unless its send fails (no `send_bytes`, destination None) -/
theorem popped_is_transmitted (P : Prog σ) (e : Engine σ) (steps : List Step)
    (hnf : failedSends (run P e steps).2 = []) :
    pops (run P e steps).2 = (sents (run P e steps).2).map (fun x => (x.1, some x.2)) :=
  pops_eq_sents _ hnf

/-- the transmitted sequence IS the queue_send call sequence, once the queue has drained and no send failed -/
theorem fifo_transmitted (P : Prog σ) (e : Engine σ) (steps : List Step) (h0 : e.sendq = [])
    (hend : (run P e steps).1.sendq = []) (hnf : failedSends (run P e steps).2 = []) :
    (sents (run P e steps).2).map (fun x => (x.1, some x.2)) = enqs (run P e steps).2 := by
  have := fifo_sends P e steps
  rw [h0, hend, pops_eq_sents _ hnf] at this
  simpa using this.symm

/-! ## paced -/

/-- **pacing**: in every run from a state whose `_last_send_time` is not in the future (true of a new socket), each transmission is at
least `throttleMinGapUs` (20001 µs ≥ 1/50 s) after the previous one, the first one after the initial `_last_send_time`. -/
theorem paced (P : Prog σ) (e : Engine σ) (steps : List Step) (h : e.lastSend ≤ e.clock) :
    PacedFrom throttleMinGapUs e.lastSend (sentTimes (run P e steps).2) :=
  ((run_rel P steps e).paced h).1

theorem pacedFrom_consecutive (gap : Nat) : ∀ (l : List Nat) (t0 : Nat), PacedFrom gap t0 l →
    ∀ (i : Nat) (t1 t2 : Nat), l[i]? = some t1 → l[i + 1]? = some t2 → t1 + gap ≤ t2
  | [], _, _, _, _, _, h1, _ => by simp at h1
  | [_], _, _, i, _, _, _, h2 => by simp at h2
  | a :: b :: r, _, hp, 0, t1, t2, h1, h2 => by
    simp at h1 h2; subst h1; subst h2; exact hp.2.1
  | a :: b :: r, _, hp, i + 1, t1, t2, h1, h2 => by
    simp only [List.getElem?_cons_succ] at h1 h2
    exact pacedFrom_consecutive gap (b :: r) a hp.2 i t1 t2 h1 h2

/-- consecutive transmissions are at least one throttle period apart (index form, in seconds: `(t₂ - t₁) × 50 ≥ 10⁶ µs`) -/
theorem paced_consecutive (P : Prog σ) (e : Engine σ) (steps : List Step) (h : e.lastSend ≤ e.clock) (i t1 t2 : Nat)
    (h1 : (sentTimes (run P e steps).2)[i]? = some t1) (h2 : (sentTimes (run P e steps).2)[i + 1]? = some t2) :
    t1 + throttleMinGapUs ≤ t2 ∧ 1000000 ≤ (t2 - t1) * throttleRate := by
  have := pacedFrom_consecutive _ _ _ (paced P e steps h) i t1 t2 h1 h2
  refine ⟨this, ?_⟩
  have hg : 1000000 ≤ throttleMinGapUs * throttleRate := throttle_gap_is_a_period
  have : throttleMinGapUs ≤ t2 - t1 := by omega
  exact Nat.le_trans hg (Nat.mul_le_mul_right _ this)

/-! ## first_match -/

/-- **first match**: the datagram is handled by the handler at the minimal registration position whose `can_handle` is true
(`invoke` = that handler's `handle` then `handled`), whatever the later handlers accept -/
theorem first_match (P : Prog σ) (inner : Inner σ) (d : Dgram) (e : Engine σ) (pre post : List Nat) (h : Nat)
    (hsplit : e.handlers = pre ++ h :: post) (hpre : ∀ g ∈ pre, (P.spec g).canHandle d = false)
    (hh : (P.spec h).canHandle d = true) :
    dispatchWith P inner d e = invoke P inner h d e := by
  unfold dispatchWith
  have : e.handlers.find? (fun g => (P.spec g).canHandle d) = some h := by
    rw [hsplit, List.find?_append]
    have : pre.find? (fun g => (P.spec g).canHandle d) = none := by
      rw [List.find?_eq_none]; intro g hg; simp [hpre g hg]
    simp [this, List.find?_cons, hh]
  rw [this]

/-- index form: `handlers[i]` with `i` minimal such that `can_handle` -/
theorem first_match_index (P : Prog σ) (inner : Inner σ) (d : Dgram) (e : Engine σ) (i h : Nat)
    (hi : e.handlers[i]? = some h) (hh : (P.spec h).canHandle d = true)
    (hmin : ∀ j g, j < i → e.handlers[j]? = some g → (P.spec g).canHandle d = false) :
    dispatchWith P inner d e = invoke P inner h d e := by
  have hlt : i < e.handlers.length := by
    rcases Nat.lt_or_ge i e.handlers.length with h1 | h1
    · exact h1
    · rw [List.getElem?_eq_none h1] at hi; cases hi
  have hget : e.handlers[i] = h := by
    rw [List.getElem?_eq_getElem hlt] at hi; exact Option.some.inj hi
  apply first_match P inner d e (e.handlers.take i) (e.handlers.drop (i + 1)) h
  · rw [← hget]; simp
  · intro g hg
    obtain ⟨j, hj, hgj⟩ := List.mem_take_iff_getElem.1 hg
    have hj' : j < i := by omega
    exact hmin j g hj' (by rw [List.getElem?_eq_getElem (by omega)]; exact congrArg some hgj)
  · exact hh

/-- ... and by nobody if no registered handler accepts it: the engine is unchanged -/
theorem first_match_none (P : Prog σ) (inner : Inner σ) (d : Dgram) (e : Engine σ)
    (hnone : ∀ g ∈ e.handlers, (P.spec g).canHandle d = false) :
    dispatchWith P inner d e = (e, [.unhandled d]) := by
  unfold dispatchWith
  have : e.handlers.find? (fun g => (P.spec g).canHandle d) = none := by
    rw [List.find?_eq_none]; intro g hg; simp [hnone g hg]
  rw [this]

/-- `dispatch_recevied_data` on a datagram is `dispatchWith` at every nesting level (the packet handler's re-dispatch goes through the
same first-match search), so the three theorems above cover inner datagrams too -/
theorem dispatch_levels (P : Prog σ) (e : Engine σ) :
    (∀ v, dispatch P (.raw v) e = dispatchWith P none (.raw v) e) ∧
    (∀ i, dispatch P (.pkt i) e = dispatchWith P (some (dispatch P i)) (.pkt i) e) :=
  ⟨fun _ => rfl, fun _ => rfl⟩

/-- the first thing `invoke` does is call `handle` of that handler with that datagram -/
theorem invoke_calls_handle (P : Prog σ) (inner : Inner σ) (h : Nat) (d : Dgram) (e : Engine σ) :
    (invoke P inner h d e).2.head? = some (.handled h d) := by
  unfold invoke
  simp only
  split <;> rfl

/-! ## exception_isolated -/

/-- a `handle` that raises (before doing anything to the engine) changes NOTHING but what the callback itself did to the client
state: queue, handler list, every handler's timer (its own too: `handled()` is not reached), send clock, liveness -/
theorem exception_isolated (P : Prog σ) (inner : Inner σ) (h : Nat) (d : Dgram) (e : Engine σ)
    (hacts : ((P.spec h).handle e.client d).acts = []) (hraise : ((P.spec h).handle e.client d).raises = true) :
    invoke P inner h d e = ({ e with client := ((P.spec h).handle e.client d).client }, [.handled h d, .raised h]) := by
  unfold invoke
  simp [hacts, hraise, runActs]

/-- an `on_handled` that raises at once: the only engine change is the handler's own timeout reset done by `handled()` before -/
theorem exception_isolated_on_handled (P : Prog σ) (inner : Inner σ) (h : Nat) (d : Dgram) (e : Engine σ)
    (hacts : ((P.spec h).handle e.client d).acts = []) (hnr : ((P.spec h).handle e.client d).raises = false)
    (hacts2 : ∀ c, ((P.spec h).onHandled c d).acts = []) (hraise : ∀ c, ((P.spec h).onHandled c d).raises = true) :
    (invoke P inner h d e).1 =
      { e with client := ((P.spec h).onHandled ((P.spec h).handle e.client d).client d).client,
               hs := upd e.hs h { e.hs h with start := e.clock } } ∧
    (invoke P inner h d e).2 = [.handled h d, .raised h] := by
  unfold invoke
  simp [hacts, hnr, hacts2, hraise, runActs]

/-- whatever the callbacks do (raise anywhere, at any nesting depth), dispatching never stops the engine -/
theorem dispatch_never_stops_engine (P : Prog σ) (d : Dgram) (e : Engine σ) : (dispatch P d e).1.alive = e.alive :=
  dispatch_alive P d e

/-- the only ways out of `_thread_func`: an exception from an `on_retry_failed` callback or from `_loop_func` (neither call is
guarded in the source).  Without those, EVERY iteration leaves the engine running, for every environment: the next iteration runs. -/
theorem engine_survives (P : Prog σ) (hnr : NoRaise P) (hlf : ∀ c, (P.loopFunc c).2 = false) (e : Engine σ) (env : Env) :
    (engineIter P e env).1.alive = e.alive := by
  cases ha : e.alive with
  | false => unfold engineIter; simp [ha]
  | true =>
    rw [engineIter_unfold P e env ha]
    have h2 : (afterLoop P e env).1.alive = true := by
      unfold afterLoop; rw [(loopAll_misc P hnr _ _).2.2, afterRecv_alive]; exact ha
    rw [if_pos h2]
    unfold loopFuncPhase
    simp [hlf]
    exact h2

theorem run_survives (P : Prog σ) (hnr : NoRaise P) (hlf : ∀ c, (P.loopFunc c).2 = false) :
    ∀ (steps : List Step) (e : Engine σ), (run P e steps).1.alive = e.alive
  | [], _ => rfl
  | s :: ss, e => by
    unfold run
    simp only
    rw [run_survives P hnr hlf ss]
    cases s with
    | iter env => exact engine_survives P hnr hlf e env
    | queueSend h d => rfl
    | register h => rfl
    | create h => rfl

end GeckoModel.C20
