/-
C17 — Active/idle configuration switching is complete and wakes every sleeper.

Model: `Model/Config.lean` (hand model of `config.py` and of the facade's mode rule) over the tables in
`Generated/ConfigTables.lean` (regenerated from `/repo/src/geckolib/config.py` on every run).
The sleeper theorems hold for ALL op sequences (`sleep id delay | setMode b | tick | cancel id`, any length, any
interleaving, any number of concurrent sleepers) by induction with the invariant `Config.SysInv`.
Time is a counter of abstract ticks: the timing clauses are statements about the tick model
(a real event loop adds timer skew, which is outside).
-/
import GeckoModel.Proofs.ConfigLemmas
import GeckoModel.Model.Coop
import GeckoModel.Proofs.Coop
import GeckoModel.Generated.Skeletons

namespace GeckoModel.C17
open GeckoModel.Config GeckoModel.Generated.Config

/-! ### the tables -/

/-- **members_cover**: the active table, the idle table, the base class and the live object all have exactly the
attributes listed in `CONFIG_MEMBERS` — no subclass adds a setting the copy loop would miss -/
theorem members_cover :
    keys activeTable = configMembers ∧ keys idleTable = configMembers ∧
    keys baseTable = configMembers ∧ keys initialLive = configMembers := by decide +kernel

/-- no attribute is listed twice -/
theorem members_nodup : configMembers.Nodup := by decide +kernel

/-- every member can be read from both tables (the `getattr` of the copy loop cannot raise) -/
theorem tables_defined : ∀ b : Bool, ∀ m ∈ configMembers, (getAttr (tableOf b) m).isSome = true := by decide +kernel

/-- the copy loop of `set_config_mode` never raises -/
theorem setMode_total (b : Bool) (live : Table) : ∃ live', setMode b live = .ok live' := by
  obtain ⟨live', h, _⟩ := copy_spec (tableOf b) configMembers live
    (fun m hm => Option.isSome_iff_exists.mp (tables_defined b m hm))
  exact ⟨live', h⟩

/-- **switch_complete**: whatever the live object held before (in particular the other mode's values, or any mixture),
after `set_config_mode(b)` EVERY setting of the chosen table is installed -/
theorem switch_complete (b : Bool) (live : Table) :
    ∃ live', setMode b live = .ok live' ∧ ∀ k ∈ keys (tableOf b), getAttr live' k = getAttr (tableOf b) k := by
  obtain ⟨live', h, h2, _⟩ := copy_spec (tableOf b) configMembers live
    (fun m hm => Option.isSome_iff_exists.mp (tables_defined b m hm))
  refine ⟨live', h, fun k hk => h2 k ?_⟩
  have hc := members_cover
  cases b
  · simpa [tableOf, hc.2.1] using hk
  · simpa [tableOf, hc.1] using hk

/-- **no mixture**: after a switch, no setting of either table is left at a value other than the chosen table's,
and nothing outside `CONFIG_MEMBERS` is touched -/
theorem no_mixture (b : Bool) (live : Table) :
    ∃ live', setMode b live = .ok live' ∧
      (∀ k ∈ keys activeTable ++ keys idleTable, getAttr live' k = getAttr (tableOf b) k) ∧
      (∀ k, k ∉ configMembers → getAttr live' k = getAttr live k) := by
  obtain ⟨live', h, h2, h3⟩ := copy_spec (tableOf b) configMembers live
    (fun m hm => Option.isSome_iff_exists.mp (tables_defined b m hm))
  refine ⟨live', h, fun k hk => h2 k ?_, h3⟩
  have hc := members_cover
  simpa [hc.1, hc.2.1] using hk

/-- concretely, from the import-time object and back: the result IS the chosen table -/
theorem switch_concrete :
    (setMode true initialLive).toOption = some activeTable ∧ (setMode false activeTable).toOption = some idleTable ∧
    (setMode true idleTable).toOption = some activeTable := by decide +kernel

/-- non-vacuity: the two tables differ (so a mixture would be observable) -/
example : activeTable ≠ idleTable := by decide +kernel

/-- the discovery waits (used by C15) are the same in both modes, so a switch during discovery does not move them -/
theorem discovery_waits_mode_independent :
    getAttr activeTable "DISCOVERY_INITIAL_TIMEOUT_IN_SECONDS" = getAttr idleTable "DISCOVERY_INITIAL_TIMEOUT_IN_SECONDS" ∧
    getAttr activeTable "DISCOVERY_TIMEOUT_IN_SECONDS" = getAttr idleTable "DISCOVERY_TIMEOUT_IN_SECONDS" := by decide +kernel

/-! ### the facade rule -/

/-- **active_iff_any_on**: `_on_config_device_change` selects active exactly when some device is on -/
theorem active_iff_any_on (devs : List DevState) : chooseMode devs = true ↔ ∃ d ∈ devs, d.isOn = true := by
  simpa [chooseMode] using chooseMode_fold devs false

/-- … where the devices are the pumps followed by the blowers -/
theorem facade_active_iff (pumps blowers : List DevState) :
    facadeMode pumps blowers = true ↔ (∃ p ∈ pumps, p.isOn = true) ∨ (∃ b ∈ blowers, b.isOn = true) := by
  unfold facadeMode
  rw [active_iff_any_on]
  constructor
  · rintro ⟨d, hd, h⟩
    rcases List.mem_append.mp hd with hd | hd
    · exact Or.inl ⟨d, hd, h⟩
    · exact Or.inr ⟨d, hd, h⟩
  · rintro (⟨d, hd, h⟩ | ⟨d, hd, h⟩)
    · exact ⟨d, List.mem_append.mpr (Or.inl hd), h⟩
    · exact ⟨d, List.mem_append.mpr (Or.inr hd), h⟩

/-- all devices off (including none at all) selects idle -/
theorem idle_iff_all_off (devs : List DevState) : chooseMode devs = false ↔ ∀ d ∈ devs, d.isOn = false := by
  have := active_iff_any_on devs
  constructor
  · intro h d hd
    cases hon : d.isOn
    · rfl
    · exact absurd (this.mpr ⟨d, hd, hon⟩) (by simp [h])
  · intro h
    cases hc : chooseMode devs
    · rfl
    · obtain ⟨d, hd, hon⟩ := this.mp hc
      simp [h d hd] at hon

example : facadeMode [.label "OFF", .flag false] [.label "HI"] = true := by decide
example : facadeMode [.label "OFF", .flag false] [.flag false] = false := by decide
example : facadeMode [] [] = false := by decide

/-! ### the sleeper system: every op sequence -/

/-- **inv**: in every reachable state every waiting sleeper waits on the CURRENT future, that future exists and is not
yet resolved (so it cannot be parked on a stale, already-resolved or never-to-be-resolved future), nobody waiting is
overdue, and everybody who left did so between start and deadline -/
theorem inv (ops : List Op) : SysInv (run Sys.init ops) := inv_run ops _ inv_init

/-- `ConfigChange` is a future exactly when some `config_sleep` ran before -/
theorem slept_first (ops : List Op) : (run Sys.init ops).gen ≠ 0 ↔ ∃ id d, Op.sleep id d ∈ ops := by
  have := gen_run ops Sys.init
  simpa [Sys.init] using this

/-- **wake_all_on_switch** (no lost wake-up): after any history containing a `config_sleep`, a `set_config_mode` succeeds and
wakes EVERY task currently sleeping, in that very step, at the current time -/
theorem wake_all_on_switch (ops : List Op) (b : Bool) (hslept : ∃ id d, Op.sleep id d ∈ ops) :
    let s := run Sys.init ops
    (step s (.setMode b)).2 = .ok () ∧ (step s (.setMode b)).1.sleepers = [] ∧
    ∀ sl ∈ s.sleepers, (⟨sl.id, sl.start, sl.deadline, s.t, .switch⟩ : Wake) ∈ (step s (.setMode b)).1.woken := by
  intro s
  have hi : SysInv s := inv ops
  have hg : s.gen ≠ 0 := (slept_first ops).mpr hslept
  obtain ⟨live', hl⟩ := setMode_total b s.live
  simp only [step]
  rcases doSetMode_cases s b live' hl with ⟨h0, _⟩ | ⟨_, hd, h2⟩ | ⟨_, _, h2⟩
  · exact absurd h0 hg
  · have hnil : s.sleepers = [] := by
      cases hs : s.sleepers with
      | nil => rfl
      | cons sl _ =>
        have := (hi.cur sl (by simp [hs])).2.2
        simp [hd] at this
    rw [h2]; simp [hnil]
  · rw [h2]
    refine ⟨rfl, ?_, ?_⟩
    · apply List.eq_nil_iff_forall_not_mem.mpr
      intro sl hsl
      rw [mem_wakeBy_sleepers] at hsl
      have := (hi.cur sl hsl.1).1
      simp [this] at hsl
    · intro sl hsl
      rw [mem_wakeBy_woken]
      exact Or.inl ⟨sl, hsl, by simp [(hi.cur sl hsl).1], rfl⟩

/-- **never_oversleep**: in every reachable state nobody who left slept past its deadline, and nobody still waiting is
past its deadline -/
theorem never_oversleep (ops : List Op) :
    let s := run Sys.init ops
    (∀ w ∈ s.woken, w.start ≤ w.at_ ∧ w.at_ ≤ w.deadline) ∧ (∀ sl ∈ s.sleepers, s.t < sl.deadline) := by
  intro s
  have hi : SysInv s := inv ops
  exact ⟨fun w hw => ⟨(hi.log w hw).1, (hi.log w hw).2.1⟩, fun sl hsl => (hi.due sl hsl).1⟩

/-- a timeout fires exactly at the deadline (neither late nor early) -/
theorem timeout_at_deadline (ops : List Op) :
    ∀ w ∈ (run Sys.init ops).woken, w.cause = .timeout → w.at_ = w.deadline :=
  fun w hw => ((inv ops).log w hw).2.2.2

/-- nobody disappears: every `config_sleep` call is either still waiting or has returned -/
theorem all_accounted (ops : List Op) :
    (run Sys.init ops).sleepers.length + (run Sys.init ops).woken.length = (ops.filter isSleep).length := by
  have := total_run ops Sys.init
  simpa [total, Sys.init] using this

/-- **E_ASSERT branch**: `set_config_mode` before any `config_sleep` raises `AssertionError` — after the complete table has
been installed; nobody can be asleep then -/
theorem assert_branch (ops : List Op) (b : Bool) (hnone : ¬ ∃ id d, Op.sleep id d ∈ ops) :
    let s := run Sys.init ops
    (step s (.setMode b)).2 = .error .assertErr ∧ s.sleepers = [] ∧
    (step s (.setMode b)).1.sleepers = [] ∧
    ∀ k ∈ keys (tableOf b), getAttr (step s (.setMode b)).1.live k = getAttr (tableOf b) k := by
  intro s
  have hi : SysInv s := inv ops
  have hg : s.gen = 0 := by
    have := (not_congr (slept_first ops)).mpr hnone
    simpa using this
  have hnil : s.sleepers = [] := by
    cases hs : s.sleepers with
    | nil => rfl
    | cons sl _ =>
      have := (hi.cur sl (by simp [hs])).2.1
      omega
  obtain ⟨live', hl, hall⟩ := switch_complete b s.live
  simp only [step]
  rcases doSetMode_cases s b live' hl with ⟨_, h2⟩ | ⟨h0, _⟩ | ⟨h0, _⟩
  · rw [h2]; exact ⟨rfl, hnil, hnil, hall⟩
  · exact absurd hg h0
  · exact absurd hg h0

/-- cancelling one sleeping task leaves every other sleeper, and the shared future, as they were -/
theorem cancel_frame (s : Sys) (id : Nat) :
    (step s (.cancel id)).1.gen = s.gen ∧ (step s (.cancel id)).1.done = s.done ∧
    ∀ sl ∈ s.sleepers, sl.id ≠ id → sl ∈ (step s (.cancel id)).1.sleepers := by
  refine ⟨by simp [step, doCancel, wakeBy], by simp [step, doCancel, wakeBy], ?_⟩
  intro sl hsl hne
  simp only [step, doCancel]
  rw [mem_wakeBy_sleepers]
  exact ⟨hsl, by simp [hne]⟩

/-! non-vacuity: a concrete history with three concurrent sleepers, a timeout, a switch that wakes two at once, a renewed
future, and the assert branch -/

def demoOps : List Op := [.sleep 1 5, .sleep 2 2, .tick, .sleep 3 50, .tick, .setMode true, .sleep 4 3, .tick]

example : (run Sys.init demoOps).woken.map (fun w => (w.id, w.at_, w.cause)) =
    [(1, 2, .switch), (3, 2, .switch), (2, 2, .timeout)] := by decide +kernel
example : (run Sys.init demoOps).sleepers = [⟨4, 2, 2, 5⟩] ∧ (run Sys.init demoOps).gen = 2 ∧
    (run Sys.init demoOps).done = false := by decide +kernel
example : ∃ id d, Op.sleep id d ∈ demoOps := ⟨1, 5, by decide⟩
example : (match (step (run Sys.init [.tick, .tick]) (.setMode true)).2 with | .error .assertErr => true | _ => false) = true := by
  decide +kernel
example : ¬ ∃ id d, Op.sleep id d ∈ [Op.tick, Op.tick] := by simp

/-- what a synchronous method / coroutine writes into its own object and which of its own methods or attributes it calls -/
private def stateOf (sk : GeckoModel.Coop.Sk) : List String × List String :=
  (GeckoModel.Coop.selfStateWritten sk, (GeckoModel.Coop.actions .call sk).filter GeckoModel.Coop.isSelfState)

/-- **the facade keeps no opinion about the live table** (state inventory over the regenerated skeleton): `_on_config_device_change`
writes no attribute of the facade - the mode is recomputed from the devices and handed to `set_config_mode` every time, so it cannot
disagree with the process-wide table after another facade (an earlier connection) switched it -/
theorem config_change_state_inventory :
    stateOf GeckoModel.Generated.Skeletons.sk_automation_async_facade__GeckoAsyncFacade__on_config_device_change = ([], []) ∧
    "set_config_mode" ∈ GeckoModel.Coop.actions .call GeckoModel.Generated.Skeletons.sk_automation_async_facade__GeckoAsyncFacade__on_config_device_change := by
  decide +kernel

/-- **a pump or blower change is handed on, whatever happened to earlier ones**: the chain item -> sensor -> device -> facade is
four `Observable`s; the walk keeps no memory (state inventory over the regenerated skeletons of `Observable`, the base of every item,
sensor, device and facade): `_on_change` assigns no attribute - there is no "busy" or "already told" mark that a failing observer
could leave set - and calls every observer that is still registered; `watch` / `unwatch` touch nothing but the observer list.  So
whatever happened during one notification (an observer raised, the walk was abandoned), the next change is delivered like the first -/
theorem device_change_reaches_the_facade_whatever_happened_before :
    GeckoModel.Coop.selfStateWritten GeckoModel.Generated.Skeletons.sk_driver_observable__Observable__on_change = [] ∧
    GeckoModel.Coop.actions .brT GeckoModel.Generated.Skeletons.sk_driver_observable__Observable__on_change = ["observer in self._observers"] ∧
    "observer" ∈ GeckoModel.Coop.actions .call GeckoModel.Generated.Skeletons.sk_driver_observable__Observable__on_change ∧
    (GeckoModel.Coop.selfStateWritten GeckoModel.Generated.Skeletons.sk_driver_observable__Observable_watch, GeckoModel.Coop.actions .call GeckoModel.Generated.Skeletons.sk_driver_observable__Observable_watch) =
      ([], ["self._observers.append"]) ∧
    (GeckoModel.Coop.selfStateWritten GeckoModel.Generated.Skeletons.sk_driver_observable__Observable_unwatch, GeckoModel.Coop.actions .call GeckoModel.Generated.Skeletons.sk_driver_observable__Observable_unwatch) =
      ([], ["self._observers.remove"]) := by decide +kernel

/-- non-vacuity: a re-entrancy mark would be seen -/
example : GeckoModel.Coop.selfStateWritten (.seq (.ev (.act ⟨.set, "self._notifying"⟩)) (.ev (.act ⟨.call, "observer"⟩))) = ["self._notifying"] := by decide +kernel

/-! ### every sleeper waits on the one current future -/

/-- the last thing the skeleton does is its only await -/
def endsInItsOnlyAwait (n : String) : GeckoModel.Coop.Sk → Bool
  | .seq pre (.ev (.aw m)) => m == n && GeckoModel.Coop.suspensions pre == 0
  | _ => false

/-- **nobody is left waiting on a stale future** (over the regenerated skeleton of `config_sleep`): the shared future is replaced
only on the path on which it was found absent or already resolved (so a future that sleepers are still waiting on is never
replaced - whoever sleeps holds the current one, and `set_config_mode` resolving the current one wakes them all), and the wait on
it - with the caller's delay as its timeout - is the LAST thing `config_sleep` does: nothing is re-armed on the way out -/
theorem sleepers_share_the_current_future :
    GeckoModel.Coop.actions .set GeckoModel.Generated.Skeletons.sk_config__config_sleep = ["ConfigChange"] ∧
    GeckoModel.Coop.onlyUnderBothGuards (fun _ => false) (GeckoModel.Coop.isBranch true "ConfigChange is None or ConfigChange.done()")
      (GeckoModel.Coop.isBranch true "ConfigChange is None or ConfigChange.done()")
      (fun e => match e with | .act a => a.kind == .set && a.name == "ConfigChange" | .aw _ => false)
      GeckoModel.Generated.Skeletons.sk_config__config_sleep = true ∧
    endsInItsOnlyAwait "asyncio.wait" GeckoModel.Generated.Skeletons.sk_config__config_sleep = true := by decide +kernel

/-- non-vacuity: re-arming the future after having been woken is seen (each woken sleeper would then replace the future the
others have just gone back to sleep on) -/
example : endsInItsOnlyAwait "asyncio.wait"
    (.seq (.ev (.aw "asyncio.wait_for")) (.alt (.ev (.act ⟨.set, "ConfigChange"⟩)) .skip)) = false := by decide +kernel

end GeckoModel.C17
