/-
C06 — Request engine: bounded retries, one request in flight, every caller completes.

Model: `Model/Request.lean` — `GeckoAsyncUdpProtocol.get` (same skeleton as `GeckoAsyncStructure.get`) for any number
of concurrent callers; atomic steps = code between awaits; whether a poll finds an acceptable reply at the head of the
queue is the adversary's choice, which covers every reply loss / delay pattern; time in ms.
`Reach false` = every schedule including event-loop stalls; `Reach true` = no stall (a due step of the lock holder, and
the hand-off of a free lock, happen before time passes) — the fairness hypothesis under which the time bounds hold.
asyncio.Lock is assumed FIFO (it is, in CPython: `acquire` only takes the fast path when nobody is parked).
-/
import GeckoModel.Proofs.RequestTiming
import GeckoModel.Proofs.Coop
import GeckoModel.Generated.Skeletons

namespace GeckoModel.C06
open GeckoModel.Request

/-- **never two requests outstanding at once**: in every reachable state at most one caller is inside an exchange
(polling for its reply or pausing between attempts), and it is the lock holder -/
theorem at_most_one_in_flight (fair : Bool) (s : RSys) (hr : Reach fair s) (i j : Nat) (ci cj : Caller)
    (hi : s.callers i = some ci) (hj : s.callers j = some cj) (ei : ci.inExchange = true) (ej : cj.inExchange = true) :
    i = j := by
  have g := good_reach fair s hr
  have a := (g.excl i ci hi).1 ei
  have b := (g.excl j cj hj).1 ej
  rw [a] at b; exact Option.some.inj b

/-- **bounded retries, each attempt freshly built**: a call never transmits more than its retry count; while polling,
the handler it waits with was built at the time of its latest transmission -/
theorem sends_bounded (fair : Bool) (s : RSys) (hr : Reach fair s) (i : Nat) (c : Caller) (hc : s.callers i = some c) :
    c.sends.length ≤ c.retry0 ∧ (∀ since np, c.pc = .polling since np → c.sends.getLast? = some since) := by
  have a := (good_reach fair s hr).acct i c hc
  unfold Acct at a
  cases hp : c.pc with
  | waiting => simp only [hp] at a; exact ⟨by simp [a.1], by intro _ _ h; cases h⟩
  | polling since np => simp only [hp] at a; exact ⟨by omega, by intro a' b' h; cases h; exact a.2.2⟩
  | pausing u => simp only [hp] at a; exact ⟨by omega, by intro _ _ h; cases h⟩
  | done r => simp only [hp] at a; exact ⟨a, by intro _ _ h; cases h⟩

/-- **served in arrival order**: the callers that have had the lock, followed by those parked on it, are exactly the
callers in the order they called -/
theorem fifo (fair : Bool) (s : RSys) (hr : Reach fair s) : s.acquired ++ s.waitq = s.called ∧ s.called.Nodup :=
  ⟨(good_reach fair s hr).fifo, (good_reach fair s hr).nodup⟩

/-- **a reply is returned only if one was actually delivered to this call**: the only step that makes a call return a
reply is its own poll finding that datagram acceptable at the head of the queue -/
theorem reply_was_delivered (s : RSys) (a : Act) (i r : Nat) (c c' : Caller)
    (hb : s.callers i = some c) (hnot : c.pc ≠ .done (some r))
    (ha : (step s a).callers i = some c') (hd : c'.pc = .done (some r))
    (hid : ∀ j x, s.callers j = some x → x.id = j) :
    a = .pollStep i (some r) := by
  cases a with
  | tick dt => simp only [step] at ha; rw [hb] at ha; cases ha; exact absurd hd hnot
  | call id retry timeout pause =>
    exfalso
    simp only [step] at ha
    by_cases hi : i = id
    · subst hi
      split at ha
      · simp only [acquire] at ha
        split at ha <;> simp [RSys.set, startAttempt] at ha <;> subst ha <;> simp at hd
      · simp [RSys.set] at ha; subst ha; simp at hd
    · split at ha
      · simp only [acquire] at ha
        split at ha <;> simp [RSys.set, startAttempt, hi] at ha <;> (rw [hb] at ha; cases ha; exact hnot hd)
      · simp [RSys.set, hi] at ha; rw [hb] at ha; cases ha; exact hnot hd
  | handoff =>
    exfalso
    simp only [step] at ha
    split at ha
    · rw [hb] at ha; cases ha; exact hnot hd
    · rename_i id rest _
      split at ha
      · rename_i x hx
        have hxid : x.id = id := hid id x hx
        simp only [acquire] at ha
        by_cases hi : i = x.id
        · subst hi
          split at ha <;> simp [RSys.set, startAttempt] at ha <;> subst ha <;> simp at hd
        · split at ha <;> simp [RSys.set, startAttempt, hi] at ha <;> (rw [hb] at ha; cases ha; exact hnot hd)
      · rw [hb] at ha; cases ha; exact hnot hd
  | resume id =>
    exfalso
    simp only [step] at ha
    split at ha
    · rw [hb] at ha; cases ha; exact hnot hd
    · rename_i x hx
      have hxid : x.id = id := hid id x hx
      split at ha
      · by_cases hi : i = x.id
        · subst hi
          split at ha <;> simp [release, RSys.set, startAttempt] at ha <;> subst ha <;> simp at hd
        · split at ha <;> simp [release, RSys.set, startAttempt, hi] at ha <;> (rw [hb] at ha; cases ha; exact hnot hd)
      · rw [hb] at ha; cases ha; exact hnot hd
  | pollStep id reply =>
    simp only [step] at ha
    split at ha
    · rw [hb] at ha; cases ha; exact absurd hd hnot
    · rename_i x hx
      have hxid : x.id = id := hid id x hx
      split at ha
      · by_cases hi : i = x.id
        · subst hi
          cases reply with
          | some r' =>
            simp [release, RSys.set] at ha; subst ha; simp at hd; subst hd; rw [hxid]
          | none =>
            exfalso
            simp only at ha
            split at ha <;> simp [RSys.set] at ha <;> subst ha <;> simp at hd
        · exfalso
          cases reply with
          | some r' => simp [release, RSys.set, hi] at ha; rw [hb] at ha; cases ha; exact hnot hd
          | none =>
            simp only at ha
            split at ha <;> simp [RSys.set, hi] at ha <;> (rw [hb] at ha; cases ha; exact hnot hd)
      · exfalso; rw [hb] at ha; cases ha; exact hnot hd

/-- **always finishes within retry-count × (timeout + one polling interval + pause) of getting the connection**:
without event-loop stalls, whoever holds the lock has held it for at most that long -/
theorem holder_time_bounded (s : RSys) (hr : Reach true s) (i : Nat) (c : Caller) (hh : s.holder = some i)
    (hc : s.callers i = some c) : s.now ≤ c.acquiredAt + c.retry0 * (c.timeout + poll + c.pause) := by
  have g := good_reach true s hr
  have t := timed_reach s hr i c hh hc
  have hex : c.inExchange = true := (g.excl i c hc).2 hh
  have hpot := t.pot hex
  unfold Caller.inExchange at hex
  cases hp : c.pc with
  | polling since np =>
    obtain ⟨h1, h2, h3, h4⟩ := t.pol since np hp
    simp only [Caller.potential, hp, Caller.attemptMs] at hpot ⊢
    have : since + (c.timeout + poll + c.pause) ≤ c.acquiredAt + c.retry0 * (c.timeout + poll + c.pause) := by omega
    omega
  | pausing u =>
    have := t.pau u hp
    simp only [Caller.potential, hp, Caller.attemptMs] at hpot ⊢
    omega
  | waiting => simp [hp] at hex
  | done r => simp [hp] at hex

/-- … and a free lock with parked callers is handed over at once: time cannot pass in that situation -/
theorem free_lock_handed_over (s : RSys) (dt : Nat) (hdt : 0 < dt) (hf : s.holder = none) (hw : s.waitq ≠ []) :
    enabled true s (.tick dt) = false := by
  have : s.waitq.isEmpty = false := by cases h : s.waitq <;> simp_all
  simp [enabled, dueBy, hf, this]; omega

/-- the gate of the five user-facing entry points, as a decision: nothing is sent unless connected and pings are fresh
at the moment of the call (the check-then-wait window is finding D12, see DESIGN) -/
def gatePasses (connected respondingToPings : Bool) : Bool := connected && respondingToPings

theorem gated_no_send (connected pings : Bool) (h : connected = false ∨ pings = false) : gatePasses connected pings = false := by
  rcases h with h | h <;> simp [gatePasses, h]

/-- non-vacuity: two callers; the first gets no reply, times out after 4 s, pauses 2 s, retries and is answered; the
second is parked meanwhile and served right after, in call order -/
def exRun : Option RSys := run true init
  ([.call 1 2 4000 2000, .pollStep 1 none, .call 2 1 4000 2000] ++
   (List.replicate 41 [Act.tick 100, .pollStep 1 none]).flatten ++
   [.tick 2000, .resume 1, .pollStep 1 (some 77), .handoff, .pollStep 2 (some 78)])
example : (exRun.map (fun s => (s.now, s.acquired, s.waitq, s.holder))) = some (6100, [1, 2], [], none) := by decide +kernel
example : ((exRun.bind (·.callers 1)).map (fun c => (c.sends, c.pc))) = some ([0, 6100], .done (some 77)) := by decide +kernel

/-! ### why "a caller holds the connection from its first attempt to its completion" is how the model above treats `get`

The transition system of `Model/Request.lean` gives the lock to one caller for ALL its attempts.  The skeleton of
`GeckoAsyncUdpProtocol.get` is regenerated from the source on every run; the analysis is sound for every trace (`scan_accepts`). -/
namespace LockShape
open GeckoModel.Coop GeckoModel.Generated.Skeletons

def isAcq (a : A) : Bool := a.kind == .acquired && a.name == "self.Lock"
def isRel (a : A) : Bool := a.kind == .release && a.name == "self.Lock"
def isSend (a : A) : Bool := a.kind == .call && a.name == "queue_send"

abbrev getSk := sk_driver_async_udp_protocol__GeckoAsyncUdpProtocol_get

/-- every transmission of a request happens while its caller holds the connection lock, and one call takes the lock ONCE (it is
not given up between the attempts, so a later caller cannot overtake an earlier one that is retrying) -/
theorem get_lock_shape : alwaysHeld isAcq isRel isSend getSk = true ∧ atMostOnce isAcq getSk = true := by decide +kernel

/-- … for EVERY trace of `get`: both monitors accept it -/
theorem get_traces_one_lock_bracket (t : List Ev) (o : Out) (h : Run getSk t o) :
    (runMon (heldMon isAcq isRel isSend) 0 t).isSome = true ∧ (runMon (onceMon isAcq) 0 t).isSome = true :=
  ⟨scan_accepts _ 4 getSk 0 get_lock_shape.1 t o h, scan_accepts _ 4 getSk 0 get_lock_shape.2 t o h⟩

/-- non-vacuity: `get` does transmit and does take the lock -/
example : "queue_send" ∈ actions .call getSk ∧ "self.Lock" ∈ actions .acquired getSk := by decide +kernel

/-- non-vacuity: a lock taken per attempt (inside the retry loop) is rejected -/
example : atMostOnce isAcq (.loop (.seq (.ev (.act ⟨.acquired, "self.Lock"⟩))
    (.seq (.ev (.act ⟨.call, "queue_send"⟩)) (.seq (.ev (.act ⟨.release, "self.Lock"⟩)) (.ev (.aw "config_sleep")))))) = false := by
  decide +kernel

abbrev structGetSk := sk_driver_async_spastruct__GeckoAsyncStructure_get

def attemptStarts (a : A) : Bool := a.kind == .brT && a.name == "retry_count > 0"
def budgetPaid (a : A) : Bool := a.kind == .set && a.name == "retry_count"

/-- **every attempt consumes retry budget**, in the single-reply request AND in the multi-segment one (the status-block transfer):
on every path from the start of one attempt to the start of the next, `retry_count` is assigned - whether the attempt ended with a
timeout or, in the multi-segment request, with the final segment arriving out of sequence.  The multi-segment request holds the
same lock in the same shape -/
theorem every_attempt_consumes_budget :
    everyIterationPays attemptStarts budgetPaid getSk = true ∧ everyIterationPays attemptStarts budgetPaid structGetSk = true ∧
    alwaysHeld (fun a => a.kind == .acquired && a.name == "protocol.Lock") (fun a => a.kind == .release && a.name == "protocol.Lock") isSend structGetSk = true ∧
    atMostOnce (fun a => a.kind == .acquired && a.name == "protocol.Lock") structGetSk = true := by decide +kernel

theorem every_attempt_consumes_budget_traces (sk : Sk) (h : sk = getSk ∨ sk = structGetSk) (t : List Ev) (o : Out) (hr : Run sk t o) :
    (runMon (owesMon attemptStarts budgetPaid) 0 t).isSome = true := by
  rcases h with rfl | rfl
  · exact scan_accepts _ 4 _ 0 every_attempt_consumes_budget.1 t o hr
  · exact scan_accepts _ 4 _ 0 every_attempt_consumes_budget.2.1 t o hr

/-- non-vacuity: both loops have the marker and the payment; a decrement in the timeout branch only is rejected -/
example : "retry_count > 0" ∈ actions .brT structGetSk ∧ "retry_count" ∈ actions .set structGetSk ∧ "retry_count" ∈ actions .set getSk := by
  decide +kernel

example : everyIterationPays attemptStarts budgetPaid
    (.loop (.seq (.ev (.act ⟨.brT, "retry_count > 0"⟩))
      (.alt (.seq (.ev (.act ⟨.brF, "await request.wait_for_response(protocol)"⟩)) (.ev (.act ⟨.set, "retry_count"⟩)))
            (.ev (.act ⟨.brT, "request.next == 0"⟩))))) = false := by decide +kernel

/-- the two requests name the one connection lock differently (`self.Lock` inside the protocol, `protocol.Lock` from the structure) -/
def lockAcq (a : A) : Bool := a.kind == .acquired && (a.name == "self.Lock" || a.name == "protocol.Lock")
def lockRel (a : A) : Bool := a.kind == .release && (a.name == "self.Lock" || a.name == "protocol.Lock")

theorem both_gets_send_under_the_lock : alwaysHeld lockAcq lockRel isSend getSk = true ∧ alwaysHeld lockAcq lockRel isSend structGetSk = true := by
  decide +kernel

/-- **one request in flight, for ANY number of concurrent callers of either request and ANY interleaving**: whenever the tasks run
traces of `protocol.get` / `struct.get` and the lock is a lock (it is acquired only while nobody holds it), every transmission in the
global trace is made by the task that holds the connection lock at that moment (`lock_mutex`) -/
theorem one_request_in_flight (task : Nat → Sk) (h : ∀ j, task j = getSk ∨ task j = structGetSk)
    (locals : Nat → List Ev) (hrun : ∀ j, ∃ o, Run (task j) (locals j) o) (g : List (Nat × Ev)) (hi : Inter locals g)
    (hl : LockRespecting lockAcq lockRel none g) : InnerByHolder lockAcq lockRel isSend none g :=
  lock_mutex_of_skeletons lockAcq lockRel isSend task
    (fun j => by rcases h j with e | e <;> rw [e] <;> first | exact both_gets_send_under_the_lock.1 | exact both_gets_send_under_the_lock.2)
    locals hrun g hi hl

/-- **who transmits at all**: among all 58 coroutines of the source tree exactly four call `queue_send` - the two requests above
(always under the lock), the discovery broadcast (before there is a connection) and the partial-update handler (its STATQ is an
acknowledgement, not a request, and is not retried).  Every REQUEST of a connection therefore goes through one of the two gets -/
theorem transmitting_coroutines :
    (all.filter fun p => (actions .call p.2).contains "queue_send").map (fun p => (p.1, alwaysHeld lockAcq lockRel isSend p.2)) =
      [("async_locator.py:GeckoAsyncLocator._broadcast_loop", false),
       ("driver/async_spastruct.py:GeckoAsyncStructure.get", true),
       ("driver/async_udp_protocol.py:GeckoAsyncUdpProtocol.get", true),
       ("driver/protocol/statusblock.py:GeckoAsyncPartialStatusBlockProtocolHandler.async_handle", false)] := by decide +kernel

/-- **a request's clock is its own**: over the regenerated skeletons of the bookkeeping every handler inherits, `age` reads only the
monotonic clock, `_reset_timeout` writes only the handler's start time, `handled` / `async_handled` restart that clock and call the
handler's own callback, `retry` spends the handler's own budget - nothing another handler or another datagram does can keep an
unanswered attempt alive (the timeout that `holder_time_bounded` counts on) -/
theorem request_clock_is_the_handlers_own :
    [sk_driver_udp_protocol_handler__GeckoUdpProtocolHandler_age, sk_driver_udp_protocol_handler__GeckoUdpProtocolHandler_has_timedout,
     sk_driver_udp_protocol_handler__GeckoUdpProtocolHandler__reset_timeout, sk_driver_udp_protocol_handler__GeckoUdpProtocolHandler_handled,
     sk_driver_udp_protocol_handler__GeckoUdpProtocolHandler_async_handled, sk_driver_udp_protocol_handler__GeckoUdpProtocolHandler_retry].map
      (fun sk => (selfStateWritten sk, actions .call sk)) =
    [([], ["time.monotonic"]), ([], []), (["self._start_time"], ["time.monotonic"]), ([], ["self._reset_timeout", "self._on_handled"]),
     ([], ["self._reset_timeout"]), (["self._retry_count"], ["self._reset_timeout", "queue_send"])] := by decide +kernel

end LockShape

/-- **the unwrapper forgets the previous datagram** (over the regenerated skeleton of `GeckoPacketProtocolHandler.handle`, the one
long-lived object every framed datagram of a connection passes through): EVERY normal end of `handle` has assigned both the
addressing (`_parms`) and the content (`_packet_content`) from the datagram in hand - there is no path (a malformed framing, a
missing section) that returns with what the PREVIOUS datagram left there, which the consumer loop would then hand on as if it had
just arrived -/
theorem unwrapper_overwrites_its_fields_for_every_datagram :
    GeckoModel.Coop.everyNormalEndDid (GeckoModel.Coop.isSetOf "self._parms") GeckoModel.Generated.Skeletons.sk_driver_protocol_packet__GeckoPacketProtocolHandler_handle = true ∧
    GeckoModel.Coop.everyNormalEndDid (GeckoModel.Coop.isSetOf "self._packet_content") GeckoModel.Generated.Skeletons.sk_driver_protocol_packet__GeckoPacketProtocolHandler_handle = true := by
  decide +kernel

/-- the same over traces: whatever path `handle` takes, if it ends normally it has assigned both fields -/
theorem unwrapper_overwrites_its_fields_traces {t : List GeckoModel.Coop.Ev} {o : GeckoModel.Coop.Out}
    (h : GeckoModel.Coop.Run GeckoModel.Generated.Skeletons.sk_driver_protocol_packet__GeckoPacketProtocolHandler_handle t o) (ho : o = .fall ∨ o = .ret) :
    (∃ a, GeckoModel.Coop.Ev.act a ∈ t ∧ GeckoModel.Coop.isSetOf "self._parms" a = true) ∧ (∃ a, GeckoModel.Coop.Ev.act a ∈ t ∧ GeckoModel.Coop.isSetOf "self._packet_content" a = true) :=
  ⟨GeckoModel.Coop.everyNormalEndDid_sound unwrapper_overwrites_its_fields_for_every_datagram.1 h ho,
   GeckoModel.Coop.everyNormalEndDid_sound unwrapper_overwrites_its_fields_for_every_datagram.2 h ho⟩

/-- non-vacuity: an early return for a malformed packet is a path that keeps the old fields -/
example : GeckoModel.Coop.everyNormalEndDid (GeckoModel.Coop.isSetOf "self._parms")
    (.seq (.alt (.seq (.ev (.act ⟨.brT, "parts is None"⟩)) .exit) (.ev (.act ⟨.brF, "parts is None"⟩))) (.ev (.act ⟨.set, "self._parms"⟩))) = false := by
  decide +kernel

end GeckoModel.C06
