/-
C02 — Pack-table items: write-then-read returns the value, no other bit changes.

Model: `Model/Accessor.lean` (hand, tied by correspondence) over the generated shift/mask/merge arithmetic
`Generated.rawExtract / mergeSync / mergeAsync` (translated from accessor.py on every run).
Quantifiers: every item satisfying the decidable `Item.WF` (all shipped items do, except the three of finding D9:
`C18.all_modules_ok`), every 1024-byte block, every value of the item's domain.
-/
import GeckoModel.Proofs.AccessorFrame
import GeckoModel.Properties.C18
import GeckoModel.Proofs.Coop
import GeckoModel.Proofs.CoopEquiv
import GeckoModel.Generated.Skeletons

import GeckoModel.Model.Cancel
namespace GeckoModel.C02
open GeckoModel GeckoModel.Generated GeckoModel.Bits

/-- the blocking and the awaitable write path perform the same merge (both translated from the source) -/
theorem sync_async_same_merge : mergeSync = mergeAsync := mergeSync_eq_mergeAsync

/-- … hence emit identical device writes, for every item, block and value -/
theorem sync_async_same (it : Item) (b : Block) (v : Value) : it.encode b v = it.encodeAsync b v := by
  unfold Item.encode Item.encodeAsync; rw [sync_async_same_merge]

/-- **write-then-read**: for a well-formed writable item, any 1024-byte block and any value whose stored number `nv`
fits the field, the write is emitted, the spa can apply it, the block keeps its size, and the item then reads `nv` -/
theorem read_after_write (it : Item) (hw : it.WF) (b : Block) (hb : b.length = blockSize)
    (v : Value) (nv : Nat) (hraw : it.toRaw v = .ok nv) (hdom : nv < it.capacity) (hrw : it.rw.isSome = true) :
    ∃ w b', it.encode b v = .ok w ∧ it.encodeAsync b v = .ok w ∧ applyWrite b w = some b' ∧ b'.length = blockSize ∧
      it.rawRead b' = some nv ∧ it.decode b' = it.decodeRaw nv := by
  obtain ⟨w, b', h1, _, _, h2, h3, h4⟩ := it.raw_read_after_write hw.geom b hb v nv hraw hdom hrw
  exact ⟨w, b', h1, by rw [← sync_async_same]; exact h1, h2, h3, h4, by simp [Item.decode, h4]⟩

/-! value-level corollaries: what `decodeRaw nv` is for each kind of domain value -/

theorem idxOf?_getElem? (l : List String) (s : String) (i : Nat) (h : l.idxOf? s = some i) : l[i]? = some s ∧ i < l.length := by
  induction l generalizing i with
  | nil => simp [List.idxOf?] at h
  | cons x xs ih =>
    rw [List.idxOf?_cons] at h
    split at h
    · rename_i hx; cases h; simp_all
    · simp only [Option.map_eq_some_iff] at h
      obtain ⟨j, hj, rfl⟩ := h
      have := ih j hj
      refine ⟨?_, by simp; exact this.2⟩
      simpa using this.1

/-- every enum label reads back as itself (duplicated labels: the first occurrence is stored, and reads as an equal
string) -/
theorem enum_label_roundtrip (it : Item) (hk : it.kind = .enum) (hl : it.hasLabels = true) (s : String) (hs : s ∈ it.labels) :
    ∃ i, it.toRaw (.str s) = .ok i ∧ i < it.labels.length ∧ it.decodeRaw i = .ok (.str s) := by
  have : ∃ i, it.labels.idxOf? s = some i := by
    cases h : it.labels.idxOf? s with
    | some i => exact ⟨i, rfl⟩
    | none => rw [List.idxOf?_eq_none_iff] at h; exact absurd hs h
  obtain ⟨i, hi⟩ := this
  have := idxOf?_getElem? _ _ _ hi
  exact ⟨i, by simp [Item.toRaw, hk, hl, hi], this.2, by simp [Item.decodeRaw, hk, hl, this.1]⟩

theorem bool_roundtrip (it : Item) (hk : it.kind = .bool) (x : Bool) :
    it.toRaw (.bool x) = .ok (if x then 1 else 0) ∧ it.decodeRaw (if x then 1 else 0) = .ok (.bool x) := by
  cases x <;> simp [Item.toRaw, Item.decodeRaw, hk]

theorem number_roundtrip (it : Item) (hk : it.kind = .byte ∨ it.kind = .word) (n : Nat) :
    it.toRaw (.int n) = .ok n ∧ it.decodeRaw n = .ok (.int n) := by
  rcases hk with hk | hk <;> simp [Item.toRaw, Item.decodeRaw, hk]

/-- **whole statement for enums** (the bulk of the tables): every label of a well-formed writable enum item, written
into any block, reads back as that label -/
theorem enum_write_then_read (it : Item) (hw : it.WF) (hk : it.kind = .enum) (b : Block) (hb : b.length = blockSize)
    (s : String) (hs : s ∈ it.labels) (hrw : it.rw.isSome = true) :
    ∃ w b', it.encode b (.str s) = .ok w ∧ applyWrite b w = some b' ∧ it.decode b' = .ok (.str s) := by
  have hw0 := hw
  obtain ⟨_, _, _, _, he, _⟩ := hw
  obtain ⟨hl, hcap⟩ := he hk
  obtain ⟨i, h1, h2, h3⟩ := enum_label_roundtrip it hk hl s hs
  obtain ⟨w, b', e1, _, e2, _, _, e3⟩ := read_after_write it hw0 b hb (.str s) i h1 (by omega) hrw
  exact ⟨w, b', e1, e2, by rw [e3, h3]⟩

theorem bool_write_then_read (it : Item) (hw : it.WF) (hk : it.kind = .bool) (b : Block) (hb : b.length = blockSize)
    (x : Bool) (hrw : it.rw.isSome = true) :
    ∃ w b', it.encode b (.bool x) = .ok w ∧ applyWrite b w = some b' ∧ it.decode b' = .ok (.bool x) := by
  obtain ⟨h1, h2⟩ := bool_roundtrip it hk x
  have hcap : (if x then 1 else 0) < it.capacity := by
    unfold Item.capacity
    cases hbp : it.bitpos with
    | none => simp only; have := hw.geom.len12; rcases this with h | h <;> rw [h] <;> cases x <;> simp
    | some p =>
      obtain ⟨k, _, hm, hk1, _⟩ := hw.geom.bits p hbp
      simp only; rw [hm]
      have : 2 ≤ 2 ^ k := by
        calc 2 = 2 ^ 1 := by simp
          _ ≤ 2 ^ k := Nat.pow_le_pow_right (by omega) hk1
      cases x <;> simp <;> omega
  obtain ⟨w, b', e1, _, e2, _, _, e3⟩ := read_after_write it hw b hb (.bool x) _ h1 hcap hrw
  exact ⟨w, b', e1, e2, by rw [e3, h2]⟩

theorem number_write_then_read (it : Item) (hw : it.WF) (hk : it.kind = .byte ∨ it.kind = .word) (b : Block)
    (hb : b.length = blockSize) (n : Nat) (hn : n < 256 ^ it.len) (hrw : it.rw.isSome = true) :
    ∃ w b', it.encode b (.int n) = .ok w ∧ applyWrite b w = some b' ∧ it.decode b' = .ok (.int n) := by
  obtain ⟨h1, h2⟩ := number_roundtrip it hk n
  have hbp : it.bitpos = none := by
    obtain ⟨_, _, _, _, _, h6, h7, _⟩ := hw
    rcases hk with hk | hk
    · exact (h7 hk).2
    · exact (h6 (Or.inl hk)).2
  have hcap : n < it.capacity := by unfold Item.capacity; rw [hbp]; exact hn
  obtain ⟨w, b', e1, _, e2, _, _, e3⟩ := read_after_write it hw b hb (.int n) n h1 hcap hrw
  exact ⟨w, b', e1, e2, by rw [e3, h2]⟩

/-- a time `h:m` (both below 256) stores `h*256+m` and reads back zero-padded -/
theorem time_raw_roundtrip (it : Item) (hk : it.kind = .time) (h m : Nat) (_hh : h < 256) (hm : m < 256) :
    it.decodeRaw (h * 256 + m % 256) = .ok (.str (pad2 h ++ ":" ++ pad2 m)) := by
  have e1 : (h * 256 + m % 256) / 256 = h := by omega
  have e2 : (h * 256 + m % 256) % 256 = m := by omega
  simp [Item.decodeRaw, hk, e1, e2]

/-- **no other bit changes**: every (byte, bit) position outside the item's own field is the same before and after -/
theorem write_touches_only_own_field (it : Item) (hw : it.WF) (b : Block) (hb : b.length = blockSize)
    (v : Value) (w : DevWrite) (b' : Block) (he : it.encode b v = .ok w) (ha : applyWrite b w = some b') :
    ∀ i j, it.owns i j = false → blockBit b' i j = blockBit b i j := by
  unfold Item.encode Item.encodeWith at he
  split at he
  · cases he
  · split at he
    · cases he
    · rename_i nv _
      split at he
      · cases he
      · rename_i e hex
        apply it.write_frame hw.geom b b' hb nv w _ ha
        cases hbp : it.bitpos with
        | none => simp only [hbp] at he ⊢; cases he; rfl
        | some p => simp only [hbp] at he ⊢; cases he; exact ⟨e, hex, rfl⟩

/-- **no other item changes**: an item whose field shares no bit with the written item decodes to the same value -/
theorem other_items_unchanged (it it' : Item) (hw : it.WF) (hw' : it'.WF) (b : Block) (hb : b.length = blockSize)
    (v : Value) (w : DevWrite) (b' : Block) (he : it.encode b v = .ok w) (ha : applyWrite b w = some b')
    (hdisj : ∀ i j, ¬ (it.owns i j = true ∧ it'.owns i j = true)) :
    it'.decode b' = it'.decode b := by
  have hframe := write_touches_only_own_field it hw b hb v w b' he ha
  have hlen : b'.length = blockSize := by
    unfold applyWrite at ha
    split at ha
    · rename_i bytes hpk
      cases ha
      have hwp : w.pos = it.pos ∧ w.len = it.len := by
        unfold Item.encode Item.encodeWith at he
        split at he
        · cases he
        · split at he
          · cases he
          · split at he
            · cases he
            · cases hbp : it.bitpos <;> simp only [hbp] at he <;> cases he <;> exact ⟨rfl, rfl⟩
      rw [replaceSeg_length]; exact hb
      rw [packBE_length _ _ _ hpk, hwp.1, hwp.2, hb]; exact hw.geom.inBlock
    · cases ha
  have : it'.rawRead b' = it'.rawRead b := by
    apply it'.rawRead_congr hw'.geom b' b (by rw [hlen]; exact hw'.geom.inBlock) (by rw [hb]; exact hw'.geom.inBlock)
    intro i j hown
    apply hframe
    cases h : it.owns i j with
    | false => rfl
    | true => exact absurd ⟨h, hown⟩ (hdisj i j)
  simp [Item.decode, this]

/-- **items without write permission refuse writes**, whatever the value and block, on both paths -/
theorem readonly_refuses (it : Item) (b : Block) (v : Value) (h : it.rw = none) :
    it.encode b v = .error .notWritable ∧ it.encodeAsync b v = .error .notWritable := by
  simp [Item.encode, Item.encodeAsync, Item.encodeWith, h]

/-- the permission check is the first statement of both write paths in the source (syntactic fact from the translator) -/
theorem write_guard_first : writeGuardFirst = true := by decide

theorem parseDec_toString (n : Nat) : parseDec (toString n) = some n := by
  unfold parseDec
  have hl : (toString n).toList = Nat.toDigits 10 n := by simp
  simp only [hl]
  have hne : (Nat.toDigits 10 n).isEmpty = false := by
    cases h : Nat.toDigits 10 n with
    | nil => exact absurd h Nat.toDigits_ne_nil
    | cons _ _ => rfl
  have hall : (Nat.toDigits 10 n).all Char.isDigit = true := by
    rw [List.all_eq_true]; intro c hc; exact Nat.isDigit_of_mem_toDigits (by decide) (by decide) hc
  simp [hne, hall]

/-- **string forms**: the decimal string of a number is accepted and stores the same number; "true" in any letter case
stores 1 and any other string 0 -/
theorem string_forms_number (it : Item) (hk : it.kind = .byte ∨ it.kind = .word) (n : Nat) :
    it.toRaw (.str (toString n)) = it.toRaw (.int n) := by
  have := parseDec_toString n
  simp only [Nat.toString_eq_repr] at this
  rcases hk with hk | hk <;> simp [Item.toRaw, hk, this]

theorem string_forms_bool (it : Item) (hk : it.kind = .bool) :
    it.toRaw (.str "true") = .ok 1 ∧ it.toRaw (.str "True") = .ok 1 ∧ it.toRaw (.str "TRUE") = .ok 1 ∧
    it.toRaw (.str "false") = .ok 0 ∧ it.toRaw (.str "") = .ok 0 ∧
    it.toRaw (.bool true) = .ok 1 ∧ it.toRaw (.bool false) = .ok 0 := by
  have e1 : "true".toLower = "true" := by decide +kernel
  have e2 : "True".toLower = "true" := by decide +kernel
  have e3 : "TRUE".toLower = "true" := by decide +kernel
  have e4 : "false".toLower ≠ "true" := by decide +kernel
  have e5 : "".toLower ≠ "true" := by decide +kernel
  simp [Item.toRaw, hk, e1, e2, e3, e4, e5]

/-- **every shipped item** outside the three of finding D9 satisfies the hypothesis `WF` of the theorems above
(kernel evaluation over the whole regenerated table, via C18) -/
theorem shipped_items_wf : ∀ m ∈ Packs.allModules, ∀ it ∈ m.items, (m.file, it.tag) ∈ knownIllFormed ∨ it.WF :=
  fun m hm => (C18.all_modules_ok m hm).1

/-- non-vacuity: a shipped 2-bit enum (inyt-log-50 `UdP1`-like shape) on a concrete block -/
def exItem : Item := ⟨"X", "X", 300, .enum, 1, some 2, 3, ["OFF", "LO", "HI"], true, some 3, some "ALL"⟩
example : exItem.WF := by decide
example : exItem.owns 300 2 = true ∧ exItem.owns 300 3 = true ∧ exItem.owns 300 4 = false ∧ exItem.owns 301 2 = false := by decide
example : (exItem.encode (List.replicate 1024 0xFF) (.str "LO")).toOption = some ⟨300, 1, 0xF7⟩ := by decide +kernel

/-! ### the two write paths are one piece of code -/

namespace Paths
open GeckoModel.Generated

/-- how the awaitable names map to the blocking ones -/
def ren (n : String) : String :=
  if n == "self.struct.async_set_value" then "self.struct.set_value"
  else if n == "super().async_set_value" then "super()._set_value"
  else if n == "self._on_async_set_value" then "self._on_set_value" else n

/-- **the blocking and the awaitable write path are the same code**: over the regenerated skeletons of the real methods, the
awaitable `async_set_value` of an item (plain and temperature) and of the structure, with its one await turned into a call,
IS the blocking `_set_value` / `set_value` - same tests, same conversions, same merge, in the same order; the only difference is
that the hand-off is awaited.  In particular neither path has a test or a piece of state the other lacks (no "skip this write"
on one path only, no memory of earlier writes) -/
theorem write_paths_are_the_same_code :
    Coop.blockingTwin ren Skeletons.sk_driver_accessor__GeckoStructAccessor_async_set_value =
      Skeletons.sk_driver_accessor__GeckoStructAccessor__set_value ∧
    Coop.rassoc (Coop.blockingTwin ren Skeletons.sk_driver_accessor__GeckoTempStructAccessor_async_set_value) =
      Coop.rassoc Skeletons.sk_driver_accessor__GeckoTempStructAccessor__set_value ∧
    Coop.blockingTwin ren Skeletons.sk_driver_async_spastruct__GeckoAsyncStructure_async_set_value =
      Skeletons.sk_driver_spastruct__GeckoStructure_set_value ∧
    Skeletons.sk_driver_async_spastruct__GeckoAsyncStructure_set_value = Skeletons.sk_driver_spastruct__GeckoStructure_set_value := by
  decide +kernel

/-- and therefore in behaviour: every trace of the blocking item write IS a trace of the awaitable one (its await completing), event
for event and with the same way of ending - `twin_refines` instantiated through the equality above; for the temperature item up to
the association of `;`, which does not change traces (`rassoc_equiv`) -/
theorem blocking_write_refines_awaitable {t' : List Coop.Ev} {o : Coop.Out}
    (h : Coop.Run Skeletons.sk_driver_accessor__GeckoStructAccessor__set_value t' o) :
    ∃ t, Coop.Run Skeletons.sk_driver_accessor__GeckoStructAccessor_async_set_value t o ∧ t' = t.map (Coop.twinEv ren) := by
  rw [← write_paths_are_the_same_code.1] at h
  exact Coop.twin_refines ren _ _ _ h

theorem blocking_temperature_write_refines_awaitable {t' : List Coop.Ev} {o : Coop.Out}
    (h : Coop.Run Skeletons.sk_driver_accessor__GeckoTempStructAccessor__set_value t' o) :
    ∃ t, Coop.Run Skeletons.sk_driver_accessor__GeckoTempStructAccessor_async_set_value t o ∧ t' = t.map (Coop.twinEv ren) := by
  have h1 := (Coop.rassoc_equiv _ t' o).2 h
  rw [← write_paths_are_the_same_code.2.1] at h1
  exact Coop.twin_refines ren _ _ _ ((Coop.rassoc_equiv _ t' o).1 h1)

/-- the structures' hand-offs are pure delegation and the items' write methods keep nothing on the item: no attribute of `self` is
assigned on any of the six methods, so a write cannot be influenced by an earlier one (whether that one completed, failed or was
cancelled) -/
theorem write_paths_keep_no_state :
    [Skeletons.sk_driver_accessor__GeckoStructAccessor__set_value, Skeletons.sk_driver_accessor__GeckoStructAccessor_async_set_value,
     Skeletons.sk_driver_accessor__GeckoTempStructAccessor__set_value, Skeletons.sk_driver_accessor__GeckoTempStructAccessor_async_set_value,
     Skeletons.sk_driver_spastruct__GeckoStructure_set_value, Skeletons.sk_driver_async_spastruct__GeckoAsyncStructure_set_value,
     Skeletons.sk_driver_async_spastruct__GeckoAsyncStructure_async_set_value].all
      (fun sk => Coop.selfStateWritten sk == [] && (Coop.actions .del sk) == []) = true ∧
    Coop.awaitsIn Skeletons.sk_driver_async_spastruct__GeckoAsyncStructure_async_set_value = ["self._on_async_set_value"] ∧
    Coop.actions .brT Skeletons.sk_driver_async_spastruct__GeckoAsyncStructure_async_set_value = [] := by decide +kernel

/-- every normal end of the item's write method has handed the write over: no path returns without the hand-off -/
theorem every_write_is_handed_over :
    Coop.everyNormalEndDid (fun a => a.kind == .call && a.name == "self.struct.set_value")
      Skeletons.sk_driver_accessor__GeckoStructAccessor__set_value = true := by decide +kernel

/-- non-vacuity: a remembered write is state, and a guard before the hand-off is a path without it -/
example : Coop.selfStateWritten (.seq (.ev (.act ⟨.call, "self._writes_in_flight.add"⟩)) (.ev (.act ⟨.set, "self._last_write"⟩))) = ["self._last_write"] ∧
    Coop.everyNormalEndDid (fun a => a.kind == .call && a.name == "self.struct.set_value")
      (.alt (.seq (.ev (.act ⟨.brT, "newvalue == existing"⟩)) .exit) (.ev (.act ⟨.call, "self.struct.set_value"⟩))) = false := by decide +kernel

end Paths

/-! ### the blocking client's session glue -/
namespace Session
open GeckoModel.Generated

/-- **every connection of the blocking client gets declaration objects of its own** (over the regenerated skeleton of
`GeckoSpa._on_config_received`): on every path that ends normally the pack, the config and the log declaration classes are each
INSTANTIATED (once each, in this order, over this connection's structure) before the full block is requested - none is looked up in
something that outlives the connection (rounds 14 and 15: declaration objects kept per process read another connection's block) -/
theorem blocking_declarations_are_made_for_each_connection :
    Coop.everyNormalEndDid (fun a => a.kind == .call && a.name == "GeckoPack") Skeletons.sk_spa__GeckoSpa__on_config_received = true ∧
    Coop.everyNormalEndDid (fun a => a.kind == .call && a.name == "GeckoConfigStruct") Skeletons.sk_spa__GeckoSpa__on_config_received = true ∧
    Coop.everyNormalEndDid (fun a => a.kind == .call && a.name == "GeckoLogStruct") Skeletons.sk_spa__GeckoSpa__on_config_received = true ∧
    Coop.everyNormalEndDid (fun a => a.kind == .call && a.name == "self.struct.retry_request") Skeletons.sk_spa__GeckoSpa__on_config_received = true ∧
    ((Coop.actions .call Skeletons.sk_spa__GeckoSpa__on_config_received).filter fun n => n == "GeckoPack" || n == "GeckoConfigStruct" || n == "GeckoLogStruct") =
      ["GeckoPack", "GeckoConfigStruct", "GeckoLogStruct"] := by decide +kernel

/-- **every write the blocking structure hands over is sent**: `GeckoSpa._on_set_value` has no early return - on its only path it
registers the acknowledgement handler and queues ONE set-value command (over the regenerated skeleton; round 15: a command equal
to the client's mirror was dropped while the report of the previous write was still under way) -/
theorem every_blocking_set_value_is_sent :
    Coop.everyNormalEndDid (fun a => a.kind == .call && a.name == "queue_send") Skeletons.sk_spa__GeckoSpa__on_set_value = true ∧
    Coop.everyNormalEndDid (fun a => a.kind == .call && a.name == "self.add_receive_handler") Skeletons.sk_spa__GeckoSpa__on_set_value = true ∧
    (Coop.actions .call Skeletons.sk_spa__GeckoSpa__on_set_value).count "queue_send" = 1 ∧
    Coop.outs Skeletons.sk_spa__GeckoSpa__on_set_value = [.fall] := by decide +kernel
end Session

end GeckoModel.C02
