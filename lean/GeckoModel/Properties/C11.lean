/-
C11 — Every shipped pack table yields a facade whose read-only API is total.

Model: `Model/Facade.lean` (presence profile, constructor, every public read-only member of every reachable object, as total
functions into `Except FErr _`).  Constants and the watercare range-guard operator: `Generated/FacadeConsts.lean`.  Shipped
combinations: `Generated/C11CombosIndex.lean` (all platform x config x log combinations, referring to the per-module tables
of `Generated/Packs`; one kernel-evaluated obligation per table, composed per combination).

Findings visible in this file (the statements say exactly where the property fails today):
* D5a  18 shipped combinations cannot build a facade (`knownUnbuildable`, `not_req_fails`, `listed_combinations_fail`);
* D5b  `GeckoWaterCare.__str__` raises IndexError for mode 5 (`watercare_mode5_raises`; full statement proved for the
       corrected guard in `watercare_total_if_fixed`), and through the eager `{sender}` formatting of
       `Observable._on_change` so does `change_watercare_mode(5)` (`watercare_change_mode5_raises`).  These theorems are
       stated relative to the guard operator read from the source, so they keep building when the fix lands;
* (latent, not part of the public surface) the threaded facade keeps its reminders manager private; after any reminder
       report its `get_reminder` would raise AttributeError on the tuples `_on_reminders` stores (`sync_get_reminder_raises`).
-/
import GeckoModel.Proofs.FacadeMembers
import GeckoModel.Proofs.FacadeParts
import GeckoModel.Generated.C11CombosIndex

namespace GeckoModel.C11
open GeckoModel GeckoModel.Facade
open GeckoModel.Generated GeckoModel.Generated.FacadeConsts GeckoModel.Generated.C11Combos

/-- **total API**: under the decidable requirement `Req` on the profile (which keys must exist, with which kind of item), for
ALL 1024-byte blocks `b0` (at construction) and `b` (at any later time): the constructor succeeds, and every public read-only
member of every object reachable from the facade — facade, heater, pumps, blowers, lights, their state sensors, sensors,
binary sensors, error sensor, eco switch, watercare, reminders, keypad; `__str__`, `__repr__`, `monitor`, `devices`,
`get_device(k)` for every `k`, `all_automation_devices`, ... — evaluates without raising.  Both facade classes (`id.flavor`). -/
theorem total_api (P : Profile) (id : Ident) (h : Req P) (b0 b : Block) (hb0 : b0.length = blockSize)
    (hb : b.length = blockSize) :
    ∃ f, construct P id b0 = .ok f ∧
      ∀ (o : Obj) (m : Mem) (r : Except FErr RV), evalObj f { block := b } o m = some r → ∃ v, r = .ok v := by
  obtain ⟨f, hf, _, _, g⟩ := construct_ok P id b0 h.facts hb0
  refine ⟨f, hf, ?_⟩
  intro o m r hr
  exact evalObj_ok f g { block := b } hb o m (fun _ _ => ⟨_, rfl⟩) r hr

/- FULL statement with the dynamic state (any watercare mode, any reminder report):
     ∀ d, d.block.length = blockSize → ∀ o m r, evalObj f d o m = some r → ∃ v, r = .ok v
   It is FALSE today: `watercare_mode5_raises` (D5b) is the witness.  Proved with exactly that situation excluded
   (`DynOk`: the member is not the watercare `__str__` on a mode it cannot render): -/
theorem total_api_dyn_partial (P : Profile) (id : Ident) (h : Req P) (b0 : Block) (hb0 : b0.length = blockSize) :
    ∃ f, construct P id b0 = .ok f ∧
      ∀ (d : Dyn), d.block.length = blockSize → ∀ (o : Obj) (m : Mem), DynOk d o m →
        ∀ r, evalObj f d o m = some r → ∃ v, r = .ok v := by
  obtain ⟨f, hf, _, _, g⟩ := construct_ok P id b0 h.facts hb0
  exact ⟨f, hf, fun d hd o m hdyn => evalObj_ok f g d hd o m hdyn⟩

/-- **Unknown is not a failure**: a stored value outside an enumeration's label list reads as "Unknown" -/
theorem unknown_not_fail (it : Item) (b : Block) (raw : Nat) (hk : it.kind = .enum) (hl : it.hasLabels = true)
    (hr : it.rawRead b = some raw) (hge : it.labels.length ≤ raw) : it.decode b = .ok (.str "Unknown") := by
  unfold Item.decode Item.decodeRaw
  rw [hr]
  simp only [hk, hl, if_true]
  rw [List.getElem?_eq_none hge]

/-- ... and so does the facade-level read of any enumeration item (any profile) -/
theorem unknown_not_fail_value (P : Profile) (it : Item) (b : Block) (raw : Nat) (hk : it.kind = .enum)
    (hl : it.hasLabels = true) (hr : it.rawRead b = some raw) (hge : it.labels.length ≤ raw) :
    P.value it b = .ok (.str "Unknown") := by
  unfold Profile.value
  rw [unknown_not_fail it b raw hk hl hr hge, hk]
  rfl

/-- reading a readable item out of a 1024-byte block never raises, whatever the bytes -/
theorem read_never_raises (it : Item) (b : Block) (hr : Item.Readable it) (hb : b.length = blockSize) :
    ∃ v, it.decode b = .ok v := decode_ok it b hr hb

/-! ### watercare: every mode byte and None -/

/- FULL statement:  ∀ mode : Option Int, (∃ s, wcStr mode = .ok s) ∧ (∃ s, wcMonitor mode = .ok s)
   FALSE today (D5b): the guard is `active_mode > len(WATERCARE_MODE_STRING)`, so mode 5 reaches the label lookup.
   The guard operator is read from the source on every run (`wcGuardStrict`); the hypothesis below excludes mode 5 only
   while the operator is `>`, so once the one-character fix lands it is vacuous and this IS the full statement. -/
theorem watercare_total_partial (mode : Option Int) (h : wcGuardStrict = true → mode ≠ some 5) :
    (∃ s, wcStr mode = .ok s) ∧ (∃ s, wcMonitor mode = .ok s) := by
  refine ⟨?_, wcMonitor_ok mode⟩
  have h5 : (watercareModes.length : Int) = 5 := by decide
  unfold wcStr
  cases hg : wcGuardStrict with
  | true => exact wcStrWith_true_ok mode (by rw [h5]; exact h hg)
  | false => exact wcStrWith_false_ok mode

/-- the witness: with the guard `>` (the code today) mode 5 raises IndexError in `__str__` ... -/
theorem watercare_mode5_raises (hg : wcGuardStrict = true) : wcStr (some 5) = .error .indexErr := by
  unfold wcStr
  rw [hg]
  decide +kernel

/-- ... and therefore, because `Observable._on_change` formats `{sender}` eagerly, in `change_watercare_mode(5)` -/
theorem watercare_change_mode5_raises (hg : wcGuardStrict = true) (hf : onChangeFormatsSender = true) (old : Option Int)
    (h : old ≠ some 5) : wcChange old (some 5) = .error .indexErr := by
  unfold wcChange
  rw [if_neg h, hf, if_pos rfl, watercare_mode5_raises hg]
  rfl

/-- the FULL statement holds for the one-character correction (`>=`): every mode, including None, 5, negative numbers -/
theorem watercare_total_if_fixed (mode : Option Int) :
    (∃ s, wcStrWith false mode = .ok s) ∧ (∃ s, wcMonitor mode = .ok s) :=
  ⟨wcStrWith_false_ok mode, wcMonitor_ok mode⟩

/-- every other member of the watercare object is total for every mode already today -/
theorem watercare_members_total (id : Ident) (mode : Option Int) (m : Mem) (hm : m ≠ .str_) :
    ∀ r, watercareMember id mode m = some r → ∃ v, r = .ok v :=
  watercareMember_ok_but_str id mode m hm

/-! ### reminders: every reminder list -/

/-- **async facade**: for every reminder report `rs` (any types, any day counts, any length, or no report yet) every member of
the reminders manager — including `get_reminder(t)` for every `t` — and of every Reminder object evaluates -/
theorem reminders_total (id : Ident) (hid : id.flavor = .async) (rems : Option (List (Nat × Int))) (m : Mem) :
    (∀ r, remindersMember id rems m = some r → ∃ v, r = .ok v) ∧
    (∀ rec : Nat × Int, ∀ r, reminderMember rec m = some r → ∃ v, r = .ok v) :=
  ⟨remindersMember_ok id rems m (Or.inl hid), fun rec => reminderMember_ok rec m⟩

/- The threaded facade publishes only the reminder LIST (`GeckoFacade.reminders`); its manager object `_reminders` is private.
   For that private object the same statement with `id.flavor = .sync` is false (`_on_reminders` stores tuples, `get_reminder`
   reads `.type` of them); proved for everything but `get_reminder`, with the witness: -/
theorem reminders_sync_partial (id : Ident) (rems : Option (List (Nat × Int))) (m : Mem) (hm : ∀ t, m ≠ .get_reminder t) :
    ∀ r, remindersMember id rems m = some r → ∃ v, r = .ok v :=
  remindersMember_ok id rems m (Or.inr (Or.inr hm))

theorem sync_get_reminder_raises (id : Ident) (hid : id.flavor = .sync) (rs : List (Nat × Int)) (t : Nat) :
    remindersMember id (some rs) (.get_reminder t) = some (.error .attrErr) := by
  simp only [remindersMember, getReminder, hid]

/-! ### the shipped tables -/

/-- the enumeration of combinations is the full platform x config x log product of the regenerated module headers -/
theorem combos_complete : allCombos.map Combo.names = enumCombos Packs.allModules := allCombos_complete

/-- **every shipped combination outside the exact list `knownUnbuildable` satisfies `Req`** (one kernel-evaluated obligation
per table over the whole table, composed per combination by `req_of_parts`) -/
theorem shipped_req : ∀ c ∈ allCombos, c.id ∉ knownUnbuildable → Req c.profile := allCombos_req

/-- hence: on every shipped combination outside the list, for all blocks, the facade builds and its read-only API is total -/
theorem shipped_total (c : Combo) (hc : c ∈ allCombos) (hk : c.id ∉ knownUnbuildable) (id : Ident) (b0 b : Block)
    (hb0 : b0.length = blockSize) (hb : b.length = blockSize) :
    ∃ f, construct c.profile id b0 = .ok f ∧
      ∀ (o : Obj) (m : Mem) (r : Except FErr RV), evalObj f { block := b } o m = some r → ∃ v, r = .ok v :=
  total_api c.profile id (shipped_req c hc hk) b0 b hb0 hb

/-- **the requirement is needed**: a profile lacking one of the five core keys cannot build a facade, whatever the block
(`KeyError` for TempUnits, `AttributeError` for the temperature sensors and for the missing eco switch) -/
theorem not_req_fails (P : Profile) (id : Ident) (b : Block) (h : reqCoreB P = false) : ∃ e, construct P id b = .error e := by
  unfold construct
  cases hh : buildHeater P with
  | error e => exact ⟨e, rfl⟩
  | ok heater =>
    -- the heater was built: the four heater keys exist, so it is EconActive that is missing
    have heco : P.lookup keyEconActive = none := by
      unfold buildHeater at hh
      simp only [reqCoreB] at h
      cases hu : P.lookup keyTempUnits with
      | none => rw [hu] at hh; cases hh
      | some u =>
        rw [hu] at hh
        cases hc : P.lookup keyDisplayedTempG <;> cases ht : P.lookup keySetpointG <;> cases hr : P.lookup keyRealSetpointG <;>
          rw [hc, ht, hr] at hh <;> simp only at hh <;> try (cases hh; done)
        rw [hu, hc, ht, hr] at h
        cases he : P.lookup keyEconActive with
        | none => rfl
        | some e => rw [he] at h; simp at h
    simp only
    repeat' (first | exact ⟨_, rfl⟩ | split)
    all_goals simp_all

/-- **the list is exact, not a blanket excuse**: the listed combinations are shipped combinations, their identities are
exactly `knownUnbuildable`, and on each of them the constructor fails for every block and both facade classes -/
theorem listed_combinations_fail :
    listedCombos.map Combo.id = knownUnbuildable ∧ (∀ c ∈ listedCombos, c ∈ allCombos) ∧
    ∀ c ∈ listedCombos, ∀ (id : Ident) (b : Block), ∃ e, construct c.profile id b = .error e :=
  ⟨listed_ids, listed_shipped, fun c hc id b => not_req_fails c.profile id b (listed_lack_core c hc)⟩

/-- the presence profile's lookup is the lookup in `dict(cfg.accessors, **log.accessors)` (log wins on duplicate keys) -/
theorem lookup_is_merged_dict (P : Profile) (k : String) :
    P.lookup k = (mergeItems P.cfg P.log).find? (fun x : Item => x.key == k) := lookup_eq_merge P k

/-! ### non-vacuity -/

/-- a small profile with one pump wired to output 1 -/
def demoProfile : Profile :=
  { cfg := [⟨"TempUnits", "TempUnits", 0, .enum, 1, some 0, 1, ["F", "C"], true, some 2, some "ALL"⟩,
            ⟨"SetpointG", "SetpointG", 1, .temp, 2, none, 0, [], false, none, some "ALL"⟩,
            ⟨"Out1", "Out1", 3, .enum, 1, none, 0, ["NA", "P1H", "P1L"], true, none, none⟩],
    log := [⟨"DisplayedTempG", "DisplayedTempG", 4, .temp, 2, none, 0, [], false, none, none⟩,
            ⟨"RealSetPointG", "RealSetPointG", 6, .temp, 2, none, 0, [], false, none, none⟩,
            ⟨"EconActive", "EconActive", 8, .bool, 1, some 0, 1, [], false, none, some "ALL"⟩,
            ⟨"UdP1", "UdP1", 9, .enum, 1, none, 0, ["OFF", "HI"], true, none, some "ALL"⟩,
            ⟨"P1", "P1", 10, .enum, 1, none, 0, ["OFF", "HIGH", "LOW"], true, none, none⟩,
            ⟨"SomeErr", "SomeErr", 11, .bool, 1, some 3, 1, [], false, none, none⟩],
    outputs := ["Out1"], devices := ["P1", "P2"], userDemands := ["UdP1"], errorKeys := ["SomeErr"] }

def demoIdent : Ident := { flavor := .async, uid := "uid", name := "spa" }
/-- zeros, except: Out1 = "P1H", P1 = 7 (outside its three labels), displayed temperature word 360, real set point 396 -/
def demoBlock : Block := (((List.replicate 1024 (0 : UInt8)).set 3 1).set 10 7 |>.set 4 1 |>.set 5 104 |>.set 6 1).set 7 140

example : Req demoProfile := by decide +kernel
example : demoBlock.length = blockSize := by decide +kernel
/-- the facade of the demo profile has one pump; its out-of-range state reads "Unknown", `is_on` is True, the heater is heating -/
example : (match construct demoProfile demoIdent demoBlock with
    | .ok f => decide (f.pumps.length = 1 ∧
        evalObj f { block := demoBlock } (.pump 0) .mode = some (.ok (.str "Unknown")) ∧
        evalObj f { block := demoBlock } (.pump 0) .is_on = some (.ok (.bool true)) ∧
        evalObj f { block := demoBlock } (.pump 0) .str_ = some (.ok (.str "Pump 1: Unknown")) ∧
        evalObj f { block := demoBlock } .heater .current_operation = some (.ok (.str "Heating")) ∧
        evalObj f { block := demoBlock } .facade .devices = some (.ok (.strs ["P1", "HEAT", "WATERCARE", "REMINDERS", "KEYPAD", "EconActive"])) ∧
        evalObj f { block := demoBlock } .facade (.get_device "P1") = some (.ok (.obj "GeckoPump")) ∧
        evalObj f { block := demoBlock } (.pump 3) .mode = none)
    | .error _ => false) = true := by decide +kernel
/-- the requirement bites: without EconActive the same profile cannot build (AttributeError on the None in the device list) -/
example : (match construct { demoProfile with log := demoProfile.log.filter (·.key != "EconActive") } demoIdent demoBlock with
    | .error .attrErr => true
    | _ => false) = true := by decide +kernel
/-- shipped: the list has 18 entries, there are 895 combinations, a concrete one satisfies `Req` -/
example : knownUnbuildable.length = 18 ∧ allCombos.length = 895 ∧ listedCombos.length = 18 := by decide +kernel
example : Req (mkProfile Packs.inyt_cfg_50 Packs.inyt_log_50) :=
  req_of_parts outputs_inyt _ _ part_inyt_cfg_50 part_inyt_log_50
/-- watercare: the partial theorem's hypothesis is met by 255 of the 256 mode bytes and None; reminders: a three-record report -/
example : wcStr (some 4) = .ok "WaterCare: Weekender" ∧ wcStr (some 6) = .ok "Unknown Water care mode (index:6)" ∧
    wcStr none = .ok "WaterCare: Waiting..." := by decide +kernel
example : wcStrWith true (some 5) = .error .indexErr ∧ wcStrWith false (some 5) = .ok "Unknown Water care mode (index:5)" := by
  decide +kernel
example : reminderMember (2, -3) .str_ = some (.ok (.str "CleanFilter overdue by 3 days")) ∧
    remindersMember demoIdent (some [(1, 5), (0, 0), (2, -3)]) .reminders = some (.ok (.list 2)) := by decide +kernel

end GeckoModel.C11
