/-
C16 — Sequence numbers: requests cycle 1..191, commands 192..255, never 0.

Every theorem below is about the *generated* definitions
`Generated.nextSeqAsync` / `Generated.nextSeqSync` (translated statement by statement from
`GeckoAsyncUdpProtocol.get_and_increment_sequence_counter` and
`GeckoUdpSocket.get_and_increment_sequence_counter`), their generated initial states, and the
generated table of call sites.  All call sequences, of any length, in any interleaving of
the two kinds, are covered by induction.
-/
import GeckoModel.Generated.SeqCounter
import GeckoModel.Proofs.SeqThreads
import GeckoModel.Model.Coop
import GeckoModel.Generated.Skeletons

namespace GeckoModel.C16
open GeckoModel.Generated

abbrev Next := SeqState → Bool → SeqState × Int

/-- results of a sequence of calls (`true` = command counter, `false` = protocol counter) -/
def results (next : Next) : SeqState → List Bool → List (Bool × Int)
  | _, [] => []
  | s, c :: cs => (c, (next s c).2) :: results next (next s c).1 cs

/-- the closed form: the k-th protocol call (k from 0) returns `1 + k % 191`,
    the k-th command call returns `192 + k % 64` -/
def specResults : Nat → Nat → List Bool → List (Bool × Int)
  | _, _, [] => []
  | np, nc, true :: cs => (true, 192 + ((nc : Int) % 64)) :: specResults np (nc + 1) cs
  | np, nc, false :: cs => (false, 1 + ((np : Int) % 191)) :: specResults (np + 1) nc cs

/-- invariant relating a counter state to the number of calls made so far -/
def Inv (s : SeqState) (np nc : Nat) : Prop :=
  0 ≤ s.proto ∧ s.proto ≤ 191 ∧ s.proto % 191 = (np : Int) % 191 ∧
  191 ≤ s.cmd ∧ s.cmd ≤ 255 ∧ (s.cmd - 191) % 64 = (nc : Int) % 64

/-- successor inside each cycle -/
def succProto (x : Int) : Int := if x = 191 then 1 else x + 1
def succCmd (x : Int) : Int := if x = 255 then 192 else x + 1

/-- `ChainFrom f a l`: `l` is `f a, f (f a), …` -/
def ChainFrom (f : Int → Int) : Int → List Int → Prop
  | _, [] => True
  | a, x :: xs => x = f a ∧ ChainFrom f x xs

def ofKind (b : Bool) (rs : List (Bool × Int)) : List Int :=
  (rs.filter (fun r => r.1 == b)).map (·.2)

/-- what a correct counter step does, stated once for both implementations -/
structure StepOK (next : Next) : Prop where
  proto_step : ∀ s np nc, Inv s np nc →
      (next s false).2 = 1 + (np : Int) % 191 ∧ Inv (next s false).1 (np + 1) nc ∧
      (next s false).2 = succProto s.proto ∧ (next s false).1.proto = (next s false).2 ∧
      (next s false).1.cmd = s.cmd
  cmd_step : ∀ s np nc, Inv s np nc →
      (next s true).2 = 192 + (nc : Int) % 64 ∧ Inv (next s true).1 np (nc + 1) ∧
      (next s true).2 = succCmd s.cmd ∧ (next s true).1.cmd = (next s true).2 ∧
      (next s true).1.proto = s.proto

theorem async_step_ok : StepOK nextSeqAsync := by
  constructor <;> intro s np nc h <;> unfold Inv at * <;> obtain ⟨h1, h2, h3, h4, h5, h6⟩ := h
  · by_cases hp : s.proto = 191 <;> simp [nextSeqAsync, succProto, hp] <;> omega
  · by_cases hp : s.cmd = 255 <;> simp [nextSeqAsync, succCmd, hp] <;> omega

theorem sync_step_ok : StepOK nextSeqSync := by
  constructor <;> intro s np nc h <;> unfold Inv at * <;> obtain ⟨h1, h2, h3, h4, h5, h6⟩ := h
  · by_cases hp : s.proto = 191 <;> simp [nextSeqSync, succProto, hp] <;> omega
  · by_cases hp : s.cmd = 255 <;> simp [nextSeqSync, succCmd, hp] <;> omega

theorem init_inv : Inv seqInitAsync 0 0 ∧ Inv seqInitSync 0 0 := by
  unfold Inv seqInitAsync seqInitSync; simp

/-- the generic closed-form lemma -/
theorem closed_form_of {next : Next} (h : StepOK next) :
    ∀ (calls : List Bool) (s : SeqState) (np nc : Nat), Inv s np nc →
      results next s calls = specResults np nc calls := by
  intro calls
  induction calls with
  | nil => intros; rfl
  | cons c cs ih =>
    intro s np nc hi
    cases c with
    | true =>
      obtain ⟨h1, h2, _⟩ := h.cmd_step s np nc hi
      simp only [results, specResults, h1, ih _ _ _ h2]
    | false =>
      obtain ⟨h1, h2, _⟩ := h.proto_step s np nc hi
      simp only [results, specResults, h1, ih _ _ _ h2]

/-- **closed form** (async protocol object): for every call sequence the k-th protocol request gets
`1 + k % 191` and the k-th command gets `192 + k % 64`, whatever is interleaved -/
theorem closed_form_async (calls : List Bool) :
    results nextSeqAsync seqInitAsync calls = specResults 0 0 calls :=
  closed_form_of async_step_ok calls _ 0 0 init_inv.1

/-- **closed form** (threaded socket) -/
theorem closed_form_sync (calls : List Bool) :
    results nextSeqSync seqInitSync calls = specResults 0 0 calls :=
  closed_form_of sync_step_ok calls _ 0 0 init_inv.2

/-- both implementations hand out the same numbers on every call sequence -/
theorem async_eq_sync (calls : List Bool) :
    results nextSeqAsync seqInitAsync calls = results nextSeqSync seqInitSync calls := by
  rw [closed_form_async, closed_form_sync]

theorem spec_in_range : ∀ (calls : List Bool) (np nc : Nat), ∀ r ∈ specResults np nc calls,
    (r.1 = false → 1 ≤ r.2 ∧ r.2 ≤ 191) ∧ (r.1 = true → 192 ≤ r.2 ∧ r.2 ≤ 255) := by
  intro calls
  induction calls with
  | nil => intro _ _ r hr; simp [specResults] at hr
  | cons c cs ih =>
    intro np nc r hr
    cases c <;> simp only [specResults, List.mem_cons] at hr <;> rcases hr with rfl | hr
    · simp; omega
    · exact ih _ _ r hr
    · simp; omega
    · exact ih _ _ r hr

/-- **ranges / never zero**: protocol numbers lie in 1..191, command numbers in 192..255 -/
theorem never_zero_in_range_async (calls : List Bool) : ∀ r ∈ results nextSeqAsync seqInitAsync calls,
    (r.1 = false → 1 ≤ r.2 ∧ r.2 ≤ 191) ∧ (r.1 = true → 192 ≤ r.2 ∧ r.2 ≤ 255) := by
  rw [closed_form_async]; exact spec_in_range calls 0 0

theorem never_zero_in_range_sync (calls : List Bool) : ∀ r ∈ results nextSeqSync seqInitSync calls,
    (r.1 = false → 1 ≤ r.2 ∧ r.2 ≤ 191) ∧ (r.1 = true → 192 ≤ r.2 ∧ r.2 ≤ 255) := by
  rw [closed_form_sync]; exact spec_in_range calls 0 0

theorem successor_of {next : Next} (h : StepOK next) :
    ∀ (calls : List Bool) (s : SeqState) (np nc : Nat), Inv s np nc →
      ChainFrom succProto s.proto (ofKind false (results next s calls)) ∧
      ChainFrom succCmd s.cmd (ofKind true (results next s calls)) := by
  intro calls
  induction calls with
  | nil => intros; simp [results, ofKind, ChainFrom]
  | cons c cs ih =>
    intro s np nc hi
    cases c with
    | true =>
      obtain ⟨_, h2, h3, h4, h5⟩ := h.cmd_step s np nc hi
      have := ih _ _ _ h2
      simp only [results, ofKind, List.filter_cons, beq_self_eq_true, if_true, List.map_cons, ChainFrom]
      simp only [ofKind, h5, h4] at this
      refine ⟨?_, h3, this.2⟩
      simpa using this.1
    | false =>
      obtain ⟨_, h2, h3, h4, h5⟩ := h.proto_step s np nc hi
      have := ih _ _ _ h2
      simp only [results, ofKind, List.filter_cons, beq_self_eq_true, if_true, List.map_cons, ChainFrom]
      simp only [ofKind, h5, h4] at this
      refine ⟨⟨h3, this.1⟩, ?_⟩
      simpa using this.2

/-- **successor cycles**: the numbers of one kind form the chain `succ x₀, succ (succ x₀), …` in their own
cycle (191 → 1, 255 → 192), regardless of how calls of the other kind are interleaved -/
theorem successor_cycles_async (calls : List Bool) :
    ChainFrom succProto 0 (ofKind false (results nextSeqAsync seqInitAsync calls)) ∧
    ChainFrom succCmd 191 (ofKind true (results nextSeqAsync seqInitAsync calls)) :=
  successor_of async_step_ok calls seqInitAsync 0 0 init_inv.1

theorem successor_cycles_sync (calls : List Bool) :
    ChainFrom succProto 0 (ofKind false (results nextSeqSync seqInitSync calls)) ∧
    ChainFrom succCmd 191 (ofKind true (results nextSeqSync seqInitSync calls)) :=
  successor_of sync_step_ok calls seqInitSync 0 0 init_inv.2

/-! ### concurrent callers of the threaded counter

`Generated.syncCounterProgram` is the shape of `GeckoUdpSocket.get_and_increment_sequence_counter` with respect to
`self._lock`, regenerated from the source on every run; `SeqThreads.run` executes it one micro-operation at a time for
any family of threads under any scheduler (Model/SeqThreads.lean). Atomicity of `threading.Lock` itself is trusted. -/

/-- the generated shape: the whole read-modify-write-return is ONE critical section, and nothing else in the class
touches the counters without the lock -/
theorem sync_program_is_one_critical_section :
    syncCounterProgram = [.acquire, .read, .write, .release] ∧ syncSharedAccessOutsideLock = [] := by decide

theorem sameResults (next : Next) : ∀ (calls : List Bool) (s : SeqState),
    SeqThreads.seqResults next s calls = results next s calls := by
  intro calls
  induction calls with
  | nil => intro s; rfl
  | cons c cs ih => intro s; simp [SeqThreads.seqResults, results, ih]

/-- **serialisation**: whatever the number of threads, whatever calls each of them makes and however the scheduler
interleaves their micro-operations, the numbers handed out (in the order they were handed out) are exactly the numbers
ONE sequential caller making the same calls in that order would have received -/
theorem threads_serialise (calls : Nat → List Bool) (sched : List Nat) :
    let fin := SeqThreads.run nextSeqSync syncCounterProgram (SeqThreads.initSys seqInitSync calls) sched
    fin.log = results nextSeqSync seqInitSync (fin.log.map (·.1)) := by
  intro fin
  have hp : syncCounterProgram = SeqThreads.lockedProg := sync_program_is_one_critical_section.1
  have h := SeqThreads.linv_run nextSeqSync seqInitSync sched _ (SeqThreads.linv_init nextSeqSync seqInitSync calls)
  have := h.log_ok
  rw [sameResults] at this
  simpa [fin, hp] using this

/-- hence under any number of concurrent threads the closed form, the ranges and the successor cycles hold -/
theorem threads_closed_form (calls : Nat → List Bool) (sched : List Nat) :
    let fin := SeqThreads.run nextSeqSync syncCounterProgram (SeqThreads.initSys seqInitSync calls) sched
    fin.log = specResults 0 0 (fin.log.map (·.1)) := by
  intro fin
  have := threads_serialise calls sched
  simp only [] at this
  rw [closed_form_sync] at this
  exact this

theorem threads_in_range (calls : Nat → List Bool) (sched : List Nat) :
    ∀ r ∈ (SeqThreads.run nextSeqSync syncCounterProgram (SeqThreads.initSys seqInitSync calls) sched).log,
      (r.1 = false → 1 ≤ r.2 ∧ r.2 ≤ 191) ∧ (r.1 = true → 192 ≤ r.2 ∧ r.2 ≤ 255) := by
  intro r hr
  have h := threads_closed_form calls sched
  simp only [] at h
  rw [h] at hr
  exact spec_in_range _ 0 0 r hr

theorem threads_successor_cycles (calls : Nat → List Bool) (sched : List Nat) :
    let fin := SeqThreads.run nextSeqSync syncCounterProgram (SeqThreads.initSys seqInitSync calls) sched
    ChainFrom succProto 0 (ofKind false fin.log) ∧ ChainFrom succCmd 191 (ofKind true fin.log) := by
  intro fin
  have h := threads_serialise calls sched
  simp only [] at h
  have := successor_cycles_sync (fin.log.map (·.1))
  rw [← h] at this
  exact this

/-- at most one thread is ever between `acquire` and `release` -/
theorem threads_mutex (calls : Nat → List Bool) (sched : List Nat) (i j : Nat) :
    let fin := SeqThreads.run nextSeqSync syncCounterProgram (SeqThreads.initSys seqInitSync calls) sched
    (fin.thrs i).pc ≠ 0 → (fin.thrs j).pc ≠ 0 → i = j := by
  intro fin hi hj
  have hp : syncCounterProgram = SeqThreads.lockedProg := sync_program_is_one_critical_section.1
  have h := SeqThreads.linv_run nextSeqSync seqInitSync sched _ (SeqThreads.linv_init nextSeqSync seqInitSync calls)
  rw [← hp] at h
  exact SeqThreads.linv_mutex h i j hi hj

/-- the lock placement matters (why the shape is an obligation): with the snapshot taken BEFORE the lock, two threads
asking for one protocol number each can both be handed 1 -/
theorem read_outside_lock_duplicates :
    (SeqThreads.run nextSeqSync [.read, .acquire, .write, .release]
      (SeqThreads.initSys seqInitSync (fun i => if i < 2 then [false] else [])) [0, 1, 0, 0, 0, 1, 1, 1]).log
      = [(false, 1), (false, 1)] := by decide

/-- non-vacuity: three threads, interleaved schedule crossing a blocked acquire; all calls complete and are serial -/
example :
    (SeqThreads.run nextSeqSync syncCounterProgram
      (SeqThreads.initSys seqInitSync (fun i => if i < 3 then [false, true] else []))
      [0, 1, 0, 2, 0, 0, 1, 1, 1, 1, 2, 2, 2, 2, 0, 0, 0, 0, 1, 1, 1, 1, 2, 2, 2, 2]).log
      = [(false, 1), (false, 2), (false, 3), (true, 192), (true, 193), (true, 194)] := by decide

/-! ### call sites: which counter each request kind uses -/

def packCommandCtors : List String :=
  ["GeckoPackCommandProtocolHandler.set_value", "GeckoPackCommandProtocolHandler.keypress"]

def protocolCtors : List String :=
  ["GeckoVersionProtocolHandler.request", "GeckoGetChannelProtocolHandler.request",
   "GeckoConfigFileProtocolHandler.request", "GeckoStatusBlockProtocolHandler.request",
   "GeckoStatusBlockProtocolHandler.full_request", "GeckoWatercareProtocolHandler.request",
   "GeckoWatercareProtocolHandler.set", "GeckoRemindersProtocolHandler.request",
   "GeckoPacketProtocolHandler:STATQ"]

def SiteOK (cs : SeqCallSite) : Prop :=
  (cs.ctor ∈ packCommandCtors ∧ cs.command = true) ∨ (cs.ctor ∈ protocolCtors ∧ cs.command = false)

instance (cs : SeqCallSite) : Decidable (SiteOK cs) := by unfold SiteOK; infer_instance

/-- **call sites**: every pack command draws from the command range and every other request from the protocol
range (the table is regenerated from the source on every run) -/
theorem callsites_ok : ∀ cs ∈ seqCallSites, SiteOK cs := by decide

/-- non-vacuity: both kinds of site exist, and a concrete interleaving crosses both wrap-arounds -/
example : (∃ cs ∈ seqCallSites, cs.command = true) ∧ (∃ cs ∈ seqCallSites, cs.command = false) := by decide
example : (results nextSeqAsync ⟨190, 254⟩ [false, true, false, true]).map (·.2) = [191, 255, 1, 192] := by decide
example : Inv ⟨190, 254⟩ 190 63 := by unfold Inv; decide

/-- **nobody but the counter method moves the counters**: over the regenerated skeletons, the request engine (`protocol.get`,
`struct.get`) and the acknowledging handler assign no attribute of the connection at all (they only CALL
`get_and_increment_sequence_counter`) - a retry cannot rewind or re-use a number -/
theorem only_the_counter_method_moves_the_counters :
    GeckoModel.Coop.selfStateWritten GeckoModel.Generated.Skeletons.sk_driver_async_udp_protocol__GeckoAsyncUdpProtocol_get = [] ∧
    GeckoModel.Coop.selfStateWritten GeckoModel.Generated.Skeletons.sk_driver_async_spastruct__GeckoAsyncStructure_get = [] ∧
    (GeckoModel.Generated.Skeletons.all.filter fun p =>
        (GeckoModel.Coop.actions .set p.2).any fun n => n == "self._sequence_counter_protocol" || n == "self._sequence_counter_command").map (·.1) = [] := by
  decide +kernel

end GeckoModel.C16
