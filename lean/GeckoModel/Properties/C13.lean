/-
C13 — Facade commands emit exactly the intended device write and are idempotent.

Model: `Model/Commands.lean` over the accessor model (C02) and the partial-update application (C05).  The spa's own
behaviour (it stores a written value and echoes it; a key press toggles the device behind the key) is the ASSUMPTION the
property's quantifier prescribes; it appears as the definitions `World.apply` / the hypothesis `ToggleSpec`, never as an axiom.
Quantifiers: every well-formed item (all shipped ones but D9, by C18), every 1024-byte block (= every current state),
every command argument, every sequence of commands (induction).
-/
import GeckoModel.Proofs.WatercareRace
import GeckoModel.Model.Commands
import GeckoModel.Properties.C02
import GeckoModel.Properties.C16
import GeckoModel.Proofs.Coop
import GeckoModel.Generated.Skeletons

namespace GeckoModel.C13
open GeckoModel GeckoModel.Generated

/-- **one command or none; none exactly when already in the requested state** -/
theorem one_or_none (it : Item) (keypad : Nat) (want : Bool) (b : Block) :
    (cmdSwitch it keypad want b).length ≤ 1 ∧ (it.isOn b = want → cmdSwitch it keypad want b = []) := by
  unfold cmdSwitch
  by_cases h : it.isOn b = want
  · simp [h]
  · refine ⟨?_, fun h' => absurd h' h⟩
    simp only [h, if_false]
    by_cases hk : keypad ≠ 0
    · simp [hk]
    · simp only [hk, if_false]
      split <;> simp

/-- a device with a keypad button gets exactly one key press when its state differs -/
theorem keypad_device_presses_once (it : Item) (keypad : Nat) (hk : keypad ≠ 0) (want : Bool) (b : Block)
    (h : it.isOn b ≠ want) : cmdSwitch it keypad want b = [.keyPress keypad] := by
  simp [cmdSwitch, h, hk]

/-- what the spa is assumed to do on a key press: flip the on/off reading of the device behind the key -/
def ToggleSpec (toggle : Nat → Block → Block) (keypad : Nat) (it : Item) : Prop :=
  ∀ b, it.isOn (toggle keypad b) = !it.isOn b

/-- **key-press devices reach the requested state and the command is then a no-op** (spa toggling = assumption) -/
theorem keypad_device_reaches_and_idempotent (toggle : Nat → Block → Block) (it : Item) (keypad : Nat) (hk : keypad ≠ 0)
    (hs : ToggleSpec toggle keypad it) (want : Bool) (w : World) (hsync : w.cli = w.spa) (h : it.isOn w.cli ≠ want) :
    ∃ w', World.applyAll toggle w (cmdSwitch it keypad want w.cli) = some w' ∧ w'.cli = w'.spa ∧
      it.isOn w'.cli = want ∧ cmdSwitch it keypad want w'.cli = [] := by
  rw [keypad_device_presses_once it keypad hk want w.cli h]
  refine ⟨_, rfl, rfl, ?_, ?_⟩
  · simp only [hs w.spa]
    rw [← hsync]
    cases hb : it.isOn w.cli <;> cases want <;> simp_all
  · apply (one_or_none it keypad want _).2
    simp only [hs w.spa]
    rw [← hsync]
    cases hb : it.isOn w.cli <;> cases want <;> simp_all

/-- **direct-write switches (economy mode): exactly one set-value, the spa can store it, the device then reads the
requested state, and repeating the command sends nothing** -/
theorem direct_switch_reaches_and_idempotent (it : Item) (hw : it.WF) (hk : it.kind = .bool) (hrw : it.rw.isSome = true)
    (want : Bool) (b : Block) (hb : b.length = blockSize) (h : it.isOn b ≠ want) :
    ∃ dw b', cmdSwitch it 0 want b = [.setValue dw] ∧ applyWrite b dw = some b' ∧ it.isOn b' = want ∧
      cmdSwitch it 0 want b' = [] := by
  obtain ⟨dw, b', e1, e2, e3⟩ := C02.bool_write_then_read it hw hk b hb want hrw
  rw [C02.sync_async_same] at e1
  refine ⟨dw, b', by simp [cmdSwitch, h, e1], e2, ?_, ?_⟩
  · simp [Item.isOn, e3]
  · apply (one_or_none it 0 want b').2; simp [Item.isOn, e3]

/-- **pump mode: one set-value of the user-demand item, which then reads the requested mode** (any label of the item) -/
theorem pump_mode_reaches (ud : Item) (hw : ud.WF) (hk : ud.kind = .enum) (hrw : ud.rw.isSome = true)
    (mode : String) (hm : mode ∈ ud.labels) (b : Block) (hb : b.length = blockSize) :
    ∃ dw b', cmdPumpMode ud mode b = [.setValue dw] ∧ applyWrite b dw = some b' ∧ ud.decode b' = .ok (.str mode) := by
  obtain ⟨dw, b', e1, e2, e3⟩ := C02.enum_write_then_read ud hw hk b hb mode hm hrw
  rw [C02.sync_async_same] at e1
  exact ⟨dw, b', by simp [cmdPumpMode, e1], e2, e3⟩

/-- an unknown mode sends nothing (the accessor's ValueError is swallowed by the pump) -/
theorem pump_unknown_mode_sends_nothing (ud : Item) (hk : ud.kind = .enum) (hl : ud.hasLabels = true) (hrw : ud.rw.isSome = true)
    (mode : String) (hm : mode ∉ ud.labels) (b : Block) : cmdPumpMode ud mode b = [] := by
  have : ud.labels.idxOf? mode = none := List.idxOf?_eq_none_iff.2 hm
  have hn : ud.rw.isNone = false := by cases h : ud.rw <;> simp_all
  simp [cmdPumpMode, Item.encodeAsync, Item.encodeWith, hn, Item.toRaw, hk, hl, this]

/-- **temperature unit: "°F" / "f" / "F" select F, anything else C; one set-value; the unit item then reads it** -/
theorem temp_unit_reaches (units : Item) (hw : units.WF) (hk : units.kind = .enum) (hrw : units.rw.isSome = true)
    (hC : "C" ∈ units.labels) (hF : "F" ∈ units.labels) (newUnit : String) (b : Block) (hb : b.length = blockSize) :
    ∃ dw b', cmdTempUnit units newUnit b = [.setValue dw] ∧ applyWrite b dw = some b' ∧
      units.decode b' = .ok (.str (if newUnit = "°F" ∨ newUnit = "f" ∨ newUnit = "F" then "F" else "C")) := by
  by_cases hu : newUnit = "°F" ∨ newUnit = "f" ∨ newUnit = "F"
  · obtain ⟨dw, b', e1, e2, e3⟩ := C02.enum_write_then_read units hw hk b hb "F" hF hrw
    rw [C02.sync_async_same] at e1
    exact ⟨dw, b', by simp [cmdTempUnit, hu, e1], e2, by simp [hu, e3]⟩
  · obtain ⟨dw, b', e1, e2, e3⟩ := C02.enum_write_then_read units hw hk b hb "C" hC hrw
    rw [C02.sync_async_same] at e1
    exact ⟨dw, b', by simp [cmdTempUnit, hu, e1], e2, by simp [hu, e3]⟩

/-- **watercare: every mode label yields exactly one SETWC carrying its index; the spa and the client then hold that mode** -/
theorem watercare_reaches (toggle : Nat → Block → Block) (label : String) (hl : label ∈ watercareModes) (w : World) :
    ∃ i, cmdWatercare label = some (.setWC i) ∧ watercareModes[i]? = some label ∧
      ∃ w', w.apply toggle (.setWC i) = some w' ∧ w'.wc = i ∧ w'.cliWc = some i := by
  have : ∃ i, watercareModes.idxOf? label = some i := by
    cases h : watercareModes.idxOf? label with
    | some i => exact ⟨i, rfl⟩
    | none => exact absurd hl (List.idxOf?_eq_none_iff.1 h)
  obtain ⟨i, hi⟩ := this
  exact ⟨i, by simp [cmdWatercare, hi], (C02.idxOf?_getElem? _ _ _ hi).1, _, rfl, rfl, rfl⟩

/-- **the client mirror stays equal to the spa block** through any one command … -/
theorem mirror_in_sync_step (toggle : Nat → Block → Block) (w w' : World) (e : Emit) (hs : w.cli = w.spa)
    (ha : w.apply toggle e = some w') : w'.cli = w'.spa := by
  cases e with
  | keyPress k => simp [World.apply] at ha; subst ha; rfl
  | setWC m => simp [World.apply] at ha; subst ha; exact hs
  | setValue dw =>
    simp only [World.apply] at ha
    cases h1 : applyWrite w.spa dw with
    | none => simp [h1] at ha
    | some spa' =>
      cases h2 : packBE dw.len dw.value with
      | none => simp [h1, h2] at ha
      | some bytes =>
        simp only [h1, h2, Option.some.injEq] at ha
        subst ha
        simp only [applyWrite, h2, Option.some.injEq] at h1
        subst h1
        simp [applyChanges, hs]

/-- … hence through **any sequence of commands** (induction) -/
theorem mirror_in_sync (toggle : Nat → Block → Block) (es : List Emit) : ∀ (w w' : World), w.cli = w.spa →
    World.applyAll toggle w es = some w' → w'.cli = w'.spa := by
  induction es with
  | nil => intro w w' hs h; simp [World.applyAll] at h; subst h; exact hs
  | cons e es ih =>
    intro w w' hs h
    simp only [World.applyAll] at h
    cases h1 : w.apply toggle e with
    | none => simp [h1] at h
    | some w1 => simp only [h1] at h; exact ih w1 w' (mirror_in_sync_step toggle w w1 e hs h1) h

/-- pack commands draw their sequence numbers from the command counter (regenerated call-site table, C16), whose
values are 192..255 for every call sequence (`C16.never_zero_in_range_async`) -/
theorem pack_commands_use_command_range : ∀ cs ∈ seqCallSites, cs.ctor ∈ C16.packCommandCtors → cs.command = true := by
  decide

/-- non-vacuity: an economy-mode style item (bit 6 of byte 277) on a concrete block -/
def exEco : Item := ⟨"EconActive", "EconActive", 277, .bool, 1, some 6, 1, [], false, none, some "ALL"⟩
example : exEco.WF := by decide
example : cmdSwitch exEco 0 true (List.replicate 1024 0) = [.setValue ⟨277, 1, 64⟩] := by decide +kernel
example : cmdSwitch exEco 0 true ((List.replicate 277 0) ++ [64] ++ List.replicate 746 0) = [] := by decide +kernel

/-! ### a watercare command while the facade's own watercare polls are in flight (Model/WatercareRace.lean) -/

/-- the generated statement order of `GeckoWaterCare.async_set_mode`: the command first, the local update after it; and the
facade's poll applies its answer to the local mode -/
theorem async_set_mode_order : asyncSetModeSteps = [.awaitSet, .localChange] ∧ facadePollAppliesAnswer = true := by decide

/-- **the client reads back the requested mode whatever polls are in flight**: for ANY number of facade polls, started
before, during or after the command, under ANY scheduler, once `async_set_mode(m)` has returned the spa holds `m` and the
client's mode is `m` - and stays `m` while later polls complete -/
theorem watercare_command_survives_polls (m spa cli : Nat) (sched : List Nat) :
    let fin := WatercareRace.run asyncSetModeSteps m (WatercareRace.initSys spa cli) sched
    fin.cmdPc = 2 → fin.spaWc = m ∧ fin.cliWc = m := by
  intro fin hdone
  have hp : asyncSetModeSteps = WatercareRace.goodSteps := async_set_mode_order.1
  have h := WatercareRace.winv_run m sched _ (WatercareRace.winv_init m spa cli)
  rw [← hp] at h
  exact ⟨h.spa_set (Or.inr (by show 1 ≤ fin.cmdPc; omega)), h.done_cli hdone⟩

/-- why the order is an obligation: with the local update BEFORE the command ("optimistic update"), one poll in flight
makes the client read back the OLD mode after the command has completed (poll asked, local update, poll answered, SETWC) -/
theorem optimistic_update_loses_the_mode :
    let fin := WatercareRace.run [.localChange, .awaitSet] 2 (WatercareRace.initSys 1 1) [1, 0, 1, 0, 0]
    fin.cmdPc = 2 ∧ fin.spaWc = 2 ∧ fin.cliWc = 1 := by decide

/-- non-vacuity: the same schedule with the order of the source ends with both sides at the requested mode (the command
waits for the lock while the poll is in flight) -/
example : let fin := WatercareRace.run asyncSetModeSteps 2 (WatercareRace.initSys 1 1) [1, 0, 1, 0, 0, 0]
    fin.cmdPc = 2 ∧ fin.spaWc = 2 ∧ fin.cliWc = 2 := by decide

/-- the statement order `watercare_command_survives_polls` rests on, a second time and independently: over the regenerated
suspension skeleton of `GeckoWaterCare.async_set_mode` (harness/gen_coop.py; `asyncSetModeSteps` comes from harness/gen_c13.py),
in every trace the local mode change happens only after the awaited SETWC exchange -/
theorem async_set_mode_changes_locally_after_the_exchange :
    Coop.precedes (Coop.isAwaitOf "self._spa.async_set_watercare") (Coop.isCallOf "self.change_watercare_mode")
      Generated.Skeletons.sk_automation_watercare__GeckoWaterCare_async_set_mode = true ∧
    "self.change_watercare_mode" ∈ Coop.actions .call Generated.Skeletons.sk_automation_watercare__GeckoWaterCare_async_set_mode := by
  decide +kernel

/-- **every plain (non-awaitable) command starts its own task**: `AsyncTasks.add_task`, through which `press` and the structure's
`set_value` hand their command coroutine to the event loop, creates a task on EVERY normal end - there is no path that drops the
coroutine (because one of the same name is still running, say), so two commands issued back to back are two exchanges -/
theorem every_plain_command_gets_its_task :
    Coop.everyNormalEndDid (fun a => a.kind == .call && a.name == "asyncio.create_task") Skeletons.sk_async_tasks__AsyncTasks_add_task = true ∧
    Coop.actions .brT Skeletons.sk_async_tasks__AsyncTasks_add_task = [] := by decide +kernel

/-! ### finding D17, in the model: a write merged with a stale copy undoes the write before it -/

namespace D17
def udP1 : Item := ⟨"UdP1", "UdP1", 275, .enum, 2, (some 14), 3, ["OFF", "LO", "HI"], true, (some 4), (some "ALL")⟩
def udP2 : Item := ⟨"UdP2", "UdP2", 275, .enum, 2, (some 12), 3, ["OFF", "LO", "HI"], true, (some 4), (some "ALL")⟩

/-- the shipped inXM layout of the first two pump demands (two 2-bit fields of word 275): both commands are computed from the SAME
copy of the block - the client's mirror, which changes only when the spa's report arrives; applied one after the other at the spa,
the second command carries the first item's old bits and undoes the first (`C13` known finding
`pending-report:lost-update-in-shared-word`, reproduced on the real stack by `c13.pending_report_scenarios`). When the report of the
first write is applied to the mirror before the second command is computed, both hold (`mirror_in_sync` covers that order). -/
theorem stale_merge_undoes_the_first_write :
    (do let w1 ← (udP1.encodeAsync (List.replicate 1024 0) (.str "LO")).toOption
        let w2 ← (udP2.encodeAsync (List.replicate 1024 0) (.str "HI")).toOption
        let b1 ← applyWrite (List.replicate 1024 0) w1
        let b2 ← applyWrite b1 w2
        pure ((udP1.decode b1).toOption, (udP1.decode b2).toOption, (udP2.decode b2).toOption)) =
    some (some (.str "LO"), some (.str "OFF"), some (.str "HI")) := by decide +kernel
end D17

end GeckoModel.C13
