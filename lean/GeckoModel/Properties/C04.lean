/-
C04 — Wire format: every message round-trips and is claimed by exactly its verb.

Model: `Model/Wire.lean` (messages, constructors, decoders, can_handle), `Model/Packet.lean` (framing, the regex of
`_extract_packet_parts` as a backtracking matcher, domains) over `Generated/WireFormats.lean` (verbs, tags, one parsed
`struct` format per call site, the verbs tested by every `can_handle`, regex literals and greediness, the hello `split`
arity — regenerated from the source on every run).  The hand-written parts are tied to the code by the
correspondence in `harness/props/c04.py`.

Quantifiers: all field values (`Int` for every integer argument: out-of-range ones are rejected, `inRange_iff_encodes`),
all byte strings for names, identifiers, blocks and payloads, all lists of reminders / changes.

Three statements are FALSE for the code as it stands (each with a kernel-checked witness below, confirmed on the real
code by the check): D2 hello names containing `|`, D3 payloads containing `</DESCN><DATAS>`, D4 SETWC / WCREQ claimed by
nobody.  The corresponding theorems carry a hypothesis that is GUARDED by a Boolean computed from what the translator
reads (`helloNeedsCleanName`, `regexNeedsCleanPayload`, `Msg.orphan`), and their proofs cover both the current and the
repaired source.  So when a `fix:` lands the guard evaluates to `false`, the hypothesis becomes vacuous and the very same
theorem is the full-strength statement — nothing has to be re-proved (then drop the `_partial` suffix and the guard).
The full statement is also kept in a comment next to each, and proved outright for the repaired parameter values
(`hello_roundtrip_split1`, `frame_roundtrip_lazy`).
-/
import GeckoModel.Proofs.WireClaims
import GeckoModel.Generated.WirePins

namespace GeckoModel.C04
open GeckoModel.Wire GeckoModel.Generated.WireFormats

/-! ## 1. field ranges -/

/-- **range errors are explicit**: a constructor returns exactly for the field values in `inRange` (unsigned bytes,
unsigned / signed shorts as its `struct` formats demand, `len ∈ {1,2}`, at most 255 block bytes / change records);
everything else raises -/
theorem inRange_iff_encodes (m : Msg) : m.inRange = true ↔ ∃ c, m.content = .ok c := by
  rw [← isOk_content_eq_inRange]
  cases m.content with
  | ok c => simp [isOk]
  | error e => simp [isOk]

theorem encode_rejects (m : Msg) (h : m.inRange = false) : ∃ e, m.content = .error e := by
  rw [← isOk_content_eq_inRange] at h
  cases hc : m.content with
  | ok c => rw [hc] at h; cases h
  | error e => exact ⟨e, rfl⟩

/-! ## 2. content round trip: decode (encode m) = fields of m -/

/-- **round trip, every packet message form**: for in-range fields the constructor produces content that every
handler class meant for it decodes to exactly the fields the message was built from.
`inDomain`: GeckoReminderType values for reminder types, STATP records of the shape the 4-byte-record decoder reads
(all but the last 2 data bytes, the last ≤ 2 — the library sends one 1- or 2-byte record per message), a platform name
without `,` `_` `.`.  `isWcSet`: SETWC has no decoder in the library (D4, `setwc_fields_lost`). -/
theorem roundtrip (m : Msg) (hr : m.inRange = true) (hh : m.isHello = false) (hd : m.inDomain = true)
    (hs : m.isWcSet = false) : ∃ c, m.content = .ok c ∧ ∀ k ∈ m.handlers, decode k c = .ok m.fields := by
  obtain ⟨c, hc⟩ := (inRange_iff_encodes m).1 hr
  exact ⟨c, hc, content_roundtrip m c hc hh hd hs⟩

/-- STATP record round trip (n two-byte records, or a last / only record of one byte), both twin handler classes -/
theorem statp_roundtrip (changes : List (Int × Bytes)) (hr : (Msg.partialUpdate changes).inRange = true)
    (hok : StatpOK changes = true) :
    ∃ c, (Msg.partialUpdate changes).content = .ok c ∧
      decode .partialStatus c = .ok (.partialStatus none changes true) ∧
      decode .asyncPartialStatus c = .ok (.partialStatus none changes true) := by
  obtain ⟨c, hc, h⟩ := roundtrip (.partialUpdate changes) hr rfl hok rfl
  exact ⟨c, hc, h _ (by simp [Msg.handlers]), h _ (by simp [Msg.handlers])⟩

/-- reminders with signed days: any list of (type ∈ GeckoReminderType, days ∈ −32768..32767) -/
theorem reminders_roundtrip (rs : List (Int × Int))
    (hr : ∀ td ∈ rs, td.1 ∈ reminderTypeValues ∧ -32768 ≤ td.2 ∧ td.2 < 32768) :
    ∃ c, (Msg.remindersResponse rs).content = .ok c ∧ decode .reminders c = .ok (.reminders none rs true) := by
  have h1 : (Msg.remindersResponse rs).inRange = true := by
    simp only [Msg.inRange, List.all_eq_true]
    intro td htd
    obtain ⟨ht, h2, h3⟩ := hr td htd
    have : u8 td.1 = true := by
      simp [reminderTypeValues] at ht
      rcases ht with h | h | h | h | h | h | h <;> rw [h] <;> decide
    simp [this, i16, Code.inRange, h2, h3]
  have h2 : (Msg.remindersResponse rs).inDomain = true := by
    simp only [Msg.inDomain, List.all_eq_true]
    intro td htd
    simpa using (hr td htd).1
  obtain ⟨c, hc, h⟩ := roundtrip (.remindersResponse rs) h1 rfl h2 rfl
  exact ⟨c, hc, h _ (by simp [Msg.handlers])⟩

/-- FILES reply, every shipped platform name × EVERY pair of version numbers (not only 0..99) -/
theorem files_roundtrip : ∀ p ∈ platformNames, ∀ cv lv : Nat,
    ∃ c, (Msg.configResponse p cv lv).content = .ok c ∧
      decode .config c = .ok (.config none (some (if p == mrstAlias.1 then mrstAlias.2 else p, Int.ofNat cv, Int.ofNat lv)) true) := by
  intro p hp cv lv
  have hg : GoodName p = true := by
    revert p; decide
  obtain ⟨c, hc, h⟩ := roundtrip (.configResponse p cv lv) rfl rfl hg rfl
  exact ⟨c, hc, h _ (by simp [Msg.handlers])⟩

/-! ## 3. hello -/

theorem hello_broadcast_roundtrip : decode .hello (helloFrame helloBroadcastContent) = .ok Msg.helloBroadcast.fields :=
  hello_broadcast_rt helloSplitMax

theorem hello_client_roundtrip (id : Bytes) (h : (Msg.helloClient id).inDomain = true) :
    decode .hello (helloFrame id) = .ok (Msg.helloClient id).fields :=
  hello_client_rt helloSplitMax id h

/-- the repaired decoder (`split(b"|", 1)`): ANY name, including names containing `|` -/
theorem hello_roundtrip_split1 (n : Nat) (id name : Bytes) (h : (Msg.helloResponse id name).inDomain = true) :
    decodeHelloWith (some n) (helloFrame (id ++ [helloSep] ++ name)) = .ok (Msg.helloResponse id name).fields := by
  simp only [Msg.inDomain, Bool.and_eq_true, Bool.not_eq_true', List.contains_eq_mem, decide_eq_false_iff_not] at h
  exact hello_response_rt_split1 n id name h.1 h.2

/-- the decoder without `maxsplit`: names WITHOUT the separator byte -/
theorem hello_roundtrip_split (id name : Bytes) (h : (Msg.helloResponse id name).inDomain = true) (hname : helloSep ∉ name) :
    decodeHelloWith none (helloFrame (id ++ [helloSep] ++ name)) = .ok (Msg.helloResponse id name).fields := by
  simp only [Msg.inDomain, Bool.and_eq_true, Bool.not_eq_true', List.contains_eq_mem, decide_eq_false_iff_not] at h
  exact hello_response_rt_split id name h.1 hname h.2

/- FULL:
theorem hello_roundtrip (id name : Bytes) (h : (Msg.helloResponse id name).inDomain = true) :
    decode .hello (helloFrame (id ++ [helloSep] ++ name)) = .ok (Msg.helloResponse id name).fields
false for the current source (`hello_name_with_bar_fails`, `helloNeedsCleanName = true`).  After fix D2
(`content.split(b"|", 1)`) the translator emits `helloSplitMax = some 1`, `helloNeedsCleanName` evaluates to `false` and
`hello_roundtrip_partial id name h (by decide)` IS this statement. -/

/-- hello response round trip for the decoder of the source as it is: the name is restricted only while the source needs it -/
theorem hello_roundtrip_partial (id name : Bytes) (h : (Msg.helloResponse id name).inDomain = true)
    (hname : helloNeedsCleanName = true → helloSep ∉ name) :
    decode .hello (helloFrame (id ++ [helloSep] ++ name)) = .ok (Msg.helloResponse id name).fields := by
  first
    | (have e : helloSplitMax = none := rfl
       show decodeHelloWith helloSplitMax _ = _
       rw [e]
       exact hello_roundtrip_split id name h (hname (by decide)))
    | (have e : helloSplitMax = some 1 := rfl
       show decodeHelloWith helloSplitMax _ = _
       rw [e]
       exact hello_roundtrip_split1 1 id name h)

/-- D2 witness: spa "SPA" named "a|b" is in the domain, is encoded, and the decoder without `maxsplit` raises ValueError -/
theorem hello_name_with_bar_fails :
    (Msg.helloResponse [83, 80, 65] [97, 124, 98]).inDomain = true ∧
    (Msg.helloResponse [83, 80, 65] [97, 124, 98]).sendBytes [] [] = .ok (helloFrame [83, 80, 65, 124, 97, 124, 98]) ∧
    decodeHelloWith none (helloFrame [83, 80, 65, 124, 97, 124, 98]) = .error .valueErr := by decide

/-! ## 4. packet framing -/

theorem frame_eq (p2 p3 c : Bytes) : frame p2 p3 c = PACKET_OPEN ++ frameBody p3 p2 c ++ PACKET_CLOSE := by
  simp [frame, frameBody, parm, sendSrcIndex, sendDstIndex]

theorem frameBody_lits (src dst payload : Bytes) : frameBody src dst payload =
    regexLits.1 ++ (src ++ (regexLits.2.1 ++ (dst ++ (regexLits.2.2.1 ++ (payload ++ regexLits.2.2.2))))) := by
  simp [frameBody, regexLits, SRCCN_OPEN, SRCCN_CLOSE, DESCN_OPEN, DESCN_CLOSE, DATAS_OPEN, DATAS_CLOSE]

/-- three greedy groups: identifiers without `<`, payload not containing `</DESCN><DATAS>` -/
theorem frame_roundtrip_greedy (src dst payload : Bytes) (hs : 60 ∉ src) (hd : 60 ∉ dst)
    (hp : occurs (DESCN_CLOSE ++ DATAS_OPEN) payload = false) :
    decodePacketWith (true, true, true) (frame dst src payload) = .ok (.packet (some src) (some dst) (some payload)) := by
  rw [frame_eq]
  unfold decodePacketWith
  rw [sliceNegEnd_frame _ _ _ (by decide) (by decide), frameBody_lits]
  have hp' : occurs regexLits.2.2.1 (payload ++ regexLits.2.2.2) = false :=
    occurs_append _ _ (by decide) (by decide) payload hp
  have := matchHere_greedy regexLits 60 _ 60 _ rfl rfl (by decide) (by decide) (by decide) (by decide) src dst payload
    (allClash_of_not_mem _ 60 _ rfl src hs) (allClash_of_not_mem _ 60 _ rfl dst hd) (allClash_of_not_mem _ 60 _ rfl dst hd) hp'
  rw [search_of_matchHere _ _ _ _ this]

/-- the repaired regex (lazy, lazy, greedy): identifiers without `<`, ARBITRARY payload bytes -/
theorem frame_roundtrip_lazy (src dst payload : Bytes) (hs : 60 ∉ src) (hd : 60 ∉ dst) :
    decodePacketWith (false, false, true) (frame dst src payload) = .ok (.packet (some src) (some dst) (some payload)) := by
  rw [frame_eq]
  unfold decodePacketWith
  rw [sliceNegEnd_frame _ _ _ (by decide) (by decide), frameBody_lits]
  have := matchHere_lazy regexLits (by decide) src dst payload
    (allClash_of_not_mem _ 60 _ rfl src hs) (allClash_of_not_mem _ 60 _ rfl dst hd)
  rw [search_of_matchHere _ _ _ _ this]

/- FULL:
theorem frame_roundtrip (src dst payload : Bytes) (hs : 60 ∉ src) (hd : 60 ∉ dst) :
    decodePacket (frame dst src payload) = .ok (.packet (some src) (some dst) (some payload))
false for the current source (`frame_roundtrip_fails`, `regexNeedsCleanPayload = true`).  After fix D3 (`(.*?)` for the first
two groups) the translator emits `regexGreedy = (false, false, true)`, `regexNeedsCleanPayload` evaluates to `false` and
`frame_roundtrip_partial src dst payload hs hd (by decide)` IS this statement. -/

/-- packet framing round trip for the regex of the source as it is: the payload is restricted only while the source
needs it -/
theorem frame_roundtrip_partial (src dst payload : Bytes) (hs : 60 ∉ src) (hd : 60 ∉ dst)
    (hp : regexNeedsCleanPayload = true → occurs (DESCN_CLOSE ++ DATAS_OPEN) payload = false) :
    decodePacket (frame dst src payload) = .ok (.packet (some src) (some dst) (some payload)) := by
  show decodePacketWith regexGreedy _ = _
  first
    | (have e : regexGreedy = (true, true, true) := rfl
       rw [e]
       exact frame_roundtrip_greedy src dst payload hs hd (hp (by decide)))
    | (have e : regexGreedy = (false, false, true) := rfl
       rw [e]
       exact frame_roundtrip_lazy src dst payload hs hd)

/-- D3 witness: src "A", dst "B", payload `x</SRCCN><DESCN>y</DESCN><DATAS>z` under three greedy groups — source id,
destination id and content all come back wrong -/
theorem frame_roundtrip_fails :
    decodePacketWith (true, true, true)
      (frame [66] [65] ([120] ++ SRCCN_CLOSE ++ DESCN_OPEN ++ [121] ++ DESCN_CLOSE ++ DATAS_OPEN ++ [122])) =
      .ok (.packet (some ([65] ++ SRCCN_CLOSE ++ DESCN_OPEN ++ [66] ++ DESCN_CLOSE ++ DATAS_OPEN ++ [120])) (some [121]) (some [122])) := by
  decide +kernel

/-- **reply addressing**: a reply built with the parms a packet handler holds after `handle(received, sender)` carries
the received destination as its source and the received source as its destination -/
theorem reply_swaps_partial (src dst payload reply : Bytes) (hs : 60 ∉ src) (hd : 60 ∉ dst)
    (hp : regexNeedsCleanPayload = true → occurs (DESCN_CLOSE ++ DATAS_OPEN) payload = false) :
    replyTo (PACKET_OPEN ++ frameBody src dst payload ++ PACKET_CLOSE) reply =
      some (PACKET_OPEN ++ frameBody dst src reply ++ PACKET_CLOSE) := by
  have := frame_roundtrip_partial src dst payload hs hd hp
  rw [frame_eq] at this
  unfold replyTo
  rw [this]
  show some (frame src dst reply) = _
  rw [frame_eq]

/-- sender to receiver, whole datagram: `send_bytes` of the built handler, `handle` of the packet handler, then
`handle` of the verb's handler yields the fields (the content is restricted only while the regex of the source needs it) -/
theorem wire_roundtrip_partial (m : Msg) (p2 p3 : Bytes) (hr : m.inRange = true) (hh : m.isHello = false)
    (hd : m.inDomain = true) (hs : m.isWcSet = false) (h2 : 60 ∉ p2) (h3 : 60 ∉ p3) :
    ∃ dg c, m.sendBytes p2 p3 = .ok dg ∧ m.content = .ok c ∧
      ((regexNeedsCleanPayload = true → occurs (DESCN_CLOSE ++ DATAS_OPEN) c = false) →
        decodePacket dg = .ok (.packet (some p3) (some p2) (some c))) ∧
      ∀ k ∈ m.handlers, decode k c = .ok m.fields := by
  obtain ⟨c, hc, hk⟩ := roundtrip m hr hh hd hs
  refine ⟨frame p2 p3 c, c, by simp [Msg.sendBytes, hc, hh], hc, fun ho => frame_roundtrip_partial p3 p2 c h3 h2 ho, hk⟩

/-! ## 5. claimed by exactly its handler -/

/-- no verb is a prefix of another verb or of a tag (nor vice versa), and the verbs are pairwise distinct -/
theorem verbs_prefix_free :
    allVerbs.Nodup ∧
    ∀ v ∈ allVerbs, ∀ w ∈ allVerbs ++ allTags, v ≠ w → v.isPrefixOf w = false ∧ w.isPrefixOf v = false := by
  decide

/- FULL:
theorem claimed_by_exactly (m : Msg) (hh : m.isHello = false) (c : Bytes) (hc : m.content = .ok c) :
    ∀ k ∈ standardHandlers, canHandle k c = m.handlers.contains k
false for the current source (`setwc_unclaimed`, `giveschedule_unclaimed`).  `Msg.orphan` is computed from the verb lists the
translator reads out of every `can_handle`: after fix D4 (SETWC_VERB and WCREQ_VERB tested by
`GeckoWatercareProtocolHandler.can_handle`) `m.orphan = false` holds for EVERY m (`by cases m <;> rfl`) and
`claimed_by_exactly_partial` IS this statement. -/

/-- every message the library builds whose verb is tested by its handler's `can_handle` (today: all but SETWC and WCREQ,
`orphan_exactly`) is accepted by exactly the handler class(es) of its verb among the standard handler classes, whatever
its field values -/
theorem claimed_by_exactly_partial (m : Msg) (hh : m.isHello = false) (ho : m.orphan = false) (c : Bytes)
    (hc : m.content = .ok c) : ∀ k ∈ standardHandlers, canHandle k c = m.handlers.contains k := by
  obtain ⟨b, _, rfl⟩ := content_ok hc
  have table : ∀ v, m.verb = some v → v ∈ allVerbs ∧
      ∀ k ∈ standardHandlers, (k == .unhandled || k.claims.contains v) = m.handlers.contains k := by
    cases m <;> first
      | (intro v hv; simp only [Msg.verb, Option.some.injEq] at hv; subst hv; simp only [Msg.handlers]; decide)
      | (simp [Msg.isHello] at hh; done)
      | (exfalso; revert ho; simp only [Msg.orphan, Msg.verb, Msg.handlers]; decide)
  cases hv : m.verb with
  | none => cases m <;> first | (simp [Msg.isHello] at hh; done) | (simp [Msg.verb] at hv; done)
  | some v =>
    obtain ⟨hmem, ht⟩ := table v hv
    intro k hk
    simp only [Option.getD]
    rw [canHandle_verb k v b hmem]
    exact ht k hk

/-- which messages are orphans today: exactly the two watercare forms (this is the statement that changes with fix D4) -/
theorem orphan_exactly (m : Msg) (hh : m.isHello = false) :
    m.orphan = true → (∃ s md, m = .wcSet s md) ∨ m = .wcGiveSchedule := by
  cases m <;> first
    | (intro h; exfalso; revert h; simp only [Msg.orphan, Msg.verb, Msg.handlers]; decide)
    | (intro _; exact Or.inl ⟨_, _, rfl⟩)
    | (intro _; exact Or.inr rfl)

/-- on the wire: a hello datagram is claimed by the hello handler only, every packet datagram by the packet handler
only — for arbitrary identifiers and content -/
theorem datagram_claimed (m : Msg) (p2 p3 dg : Bytes) (h : m.sendBytes p2 p3 = .ok dg) :
    ∀ k ∈ standardHandlers, canHandle k dg = (k == if m.isHello then Handler.hello else Handler.packet) := by
  unfold Msg.sendBytes at h
  cases hc : m.content with
  | error e => rw [hc] at h; cases h
  | ok c =>
    rw [hc] at h
    cases h
    intro k hk
    cases hm : m.isHello
    · simp only [if_false, Bool.false_eq_true, canHandle_frame]
      cases k <;> first | rfl | (exact absurd hk (by decide))
    · simp only [if_true, canHandle_helloFrame]
      cases k <;> first | rfl | (exact absurd hk (by decide))

/-- D4 witness: while SETWC is an orphan, NO standard handler class accepts the SETWC message the library builds
(any seq, mode) -/
theorem setwc_unclaimed (seq mode : Int) (ho : (Msg.wcSet seq mode).orphan = true) (c : Bytes)
    (hc : (Msg.wcSet seq mode).content = .ok c) : ∀ k ∈ standardHandlers, canHandle k c = false := by
  obtain ⟨b, _, rfl⟩ := content_ok hc
  have hw : Handler.watercare.claims.contains SETWC_VERB = false := by
    simpa [Msg.orphan, Msg.verb, Msg.handlers] using ho
  intro k hk
  simp only [Msg.verb, Option.getD]
  rw [canHandle_verb k _ b (by decide)]
  cases k <;> first | exact hw | rfl | (exact absurd hk (by decide))

/-- D4 witness: while WCREQ is an orphan, no standard handler class accepts the WCREQ message the library builds -/
theorem giveschedule_unclaimed (ho : Msg.wcGiveSchedule.orphan = true) (c : Bytes) (hc : Msg.wcGiveSchedule.content = .ok c) :
    ∀ k ∈ standardHandlers, canHandle k c = false := by
  obtain ⟨b, _, rfl⟩ := content_ok hc
  have hw : Handler.watercare.claims.contains WCREQ_VERB = false := by
    simpa [Msg.orphan, Msg.verb, Msg.handlers] using ho
  intro k hk
  simp only [Msg.verb, Option.getD]
  rw [canHandle_verb k _ b (by decide)]
  cases k <;> first | exact hw | rfl | (exact absurd hk (by decide))

/-- … and were the watercare handler given a SETWC it would take it for WCSET: sequence and mode are dropped -/
theorem setwc_fields_lost (seq mode : Int) (c : Bytes) (hc : (Msg.wcSet seq mode).content = .ok c) :
    decode .watercare c = .ok (.watercare none none false true) ∧
    (Msg.wcSet seq mode).fields ≠ .watercare none none false true := by
  obtain ⟨b, _, rfl⟩ := content_ok hc
  constructor
  · simp [decode, decodeWatercare, startsWith, Msg.verb, SETWC_VERB, GETWC_VERB, REQWC_VERB, WCGET_VERB, List.isPrefixOf]
  · simp [Msg.fields]

/-! ## 6. the byte layout: the captured vectors of tests/test_protocol.py (re-extracted on every run) -/

open GeckoModel.Generated.WirePins in
/-- every constructor vector: the model's `send_bytes` is the literal the author pinned -/
theorem pinned_encode : ∀ v ∈ encodeVectors, v.2.1.sendBytes v.2.2.1 v.2.2.2.1 = .ok v.2.2.2.2 := by decide +kernel

open GeckoModel.Generated.WirePins in
/-- every `handle()` vector: the model decodes the pinned bytes to the asserted attribute values -/
theorem pinned_decode : ∀ v ∈ decodeVectors, checkDecodeVector v = true := by decide +kernel

open GeckoModel.Generated.WirePins in
/-- every `can_handle` assertion -/
theorem pinned_claims : ∀ v ∈ claimVectors, canHandle v.2.1 v.2.2.1 = v.2.2.2 := by decide +kernel

open GeckoModel.Generated.WirePins in
/-- the extraction found the vectors (a renamed test file or changed idiom empties the lists: then this fails) -/
theorem pinned_present : 20 ≤ encodeVectors.length ∧ 20 ≤ decodeVectors.length ∧ 30 ≤ claimVectors.length := by decide

/-! ## 7. non-vacuity -/

example : (Msg.setValue 200 6 9 9 15 2 702).inRange = true ∧ (Msg.setValue 200 6 9 9 15 2 702).inDomain = true := by decide
example : (Msg.setValue 200 6 9 9 15 3 702).inRange = false ∧ (Msg.versionRequest 256).inRange = false ∧
    (Msg.remindersResponse [(1, 32768)]).inRange = false ∧ (Msg.statusRequest 1 (-1) 0).inRange = false := by decide
example : (Msg.setValue 200 6 9 9 15 3 702).content = .error .overflowErr ∧ (Msg.versionRequest 256).content = .error .structErr := by
  decide
example : (Msg.partialUpdate [(365, [3, 132]), (366, [132, 12])]).inRange = true ∧ StatpOK [(365, [3, 132]), (366, [132, 12])] = true ∧
    StatpOK [(365, [3])] = true ∧ StatpOK [(365, [3]), (366, [132, 12])] = false := by decide
example : (Msg.helloResponse [83, 80, 65] [97, 124, 98]).inDomain = true ∧ (Msg.helloClient [73, 79, 83, 49]).inDomain = true ∧
    (Msg.helloClient [67, 76]).inDomain = false := by decide
example : (60 : UInt8) ∉ [73, 79, 83, 49] ∧ occurs (DESCN_CLOSE ++ DATAS_OPEN) [10, 0, 60, 47, 68, 65, 84, 65, 83, 62] = false ∧
    occurs (DESCN_CLOSE ++ DATAS_OPEN) ([1] ++ DESCN_CLOSE ++ DATAS_OPEN ++ [2]) = true := by decide
example : (Msg.versionRequest 7).orphan = false ∧ (Msg.statusSegment 1 0 [60]).orphan = false ∧ Handler.watercare ∈ standardHandlers := by decide
example : (Msg.setValue 200 6 9 9 15 2 702).isHello = false ∧ (Msg.setValue 200 6 9 9 15 2 702).isWcSet = false ∧
    (Msg.statusSegment 3 0 [60, 47, 10, 0]).inRange = true ∧ (Msg.statusSegment 3 0 [60, 47, 10, 0]).inDomain = true := by decide
example : ([73, 110, 88, 77] : Bytes) ∈ platformNames ∧ ([77, 114, 83, 116] : Bytes) ∈ platformNames ∧ 14 ≤ platformNames.length := by decide
-- the guards: each is `true` exactly while the defect is in the source (both alternatives are stated so that the
-- example survives the fix)
example : (helloNeedsCleanName = true ∧ helloSplitMax = none) ∨ (helloNeedsCleanName = false ∧ helloSplitMax = some 1) := by decide
example : (regexNeedsCleanPayload = true ∧ regexGreedy = (true, true, true)) ∨
    (regexNeedsCleanPayload = false ∧ regexGreedy = (false, false, true)) := by decide
example : ((Msg.wcSet 1 2).orphan = true ∧ Msg.wcGiveSchedule.orphan = true) ∨
    (claims_Watercare.contains SETWC_VERB = true ∧ claims_Watercare.contains WCREQ_VERB = true) := by decide
example : helloNeedsCleanName = true → helloSep ∉ ([77, 121, 32, 83, 112, 97] : Bytes) := by decide
example : regexNeedsCleanPayload = true → occurs (DESCN_CLOSE ++ DATAS_OPEN) [83, 84, 65, 84, 86, 3, 0, 2, 60, 10] = false := by decide
example : (Msg.helloResponse [83, 80, 65, 48, 49] [77, 121, 32, 83, 112, 97]).inDomain = true := by decide
example : ∀ td ∈ [((1 : Int), (-13 : Int)), (6, 32767), (0, -32768)], td.1 ∈ reminderTypeValues ∧ -32768 ≤ td.2 ∧ td.2 < 32768 := by
  decide

end GeckoModel.C04
