/-
C04 — Wire format: every message round-trips and is claimed by exactly its verb.

Model: `Model/Wire.lean` (messages, constructors, decoders, can_handle), `Model/Packet.lean` (framing, the regex of
`_extract_packet_parts` as a backtracking matcher, domains) over `Generated/WireFormats.lean` (verbs, tags, one parsed
`struct` format per call site, the verbs tested by every `can_handle`, regex literals and greediness, the hello `split`
arity — regenerated from the source on every run).  The hand-written parts are tied to the code by the
correspondence in `harness/props/c04.py`.

Quantifiers: all field values (`Int` for every integer argument: out-of-range ones are rejected, `inRange_iff_encodes`),
all byte strings for names, identifiers, blocks and payloads, all lists of reminders / changes.

History: three of the statements were false for the audited commit and are true since the `fix:` commits 8ce8f9d (D2 hello
names containing `|`: `split(b"|", 1)`), 7778cb2 (D3 payloads containing `</DESCN><DATAS>`: the two identifier groups are
lazy) and b4425b7 (D4 SETWC / WCREQ are claimed, SETWC is decoded).  They are now stated at full strength about the
generated definitions (`hello_roundtrip`, `frame_roundtrip`, `claimed_by_exactly` with `orphan_none`); a regression of the
source changes `helloSplitMax` / `regexGreedy` / `claims_Watercare` and these proofs stop building.  What the OLD code
did is kept as theorems about explicit old parameters (`hello_name_with_bar_fails`, `frame_roundtrip_fails`,
`frame_roundtrip_greedy`, `hello_roundtrip_split`, `old_watercare_claims_miss_setwc_wcreq`): true whatever the source says.
-/
import GeckoModel.Model.HelloObject
import GeckoModel.Proofs.WireClaims
import GeckoModel.Generated.WirePins
import GeckoModel.Model.Coop
import GeckoModel.Generated.Skeletons

namespace GeckoModel.C04
open GeckoModel.Wire GeckoModel.Generated.WireFormats

/-! ## 1. field ranges -/

/-- **range errors are explicit**: a constructor returns exactly for the field values in `inRange` (unsigned bytes,
unsigned / signed shorts as its `struct` formats demand, `len ∈ {1,2}`, at most 255 block bytes / change records);
everything else raises -/
theorem inRange_iff_encodes (m : Msg) : m.inRange = true ↔ ∃ c, m.content = .ok c := by
  rw [← isOk_content_eq_inRange]
  cases m.content with
  | ok c => simp [isOk]
  | error e => simp [isOk]

theorem encode_rejects (m : Msg) (h : m.inRange = false) : ∃ e, m.content = .error e := by
  rw [← isOk_content_eq_inRange] at h
  cases hc : m.content with
  | ok c => rw [hc] at h; cases h
  | error e => exact ⟨e, rfl⟩

/-! ## 2. content round trip: decode (encode m) = fields of m -/

/-- **round trip, every packet message form**: for in-range fields the constructor produces content that every
handler class meant for it decodes to exactly the fields the message was built from.
`inDomain`: GeckoReminderType values for reminder types, STATP records of the shape the 4-byte-record decoder reads
(all but the last 2 data bytes, the last ≤ 2 — the library sends one 1- or 2-byte record per message), a platform name
without `,` `_` `.`. -/
theorem roundtrip (m : Msg) (hr : m.inRange = true) (hh : m.isHello = false) (hd : m.inDomain = true) :
    ∃ c, m.content = .ok c ∧ ∀ k ∈ m.handlers, decode k c = .ok m.fields := by
  obtain ⟨c, hc⟩ := (inRange_iff_encodes m).1 hr
  exact ⟨c, hc, content_roundtrip m c hc hh hd⟩

/-- STATP record round trip (n two-byte records, or a last / only record of one byte), both twin handler classes -/
theorem statp_roundtrip (changes : List (Int × Bytes)) (hr : (Msg.partialUpdate changes).inRange = true)
    (hok : StatpOK changes = true) :
    ∃ c, (Msg.partialUpdate changes).content = .ok c ∧
      decode .partialStatus c = .ok (.partialStatus none changes true) ∧
      decode .asyncPartialStatus c = .ok (.partialStatus none changes true) := by
  obtain ⟨c, hc, h⟩ := roundtrip (.partialUpdate changes) hr rfl hok
  exact ⟨c, hc, h _ (by simp [Msg.handlers]), h _ (by simp [Msg.handlers])⟩

/-- reminders with signed days: any list of (type ∈ GeckoReminderType, days ∈ −32768..32767) -/
theorem reminders_roundtrip (rs : List (Int × Int))
    (hr : ∀ td ∈ rs, td.1 ∈ reminderTypeValues ∧ -32768 ≤ td.2 ∧ td.2 < 32768) :
    ∃ c, (Msg.remindersResponse rs).content = .ok c ∧ decode .reminders c = .ok (.reminders none rs true) := by
  have h1 : (Msg.remindersResponse rs).inRange = true := by
    simp only [Msg.inRange, List.all_eq_true]
    intro td htd
    obtain ⟨ht, h2, h3⟩ := hr td htd
    have : u8 td.1 = true := by
      simp [reminderTypeValues] at ht
      rcases ht with h | h | h | h | h | h | h <;> rw [h] <;> decide
    simp [this, i16, Code.inRange, h2, h3]
  have h2 : (Msg.remindersResponse rs).inDomain = true := by
    simp only [Msg.inDomain, List.all_eq_true]
    intro td htd
    simpa using (hr td htd).1
  obtain ⟨c, hc, h⟩ := roundtrip (.remindersResponse rs) h1 rfl h2
  exact ⟨c, hc, h _ (by simp [Msg.handlers])⟩

/-- SETWC (fix b4425b7): the watercare handler reads back sequence and mode, for every byte pair -/
theorem setwc_roundtrip (seq mode : Int) (hr : (Msg.wcSet seq mode).inRange = true) :
    ∃ c, (Msg.wcSet seq mode).content = .ok c ∧ decode .watercare c = .ok (.watercare (some seq) (some mode) false false) := by
  obtain ⟨c, hc, h⟩ := roundtrip (.wcSet seq mode) hr rfl rfl
  exact ⟨c, hc, h _ (by simp [Msg.handlers])⟩

/-- FILES reply, every shipped platform name × EVERY pair of version numbers (not only 0..99) -/
theorem files_roundtrip : ∀ p ∈ platformNames, ∀ cv lv : Nat,
    ∃ c, (Msg.configResponse p cv lv).content = .ok c ∧
      decode .config c = .ok (.config none (some (if p == mrstAlias.1 then mrstAlias.2 else p, Int.ofNat cv, Int.ofNat lv)) true) := by
  intro p hp cv lv
  have hg : GoodName p = true := by
    revert p; decide
  obtain ⟨c, hc, h⟩ := roundtrip (.configResponse p cv lv) rfl rfl hg
  exact ⟨c, hc, h _ (by simp [Msg.handlers])⟩

/-! ## 3. hello -/

theorem hello_broadcast_roundtrip : decode .hello (helloFrame helloBroadcastContent) = .ok Msg.helloBroadcast.fields :=
  hello_broadcast_rt helloSplitMax

theorem hello_client_roundtrip (id : Bytes) (h : (Msg.helloClient id).inDomain = true) :
    decode .hello (helloFrame id) = .ok (Msg.helloClient id).fields :=
  hello_client_rt helloSplitMax id h

/-- the repaired decoder (`split(b"|", 1)`): ANY name, including names containing `|` -/
theorem hello_roundtrip_split1 (n : Nat) (id name : Bytes) (h : (Msg.helloResponse id name).inDomain = true) :
    decodeHelloWith (some n) (helloFrame (id ++ [helloSep] ++ name)) = .ok (Msg.helloResponse id name).fields := by
  simp only [Msg.inDomain, Bool.and_eq_true, Bool.not_eq_true', List.contains_eq_mem, decide_eq_false_iff_not] at h
  exact hello_response_rt_split1 n id name h.1 h.2

/-- the decoder without `maxsplit`: names WITHOUT the separator byte -/
theorem hello_roundtrip_split (id name : Bytes) (h : (Msg.helloResponse id name).inDomain = true) (hname : helloSep ∉ name) :
    decodeHelloWith none (helloFrame (id ++ [helloSep] ++ name)) = .ok (Msg.helloResponse id name).fields := by
  simp only [Msg.inDomain, Bool.and_eq_true, Bool.not_eq_true', List.contains_eq_mem, decide_eq_false_iff_not] at h
  exact hello_response_rt_split id name h.1 hname h.2

/-- **hello response round trip, FULL**: the decoder of the source (`split(b"|", 1)`) returns identifier and name for
EVERY name — including names containing the separator `|` — and every identifier in the domain -/
theorem hello_roundtrip (id name : Bytes) (h : (Msg.helloResponse id name).inDomain = true) :
    decode .hello (helloFrame (id ++ [helloSep] ++ name)) = .ok (Msg.helloResponse id name).fields := by
  show decodeHelloWith helloSplitMax _ = _
  rw [show helloSplitMax = some 1 from rfl]
  exact hello_roundtrip_split1 1 id name h

/-- what D2 was: spa "SPA" named "a|b" is in the domain, is encoded, and the OLD decoder (`split` without `maxsplit`) raises
ValueError — while the decoder of the source now returns the name -/
theorem hello_name_with_bar_fails :
    (Msg.helloResponse [83, 80, 65] [97, 124, 98]).inDomain = true ∧
    (Msg.helloResponse [83, 80, 65] [97, 124, 98]).sendBytes [] [] = .ok (helloFrame [83, 80, 65, 124, 97, 124, 98]) ∧
    decodeHelloWith none (helloFrame [83, 80, 65, 124, 97, 124, 98]) = .error .valueErr ∧
    decode .hello (helloFrame [83, 80, 65, 124, 97, 124, 98]) = .ok (.hello false none (some [83, 80, 65]) (some [97, 124, 98])) := by
  decide

/-! ## 4. packet framing -/

theorem frame_eq (p2 p3 c : Bytes) : frame p2 p3 c = PACKET_OPEN ++ frameBody p3 p2 c ++ PACKET_CLOSE := by
  simp [frame, frameBody, parm, sendSrcIndex, sendDstIndex]

theorem frameBody_lits (src dst payload : Bytes) : frameBody src dst payload =
    regexLits.1 ++ (src ++ (regexLits.2.1 ++ (dst ++ (regexLits.2.2.1 ++ (payload ++ regexLits.2.2.2))))) := by
  simp [frameBody, regexLits, SRCCN_OPEN, SRCCN_CLOSE, DESCN_OPEN, DESCN_CLOSE, DATAS_OPEN, DATAS_CLOSE]

/-- three greedy groups: identifiers without `<`, payload not containing `</DESCN><DATAS>` -/
theorem frame_roundtrip_greedy (src dst payload : Bytes) (hs : 60 ∉ src) (hd : 60 ∉ dst)
    (hp : occurs (DESCN_CLOSE ++ DATAS_OPEN) payload = false) :
    decodePacketWith (true, true, true) (frame dst src payload) = .ok (.packet (some src) (some dst) (some payload)) := by
  rw [frame_eq]
  unfold decodePacketWith
  rw [sliceNegEnd_frame _ _ _ (by decide) (by decide), frameBody_lits]
  have hp' : occurs regexLits.2.2.1 (payload ++ regexLits.2.2.2) = false :=
    occurs_append _ _ (by decide) (by decide) payload hp
  have := matchHere_greedy regexLits 60 _ 60 _ rfl rfl (by decide) (by decide) (by decide) (by decide) src dst payload
    (allClash_of_not_mem _ 60 _ rfl src hs) (allClash_of_not_mem _ 60 _ rfl dst hd) (allClash_of_not_mem _ 60 _ rfl dst hd) hp'
  rw [search_of_matchHere _ _ _ _ this]

/-- the repaired regex (lazy, lazy, greedy): identifiers without `<`, ARBITRARY payload bytes -/
theorem frame_roundtrip_lazy (src dst payload : Bytes) (hs : 60 ∉ src) (hd : 60 ∉ dst) :
    decodePacketWith (false, false, true) (frame dst src payload) = .ok (.packet (some src) (some dst) (some payload)) := by
  rw [frame_eq]
  unfold decodePacketWith
  rw [sliceNegEnd_frame _ _ _ (by decide) (by decide), frameBody_lits]
  have := matchHere_lazy regexLits (by decide) src dst payload
    (allClash_of_not_mem _ 60 _ rfl src hs) (allClash_of_not_mem _ 60 _ rfl dst hd)
  rw [search_of_matchHere _ _ _ _ this]

/-- **packet framing round trip, FULL**: the regex of the source (lazy, lazy, greedy) recovers source identifier,
destination identifier and payload for ARBITRARY payload bytes (newlines, NULs, tag-like text, whole delimiter runs) and
all identifiers without `<` -/
theorem frame_roundtrip (src dst payload : Bytes) (hs : 60 ∉ src) (hd : 60 ∉ dst) :
    decodePacket (frame dst src payload) = .ok (.packet (some src) (some dst) (some payload)) := by
  show decodePacketWith regexGreedy _ = _
  rw [show regexGreedy = (false, false, true) from rfl]
  exact frame_roundtrip_lazy src dst payload hs hd

/-- what D3 was: src "A", dst "B", payload `x</SRCCN><DESCN>y</DESCN><DATAS>z` — with the OLD three greedy groups source
id, destination id and content all come back wrong; with the regex of the source they come back right -/
theorem frame_roundtrip_fails :
    decodePacketWith (true, true, true)
      (frame [66] [65] ([120] ++ SRCCN_CLOSE ++ DESCN_OPEN ++ [121] ++ DESCN_CLOSE ++ DATAS_OPEN ++ [122])) =
      .ok (.packet (some ([65] ++ SRCCN_CLOSE ++ DESCN_OPEN ++ [66] ++ DESCN_CLOSE ++ DATAS_OPEN ++ [120])) (some [121]) (some [122])) ∧
    decodePacket (frame [66] [65] ([120] ++ SRCCN_CLOSE ++ DESCN_OPEN ++ [121] ++ DESCN_CLOSE ++ DATAS_OPEN ++ [122])) =
      .ok (.packet (some [65]) (some [66]) (some ([120] ++ SRCCN_CLOSE ++ DESCN_OPEN ++ [121] ++ DESCN_CLOSE ++ DATAS_OPEN ++ [122]))) := by
  decide +kernel

/-- **reply addressing, FULL**: a reply built with the parms a packet handler holds after `handle(received, sender)`
carries the received destination as its source and the received source as its destination — whatever the payloads -/
theorem reply_swaps (src dst payload reply : Bytes) (hs : 60 ∉ src) (hd : 60 ∉ dst) :
    replyTo (PACKET_OPEN ++ frameBody src dst payload ++ PACKET_CLOSE) reply =
      some (PACKET_OPEN ++ frameBody dst src reply ++ PACKET_CLOSE) := by
  have := frame_roundtrip src dst payload hs hd
  rw [frame_eq] at this
  unfold replyTo
  rw [this]
  show some (frame src dst reply) = _
  rw [frame_eq]

/-- **sender to receiver, FULL**: for every message form, all in-range in-domain field values and all `<`-free identifier
pairs: `send_bytes` of the built handler, `handle` of the packet handler (identifiers and content recovered), then
`handle` of every handler class of the verb (fields recovered) -/
theorem wire_roundtrip (m : Msg) (p2 p3 : Bytes) (hr : m.inRange = true) (hh : m.isHello = false)
    (hd : m.inDomain = true) (h2 : 60 ∉ p2) (h3 : 60 ∉ p3) :
    ∃ dg c, m.sendBytes p2 p3 = .ok dg ∧ m.content = .ok c ∧
      decodePacket dg = .ok (.packet (some p3) (some p2) (some c)) ∧
      ∀ k ∈ m.handlers, decode k c = .ok m.fields := by
  obtain ⟨c, hc, hk⟩ := roundtrip m hr hh hd
  exact ⟨frame p2 p3 c, c, by simp [Msg.sendBytes, hc, hh], hc, frame_roundtrip p3 p2 c h3 h2, hk⟩

/-! ## 5. claimed by exactly its handler -/

/-- no verb is a prefix of another verb or of a tag (nor vice versa), and the verbs are pairwise distinct -/
theorem verbs_prefix_free :
    allVerbs.Nodup ∧
    ∀ v ∈ allVerbs, ∀ w ∈ allVerbs ++ allTags, v ≠ w → v.isPrefixOf w = false ∧ w.isPrefixOf v = false := by
  decide

/-- no message the library builds is an orphan: the verb of every form is tested by the `can_handle` of every handler
class meant for it (the verb lists are read from the source) -/
theorem orphan_none (m : Msg) : m.orphan = false := by
  cases m <;> first | rfl | (simp only [Msg.orphan, Msg.verb, Msg.handlers]; decide)

/-- **claimed by exactly its handler, FULL**: the content of EVERY message the library builds is accepted by exactly the
handler class(es) of its verb among the standard handler classes, whatever its field values -/
theorem claimed_by_exactly (m : Msg) (hh : m.isHello = false) (c : Bytes) (hc : m.content = .ok c) :
    ∀ k ∈ standardHandlers, canHandle k c = m.handlers.contains k := by
  obtain ⟨b, _, rfl⟩ := content_ok hc
  have table : ∀ v, m.verb = some v → v ∈ allVerbs ∧
      ∀ k ∈ standardHandlers, (k == .unhandled || k.claims.contains v) = m.handlers.contains k := by
    cases m <;> first
      | (intro v hv; simp only [Msg.verb, Option.some.injEq] at hv; subst hv; simp only [Msg.handlers]; decide)
      | (simp [Msg.isHello] at hh; done)
  cases hv : m.verb with
  | none => cases m <;> first | (simp [Msg.isHello] at hh; done) | (simp [Msg.verb] at hv; done)
  | some v =>
    obtain ⟨hmem, ht⟩ := table v hv
    intro k hk
    simp only [Option.getD]
    rw [canHandle_verb k v b hmem]
    exact ht k hk

/-- on the wire: a hello datagram is claimed by the hello handler only, every packet datagram by the packet handler
only — for arbitrary identifiers and content -/
theorem datagram_claimed (m : Msg) (p2 p3 dg : Bytes) (h : m.sendBytes p2 p3 = .ok dg) :
    ∀ k ∈ standardHandlers, canHandle k dg = (k == if m.isHello then Handler.hello else Handler.packet) := by
  unfold Msg.sendBytes at h
  cases hc : m.content with
  | error e => rw [hc] at h; cases h
  | ok c =>
    rw [hc] at h
    cases h
    intro k hk
    cases hm : m.isHello
    · simp only [if_false, Bool.false_eq_true, canHandle_frame]
      cases k <;> first | rfl | (exact absurd hk (by decide))
    · simp only [if_true, canHandle_helloFrame]
      cases k <;> first | rfl | (exact absurd hk (by decide))

/-- what D4 was: the OLD verb list of `GeckoWatercareProtocolHandler.can_handle` (GETWC, WCGET, REQWC, WCSET) accepts neither
the SETWC nor the WCREQ content the library builds, whatever follows the verb; the list of the source accepts both -/
theorem old_watercare_claims_miss_setwc_wcreq (rest : Bytes) :
    [GETWC_VERB, WCGET_VERB, REQWC_VERB, WCSET_VERB].any (startsWith (SETWC_VERB ++ rest)) = false ∧
    [GETWC_VERB, WCGET_VERB, REQWC_VERB, WCSET_VERB].any (startsWith (WCREQ_VERB ++ rest)) = false ∧
    canHandle .watercare (SETWC_VERB ++ rest) = true ∧ canHandle .watercare (WCREQ_VERB ++ rest) = true := by
  refine ⟨?_, ?_, ?_, ?_⟩
  · rw [any_startsWith_verb _ _ _ (by decide)]; decide
  · rw [any_startsWith_verb _ _ _ (by decide)]; decide
  · rw [canHandle_verb _ _ _ (by decide)]; decide
  · rw [canHandle_verb _ _ _ (by decide)]; decide

/-! ## 6. the byte layout: the captured vectors of tests/test_protocol.py (re-extracted on every run) -/

open GeckoModel.Generated.WirePins in
/-- every constructor vector: the model's `send_bytes` is the literal the author pinned -/
theorem pinned_encode : ∀ v ∈ encodeVectors, v.2.1.sendBytes v.2.2.1 v.2.2.2.1 = .ok v.2.2.2.2 := by decide +kernel

open GeckoModel.Generated.WirePins in
/-- every `handle()` vector: the model decodes the pinned bytes to the asserted attribute values -/
theorem pinned_decode : ∀ v ∈ decodeVectors, checkDecodeVector v = true := by decide +kernel

open GeckoModel.Generated.WirePins in
/-- every `can_handle` assertion -/
theorem pinned_claims : ∀ v ∈ claimVectors, canHandle v.2.1 v.2.2.1 = v.2.2.2 := by decide +kernel

open GeckoModel.Generated.WirePins in
/-- the extraction found the vectors (a renamed test file or changed idiom empties the lists: then this fails) -/
theorem pinned_present : 20 ≤ encodeVectors.length ∧ 20 ≤ decodeVectors.length ∧ 30 ≤ claimVectors.length := by decide

/-! ## 7. non-vacuity -/

example : (Msg.setValue 200 6 9 9 15 2 702).inRange = true ∧ (Msg.setValue 200 6 9 9 15 2 702).inDomain = true := by decide
example : (Msg.setValue 200 6 9 9 15 3 702).inRange = false ∧ (Msg.versionRequest 256).inRange = false ∧
    (Msg.remindersResponse [(1, 32768)]).inRange = false ∧ (Msg.statusRequest 1 (-1) 0).inRange = false := by decide
example : (Msg.setValue 200 6 9 9 15 3 702).content = .error .overflowErr ∧ (Msg.versionRequest 256).content = .error .structErr := by
  decide
example : (Msg.partialUpdate [(365, [3, 132]), (366, [132, 12])]).inRange = true ∧ StatpOK [(365, [3, 132]), (366, [132, 12])] = true ∧
    StatpOK [(365, [3])] = true ∧ StatpOK [(365, [3]), (366, [132, 12])] = false := by decide
example : (Msg.helloResponse [83, 80, 65] [97, 124, 98]).inDomain = true ∧ (Msg.helloClient [73, 79, 83, 49]).inDomain = true ∧
    (Msg.helloClient [67, 76]).inDomain = false := by decide
example : (60 : UInt8) ∉ [73, 79, 83, 49] ∧ occurs (DESCN_CLOSE ++ DATAS_OPEN) [10, 0, 60, 47, 68, 65, 84, 65, 83, 62] = false ∧
    occurs (DESCN_CLOSE ++ DATAS_OPEN) ([1] ++ DESCN_CLOSE ++ DATAS_OPEN ++ [2]) = true := by decide
example : (Msg.versionRequest 7).orphan = false ∧ (Msg.statusSegment 1 0 [60]).orphan = false ∧ Handler.watercare ∈ standardHandlers := by decide
example : (Msg.setValue 200 6 9 9 15 2 702).isHello = false ∧ (Msg.wcSet 255 0).inRange = true ∧ (Msg.wcSet 255 0).inDomain = true ∧
    (Msg.statusSegment 3 0 [60, 47, 10, 0]).inRange = true ∧ (Msg.statusSegment 3 0 [60, 47, 10, 0]).inDomain = true := by decide
example : ([73, 110, 88, 77] : Bytes) ∈ platformNames ∧ ([77, 114, 83, 116] : Bytes) ∈ platformNames ∧ 14 ≤ platformNames.length := by decide
-- the generated facts the full-strength proofs rest on
example : helloSplitMax = some 1 ∧ regexGreedy = (false, false, true) ∧ claims_Watercare.contains SETWC_VERB = true ∧
    claims_Watercare.contains WCREQ_VERB = true := by decide
-- payloads the full framing theorem covers and the old one did not
example : occurs (DESCN_CLOSE ++ DATAS_OPEN) ([1] ++ SRCCN_CLOSE ++ DESCN_OPEN ++ [2] ++ DESCN_CLOSE ++ DATAS_OPEN ++ [3]) = true := by decide
example : (Msg.helloResponse [83, 80, 65, 48, 49] [77, 121, 32, 83, 112, 97]).inDomain = true := by decide
example : ∀ td ∈ [((1 : Int), (-13 : Int)), (6, 32767), (0, -32768)], td.1 ∈ reminderTypeValues ∧ -32768 ≤ td.2 ∧ td.2 < 32768 := by
  decide

/-! ## long-lived hello handler: what a message decodes to does not depend on what the same object decoded before -/

theorem hello_resets_everything :
    ∀ a ∈ ["was_broadcast_discovery", "_client_identifier", "_spa_identifier", "_spa_name"], a ∈ helloResetAttrs := by decide

/-- **history independence**: whatever the handler object holds from earlier hellos, `handle` gives the same result as on a
fresh instance - for every message, well-formed or not -/
theorem hello_history_independent (o : HelloObject.Obj) (bs : Bytes) :
    (HelloObject.handle o bs).1 = HelloObject.fresh bs := by
  have h : ∀ o : HelloObject.Obj, HelloObject.resetWith helloResetAttrs o = {} := by
    intro o
    have m1 : "was_broadcast_discovery" ∈ helloResetAttrs := hello_resets_everything _ (by simp)
    have m2 : "_client_identifier" ∈ helloResetAttrs := hello_resets_everything _ (by simp)
    have m3 : "_spa_identifier" ∈ helloResetAttrs := hello_resets_everything _ (by simp)
    have m4 : "_spa_name" ∈ helloResetAttrs := hello_resets_everything _ (by simp)
    simp [HelloObject.resetWith, m1, m2, m3, m4]
  unfold HelloObject.fresh HelloObject.handle HelloObject.handleWith
  simp only [h]

/-- why the reset list is an obligation: a handler that does not reset `was_broadcast_discovery` decodes a client hello as a
broadcast once it has seen one -/
example :
    let r := ["_client_identifier", "_spa_identifier", "_spa_name"]
    let o1 := (HelloObject.handleWith r {} (HELLO_OPEN ++ [49] ++ HELLO_CLOSE)).2
    ((HelloObject.handleWith r o1 (HELLO_OPEN ++ [73, 79, 83, 120] ++ HELLO_CLOSE)).2).bcast = true := by decide +kernel

/-- what a synchronous method / coroutine writes into its own object and which of its own methods or attributes it calls -/
private def stateOf (sk : GeckoModel.Coop.Sk) : List String × List String :=
  (GeckoModel.Coop.selfStateWritten sk, (GeckoModel.Coop.actions .call sk).filter GeckoModel.Coop.isSelfState)

/-- **decoders keep nothing but the fields of the message in hand** (state inventory over the regenerated skeletons): the packet
handler writes exactly content and parms (from THIS packet, on every call - no remembered envelope), the status-block handler its
message fields, the hello handler the four attributes of `helloResetAttrs` -/
theorem decoder_state_inventory :
    stateOf GeckoModel.Generated.Skeletons.sk_driver_protocol_packet__GeckoPacketProtocolHandler_handle =
      (["self._packet_content", "self._parms"], ["self._extract_packet_parts", "self._socket.dispatch_recevied_data"]) ∧
    stateOf GeckoModel.Generated.Skeletons.sk_driver_protocol_statusblock__GeckoStatusBlockProtocolHandler_handle =
      (["self.sequence", "self.start", "self.length", "self.sequence", "self.next", "self.length", "self.data"], []) ∧
    stateOf GeckoModel.Generated.Skeletons.sk_driver_protocol_hello__GeckoHelloProtocolHandler_handle =
      (["self.was_broadcast_discovery", "self._client_identifier", "self._spa_identifier", "self._spa_name",
        "self.was_broadcast_discovery", "self._client_identifier", "self._spa_identifier", "self._spa_name"], []) := by
  decide +kernel

/-! ### the claim and the removal of a datagram are one step -/

/-- **a datagram claimed by its verb's consumer is taken out of the queue before anything is awaited** (over the regenerated skeleton
of `GeckoUdpProtocolHandler.consume`, the loop every verb consumer runs): between the look at the head and the pop there is no
suspension point, so no other consumer - and not the sweeper of unhandled datagrams - can take or drop the datagram this consumer has
claimed, and the consumer never pops a datagram of another verb (round 17: the pop moved behind the awaited handler) -/
theorem claimed_datagram_is_popped_before_any_await :
    Coop.sectionsAtomic (fun a => a.kind == .read && a.name == "queue.head")
      (fun a => (a.kind == .call && a.name == "queue.pop") || a.kind == .brF)
      GeckoModel.Generated.Skeletons.sk_driver_udp_protocol_handler__GeckoUdpProtocolHandler_consume = true ∧
    "queue.pop" ∈ Coop.actions .call GeckoModel.Generated.Skeletons.sk_driver_udp_protocol_handler__GeckoUdpProtocolHandler_consume := by decide +kernel

end GeckoModel.C04
