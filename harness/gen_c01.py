"""translator plugin for C01: the segment-chain arithmetic of GeckoSimulator._on_status_block"""
import ast

from py2lean import Untranslatable, find_function, FnSpec, Translator, _dotted
import translate as T


class _Subst(ast.NodeTransformer):
    def __init__(self, m):
        self.m = m

    def visit_Attribute(self, node):
        d = _dotted(node)
        if d in self.m:
            return ast.copy_location(ast.Name(id=self.m[d], ctx=ast.Load()), node)
        return self.generic_visit(node)

    def visit_Call(self, node):
        d = ast.unparse(node)
        if d in self.m:
            return ast.copy_location(ast.Name(id=self.m[d], ctx=ast.Load()), node)
        return self.generic_visit(node)

    def visit_Name(self, node):
        if node.id in self.m:
            return ast.copy_location(ast.Name(id=self.m[node.id], ctx=ast.Load()), node)
        return node


def _def(name, params, expr, calls):
    fn = ast.FunctionDef(name="f", args=ast.arguments(posonlyargs=[], args=[ast.arg(arg=p) for p in params], kwonlyargs=[], kw_defaults=[], defaults=[]),
                         body=[ast.Return(value=expr)], decorator_list=[])
    spec = FnSpec(name, [(p, "Int") for p in params], "Int", mode="int", calls=calls)
    spec.self_name = "__none__"
    return Translator(spec).function(fn)


def gen_simchain():
    tree = T.parse("utils/simulator.py")
    cls = [n for n in tree.body if isinstance(n, ast.ClassDef) and n.name == "GeckoSimulator"][0]
    seg = None
    for st in cls.body:
        if isinstance(st, ast.Assign) and ast.unparse(st.targets[0]) == "_STATUS_BLOCK_SEGMENT_SIZE":
            if isinstance(st.value, ast.Constant) and isinstance(st.value.value, int) and st.value.value > 0:
                seg = st.value.value
    if seg is None:
        raise Untranslatable("_STATUS_BLOCK_SEGMENT_SIZE is not a positive int literal")
    fn = find_function(tree, "GeckoSimulator._on_status_block")
    loops = [n for n in fn.body if isinstance(n, ast.For)]
    if len(loops) != 1:
        raise Untranslatable("_on_status_block: expected one for loop")
    loop = loops[0]
    # the iterable: enumerate(range(handler.start, handler.start + handler.length, SEG)) possibly through a local name
    it = loop.iter
    rng_name = None
    if not (isinstance(it, ast.Call) and _dotted(it.func) == "enumerate" and len(it.args) == 1):
        raise Untranslatable("loop is not over enumerate(...)")
    rng = it.args[0]
    if isinstance(rng, ast.Name):
        rng_name = rng.id
        asg = [st for st in fn.body if isinstance(st, ast.Assign) and ast.unparse(st.targets[0]) == rng_name]
        if len(asg) != 1:
            raise Untranslatable("range variable not assigned exactly once")
        rng = asg[0].value
    if not (isinstance(rng, ast.Call) and _dotted(rng.func) == "range" and len(rng.args) == 3):
        raise Untranslatable("not a 3-argument range")
    want = ["handler.start", "handler.start + handler.length", "self._STATUS_BLOCK_SEGMENT_SIZE"]
    if [ast.unparse(a) for a in rng.args] != want:
        raise Untranslatable(f"range arguments {[ast.unparse(a) for a in rng.args]} != {want}")
    if not (isinstance(loop.target, ast.Tuple) and [ast.unparse(e) for e in loop.target.elts] == ["idx", "start"]):
        raise Untranslatable("loop target is not (idx, start)")
    body = loop.body
    asg = {ast.unparse(st.targets[0]): st.value for st in body if isinstance(st, ast.Assign) and len(st.targets) == 1}
    if "length" not in asg or "next" not in asg:
        raise Untranslatable("loop body does not assign length and next")
    # the response call must use idx, next and the slice [start : start + length]
    calls = [n for st in body for n in ast.walk(st) if isinstance(n, ast.Call) and (_dotted(n.func) or "").endswith("GeckoStatusBlockProtocolHandler.response")]
    if len(calls) != 1 or [ast.unparse(a) for a in calls[0].args] != ["idx", "next", "self.structure.status_block[start:start + length]"]:
        raise Untranslatable("response(...) arguments are not (idx, next, status_block[start:start+length])")
    m = {"self._STATUS_BLOCK_SEGMENT_SIZE": "SEG", "handler.length": "reqLen", "handler.start": "reqStart",
         "len(self.structure.status_block)": "blockLen"}
    if rng_name:
        m[f"len({rng_name})"] = "count"
    out = [T.HEADER, "set_option linter.unusedVariables false", "namespace GeckoModel.Generated\n",
           f"/-- GeckoSimulator._STATUS_BLOCK_SEGMENT_SIZE -/\ndef simSegSize : Nat := {seg}\n"]
    consts = {"SEG": f"({seg} : Int)"}
    for name, key in (("simSegLen", "length"), ("simSegNext", "next")):
        e = _Subst(m).visit(asg[key])
        fnast = ast.FunctionDef(name="f", args=ast.arguments(posonlyargs=[], args=[ast.arg(arg=p) for p in ("idx", "start", "reqStart", "reqLen", "blockLen", "count")],
                                                              kwonlyargs=[], kw_defaults=[], defaults=[]), body=[ast.Return(value=e)], decorator_list=[])
        spec = FnSpec(name, [(p, "Int") for p in ("idx", "start", "reqStart", "reqLen", "blockLen", "count")], "Int", mode="int",
                      consts=consts, calls={"min": "min", "max": "max"})
        spec.self_name = "__none__"
        out.append(f"/-- simulator.py `_on_status_block`: `{key} = {ast.unparse(asg[key])}` (count = number of segments of the range) -/")
        out.append(Translator(spec).function(fnast))
    out.append("end GeckoModel.Generated\n")
    return "\n".join(out)


def gen_statv_formats():
    """REQUEST_FORMAT / RESPONSE_FORMAT and the retry_count default of GeckoAsyncStructure.get"""
    tree = T.parse("driver/protocol/statusblock.py")
    vals = {}
    for st in tree.body:
        if isinstance(st, ast.Assign) and isinstance(st.value, ast.Constant):
            vals[ast.unparse(st.targets[0])] = st.value.value
    tree2 = T.parse("driver/async_spastruct.py")
    fn = find_function(tree2, "GeckoAsyncStructure.get")
    d = fn.args.defaults
    if len(d) != 1 or not isinstance(d[0], ast.Constant):
        raise Untranslatable("GeckoAsyncStructure.get retry_count default is not a literal")
    # GeckoStructure.retry_request: does the start of a transfer reset the assembly state (which lives on the structure)?
    tree3 = T.parse("driver/spastruct.py")
    rr = find_function(tree3, "GeckoStructure.retry_request")
    resets = {"_next_expected": False, "_status_block_segments": False}
    seen_send = False
    for st in rr.body:
        if any(isinstance(n, ast.Call) and (_dotted(n.func) or "").endswith("queue_send") for n in ast.walk(st)):
            seen_send = True
        if isinstance(st, ast.Assign) and len(st.targets) == 1 and not seen_send:
            t = ast.unparse(st.targets[0])
            v = ast.unparse(st.value)
            if t == "self._next_expected" and v == "0":
                resets["_next_expected"] = True
            if t == "self._status_block_segments" and v == "[]":
                resets["_status_block_segments"] = True
    out = [T.HEADER, "namespace GeckoModel.Generated\n",
           "/-- GeckoStructure.retry_request assigns `self._next_expected = 0` before queueing the request -/\n"
           f"def syncRequestResetsNext : Bool := {'true' if resets['_next_expected'] else 'false'}",
           "/-- GeckoStructure.retry_request assigns `self._status_block_segments = []` before queueing the request -/\n"
           f"def syncRequestResetsSegments : Bool := {'true' if resets['_status_block_segments'] else 'false'}",
           f'def statuRequestFormat : String := {T.lstr(vals.get("REQUEST_FORMAT", "?"))}',
           f'def statvResponseFormat : String := {T.lstr(vals.get("RESPONSE_FORMAT", "?"))}',
           f"/-- default `retry_count` of GeckoAsyncStructure.get -/\ndef structGetRetryDefault : Nat := {d[0].value}",
           "end GeckoModel.Generated\n"]
    return "\n".join(out)


GENERATORS = {"SimChain": gen_simchain, "TransferConsts": gen_statv_formats}
