"""Regenerate the table of independently written breaking changes in DESIGN.md (between the SEEDS markers) from seeded/*/meta.json."""
import json
import re
from pathlib import Path

V = Path(__file__).resolve().parent.parent
rows = []
for d in sorted((V / "seeded").iterdir()):
    mj = d / "meta.json"
    if not mj.exists():
        continue
    m = json.loads(mj.read_text())
    ver = m.get("verification", {})
    oc = ver.get("our_check", {})
    pid = m["property"]
    r = oc.get(pid, {}) if isinstance(oc, dict) else {}
    keys = [v["key"] for v in r.get("violations", []) if v.get("key")][:2]
    how = "failing input: " + ", ".join(f"`{k}`" for k in keys) if ver.get("detected_with_failing_input") else (
        "broken obligation only (no-failing-input-found)" if ver.get("detected") else "**missed**")
    if m.get("neutralised_by") and not ver.get("detected"):
        how = (f"no longer breaks the property since `fix:` {m['neutralised_by']['commit']} (its own demo passes with the change); "
               "before that fix: failing input")
    summ = re.sub(r"\s+", " ", m.get("summary", ""))[:230]
    rows.append(f"| {d.name} | {pid} | {', '.join(Path(f).name for f in m.get('files', []))} | {summ} | {how} |")
table = "\n".join(["| seed | property | file | change | caught by `./check <property>` (quick) |", "|---|---|---|---|---|"] + rows)
p = V / "DESIGN.md"
s = p.read_text()
a, b = "<!-- SEEDS:BEGIN -->", "<!-- SEEDS:END -->"
if a in s:
    s = s[:s.index(a) + len(a)] + "\n" + table + "\n" + s[s.index(b):]
    p.write_text(s)
print(table)
