"""Instrumentation of a real asyncio connection from the outside (no source hooks): records every put / pop / mark on the
receive queue with the virtual time and the handler object that did it, every lock acquire/release, every datagram sent.

Used by C06 / C07 (trace validation against the Lean transition systems) and by the whole-stack checks.
"""
import asyncio
import sys

import vloop


class Trace:
    def __init__(self, loop):
        self.loop = loop
        self.ev = []          # (ms, kind, who, payload)
        self.puts = []        # tuple objects in put order (identity = arrival number - 1)

    def ms(self):
        return int(round(self.loop.time() * 1000))

    def add(self, kind, who, payload=None):
        self.ev.append((self.ms(), kind, who, payload))

    def dgram_id(self, obj):
        for i, o in enumerate(self.puts):
            if o is obj:
                return i + 1
        return 0


def _caller_handler(depth=2):
    f = sys._getframe(depth)
    for _ in range(4):
        if f is None:
            break
        h = f.f_locals.get("self")
        if h is not None and hasattr(h, "can_handle"):
            return h, f.f_code.co_name
        f = f.f_back
    return None, "?"


class instrument:
    """context manager: patch AsyncPeekableQueue (class-wide) to record into `trace`"""

    def __init__(self, trace):
        self.t = trace

    def __enter__(self):
        from geckolib.driver import async_peekablequeue as m
        Q = m.AsyncPeekableQueue
        self.Q = Q
        self.saved = {k: Q.__dict__[k] for k in ("head", "is_marked", "pop", "mark")}
        self.saved_put = Q.__dict__.get("put_nowait")
        t = self.t
        o_head, o_marked, o_pop, o_mark = (self.saved["head"], self.saved["is_marked"], self.saved["pop"], self.saved["mark"])

        def head(q):
            v = o_head.fget(q)
            h, fn = _caller_handler()
            if h is not None and type(h).__name__ == "GeckoUnhandledProtocolHandler" and v is None:
                t.add("u-head-none", h)
            return v

        def is_marked(q):
            v = o_marked.fget(q)
            h, fn = _caller_handler()
            if h is not None and type(h).__name__ == "GeckoUnhandledProtocolHandler":
                t.add("u-is-marked", h, v)
            return v

        def pop(q):
            obj = q._queue[0] if q.qsize() else None
            h, fn = _caller_handler()
            t.add("pop", h, (t.dgram_id(obj), obj[0] if obj else None, fn))
            return o_pop(q)

        def mark(q):
            obj = q._queue[0] if q.qsize() else None
            h, fn = _caller_handler()
            t.add("mark", h, (t.dgram_id(obj), obj[0] if obj else None))
            return o_mark(q)

        def put_nowait(q, item):
            t.puts.append(item)
            t.add("put", None, (len(t.puts), item[0], item[1]))
            return asyncio.queues.Queue.put_nowait(q, item)

        Q.head = property(head)
        Q.is_marked = property(is_marked)
        Q.pop = pop
        Q.mark = mark
        Q.put_nowait = put_nowait
        return self

    def __exit__(self, *a):
        for k, v in self.saved.items():
            setattr(self.Q, k, v)
        if self.saved_put is None:
            try:
                del self.Q.put_nowait
            except Exception:
                pass
        else:
            self.Q.put_nowait = self.saved_put


class Desc:
    """spa descriptor stub"""

    def __init__(self, ip="10.0.0.1", port=10022, identifier=b"SPA01:02:03:04:05:06", name="Spa"):
        self.destination = (ip, port)
        self.identifier = identifier
        self.name = name
        self.ipaddress = ip
        self.port = port
        self.client_identifier = b"IOSclient"

    @property
    def identifier_as_string(self):
        return self.identifier.decode("latin1")


def frame(src: bytes, dst: bytes, content: bytes) -> bytes:
    return b"<PACKT><SRCCN>" + src + b"</SRCCN><DESCN>" + dst + b"</DESCN><DATAS>" + content + b"</DATAS></PACKT>"
