"""Fake network for the whole-stack checks (C09, C10, C13): connects the FakeTransports handed out by the virtual loop to
the REAL GeckoSimulator's handlers (driven without its thread) under an adversarial, scripted fault pattern.

  Network(loop, sim, script)   loop.network = this; every client sendto is fed to the simulator (unless the current phase
                               drops it), the simulator's queued replies are delivered back after `latency` seconds, FIFO-stable.
  phases                       list of (duration_s, mode) with mode in 'healthy' | 'blackout' | 'lossy:<p>' | 'rferr'; after the
                               last phase the network is healthy for ever.
  make_sim(snapshot_path)      a real GeckoSimulator with a shipped snapshot loaded, its socket never opened.
"""
import random

SIM_ADDR = ("10.0.0.9", 10022)


def make_sim(snapshot_path, cls=None):
    from geckolib.utils.simulator import GeckoSimulator
    from geckolib.utils.snapshot import GeckoSnapshot
    import builtins
    real_print = builtins.print
    builtins.print = lambda *a, **k: None          # the simulator chats on stdout
    try:
        sim = (cls or GeckoSimulator)()
        snaps = GeckoSnapshot.parse_log_file(str(snapshot_path))
        sim.set_snapshot(snaps[0])
    finally:
        builtins.print = real_print
    return sim


class Network:
    def __init__(self, loop, sim, phases=(), seed=0, latency=0.002):
        self.loop, self.sim = loop, sim
        self.phases = list(phases)
        self.rng = random.Random(seed)
        self.latency = latency
        self.transports = []
        self.t0 = loop.time()
        self.log = []           # (t, dir, data)
        self.order = 0
        self.dropped = 0

    def attach(self, tr):
        self.transports.append(tr)

    def mode(self):
        """phases = [(duration_s | "until:<STATE>", mode)]; a trigger phase lasts until `state_fn()` first returns <STATE>
        (state_fn is set by the harness, e.g. the manager's state name); afterwards the network is healthy for good.
        modes: healthy | blackout | rferr | rferr-nonping (RFERR to everything but pings) | lossy:<p> | noping (every APING datagram is lost, both ways) |
               first:<n> (the first n transmissions of each request verb are lost) |
               seg:<k> / segonce:<k> (segment k of a status block answer is lost: always / the first time only) | combinations joined by '+'"""
        now = self.loop.time()
        if not hasattr(self, "_ends"):
            self._ends, self._cur = [], self.t0            # absolute end times of finished phases
        while len(self._ends) < len(self.phases):
            dur, mode = self.phases[len(self._ends)]
            if isinstance(dur, str):
                want = dur.split(":", 1)[1]
                fn = getattr(self, "state_fn", None)
                if fn is not None and fn() == want:
                    self._ends.append(now)
                    self._cur = now
                    continue
                return mode
            if now < self._cur + dur:
                return mode
            self._cur += dur
            self._ends.append(self._cur)
        return "healthy"

    def healthy_from(self):
        """absolute time from which the network is healthy for good (None while a trigger phase is still open)"""
        self.mode()
        if len(self._ends) < len(self.phases):
            if any(isinstance(d, str) for d, _ in self.phases[len(self._ends):]):
                return None
            return self._cur + sum(d for d, _ in self.phases[len(self._ends):])
        return self._ends[-1] if self._ends else self.t0

    @staticmethod
    def _verb(data):
        i = data.find(b"<DATAS>")
        return bytes(data[i + 7:i + 12]) if i >= 0 else bytes(data[:5])

    def _drop(self, data=b"", outbound=False):
        for m in self.mode().split("+"):
            if m == "blackout":
                return True
            if m.startswith("lossy:") and self.rng.random() < float(m.split(":")[1]):
                return True
            if m == "noping" and self._verb(data) == b"APING":
                return True
            if (m.startswith("seg:") or m.startswith("segonce:")) and not outbound and self._verb(data) == b"STATV":
                # one segment of a status block answer is lost (seg:<k> every time while the mode lasts, segonce:<k> the first time only)
                i = data.find(b"<DATAS>")
                seq = data[i + 12] if i >= 0 and len(data) > i + 12 else None
                if seq == int(m.split(":")[1]):
                    if m.startswith("seg:"):
                        return True
                    if not getattr(self, "_segonce_done", False):
                        self._segonce_done = True
                        return True
            if m.startswith("first:") and outbound and self._verb(data) not in (b"APING", b"<HELL"):
                if not hasattr(self, "_seen"):
                    self._seen = {}
                v = self._verb(data)
                self._seen[v] = self._seen.get(v, 0) + 1
                if self._seen[v] <= int(m.split(":")[1]):
                    return True
        return False

    def sendto(self, tr, data, addr):
        """client -> spa"""
        self.log.append((self.loop.time(), "c>s", data))
        hook = getattr(self, "on_client_datagram", None)
        if hook is not None:
            hook(data)
        if self._drop(data, outbound=True):
            self.dropped += 1
            return
        self.loop.call_later(self.latency, self._to_sim, tr, data)

    def _to_sim(self, tr, data):
        import builtins
        real_print = builtins.print
        builtins.print = lambda *a, **k: None
        try:
            sim = self.sim
            # rferr: the spa answers EVERY request with RFERR; rferr-nonping: every request except pings (the in.touch2 EN module
            # answers the ping itself, the RF link to the CO module behind it is what is down)
            mode_ = self.mode()
            sim._do_rferr = mode_ == "rferr" or (mode_ == "rferr-nonping" and b"APING" not in data)
            try:
                sim._socket.dispatch_recevied_data(data, tr.addr)
            except Exception:  # noqa
                pass
            out = list(sim._socket._send_handlers)
            sim._socket._send_handlers.clear()
        finally:
            builtins.print = real_print
        for handler, dest in out:
            try:
                payload = handler.send_bytes
            except Exception:  # noqa
                continue
            target = [t for t in self.transports if t.addr[:2] == tuple(dest[:2]) and not t.closed]
            for t in target:
                if self._drop(payload):
                    self.dropped += 1
                    continue
                self.order += 1
                # FIFO-stable: equal-time deliveries keep their order (the loop's timer heap is not stable on ties)
                self.loop.call_later(self.latency + self.order * 1e-6, self._deliver, t, payload)

    def _deliver(self, t, payload):
        self.log.append((self.loop.time(), "s>c", payload))
        before = getattr(self, "on_before_deliver", None)
        if before is not None:
            before(t, payload)          # e.g. to deliver something of the spa's own right IN FRONT of this datagram
        t.deliver(payload, SIM_ADDR)
        hook = getattr(self, "on_deliver", None)
        if hook is not None:
            hook(t, payload)            # e.g. to send something of the spa's own right BEHIND this datagram

    def push(self, tr, payload):
        """unsolicited spa -> client datagram (partial updates)"""
        self.order += 1
        self.loop.call_later(self.latency + self.order * 1e-6, self._deliver, tr, payload)
