"""translator plugin for C05: facts and arithmetic of the partial-update handlers (statusblock.py, spa.py, async_spa.py)"""
import ast

from py2lean import Untranslatable, find_function, FnSpec, Translator, _dotted
import translate as T


def _slice_bounds(fn, target_desc, pick):
    """the (lower, upper) expressions of `remainder[lo:hi]` slices inside the for loop, in source order"""
    loops = [n for n in ast.walk(fn) if isinstance(n, ast.For)]
    if len(loops) != 1:
        raise Untranslatable(f"{target_desc}: expected one for loop")
    loop = loops[0]
    if not (isinstance(loop.iter, ast.Call) and _dotted(loop.iter.func) == "range" and len(loop.iter.args) == 1
            and ast.unparse(loop.iter.args[0]) == "change_count" and isinstance(loop.target, ast.Name)):
        raise Untranslatable(f"{target_desc}: loop is not `for i in range(change_count)`")
    ivar = loop.target.id
    sl = [n for n in ast.walk(loop) if isinstance(n, ast.Subscript) and isinstance(n.slice, ast.Slice)
          and isinstance(n.value, ast.Name) and n.value.id == "remainder"]
    sl.sort(key=lambda n: (n.lineno, n.col_offset))
    if len(sl) != 2:
        raise Untranslatable(f"{target_desc}: expected two remainder[...] slices in the loop")
    return ivar, [(s.slice.lower, s.slice.upper) for s in sl]


def _nat_fn(name, ivar, expr):
    fn = ast.FunctionDef(name="f", args=ast.arguments(posonlyargs=[], args=[ast.arg(arg=ivar)], kwonlyargs=[], kw_defaults=[], defaults=[]),
                         body=[ast.Return(value=expr)], decorator_list=[])
    spec = FnSpec(name, [(ivar, "Nat")], "Nat", mode="nat")
    spec.self_name = "__none__"
    return Translator(spec).function(fn)


def _index_of(stmts, pred):
    for i, st in enumerate(stmts):
        for n in ast.walk(st):
            if pred(n):
                return i
    return None


def gen_partial():
    tree = T.parse("driver/protocol/statusblock.py")
    out = [T.HEADER, "namespace GeckoModel.Generated\n"]
    for cls, tag in (("GeckoAsyncPartialStatusBlockProtocolHandler", "Async"), ("GeckoPartialStatusBlockProtocolHandler", "Sync")):
        meth = "async_handle" if tag == "Async" else "handle"
        fn = find_function(tree, f"{cls}.{meth}")
        ivar, bounds = _slice_bounds(fn, f"{cls}.{meth}", None)
        (plo, phi), (dlo, dhi) = bounds
        out.append(f"/-- {cls}.{meth}: `remainder[recPosLo i : recPosHi i]` is the position, `remainder[recDataLo i : recDataHi i]` the data of record i -/")
        for nm, e in (("recPosLo", plo), ("recPosHi", phi), ("recDataLo", dlo), ("recDataHi", dhi)):
            out.append(_nat_fn(nm + tag, ivar, e))
        body = fn.body
        # order facts: ack is queued before the change count is unpacked; reset of self.changes (async only) before the loop
        i_send = _index_of(body, lambda n: isinstance(n, ast.Call) and isinstance(n.func, ast.Attribute) and n.func.attr == "queue_send")
        i_cnt = _index_of(body, lambda n: isinstance(n, ast.Assign) and ast.unparse(n.targets[0]) == "change_count")
        i_loop = _index_of(body, lambda n: isinstance(n, ast.For))
        i_reset = _index_of(body, lambda n: isinstance(n, ast.Assign) and ast.unparse(n.targets[0]) == "self.changes"
                            and isinstance(n.value, ast.List) and not n.value.elts)
        if None in (i_send, i_cnt, i_loop):
            raise Untranslatable(f"{cls}.{meth}: missing ack / count / loop")
        out.append(f"def ackBeforeParse{tag} : Bool := {'true' if i_send < i_cnt else 'false'}")
        out.append(f"/-- `self.changes = []` between the acknowledgement and the record loop -/\n"
                   f"def resetsChanges{tag} : Bool := {'true' if (i_reset is not None and i_reset < i_loop) else 'false'}")
        # which counter the ack draws from
        kinds = [n.args[0].value for n in ast.walk(fn) if isinstance(n, ast.Call) and isinstance(n.func, ast.Attribute)
                 and n.func.attr == "get_and_increment_sequence_counter" and n.args and isinstance(n.args[0], ast.Constant)]
        if len(kinds) != 1:
            raise Untranslatable(f"{cls}.{meth}: expected one counter call")
        out.append(f"def ackUsesCommandCounter{tag} : Bool := {'true' if kinds[0] else 'false'}")
        # `remainder` is what follows the 5-byte verb: every assignment to it in the method is `received_bytes[N:]` with the same constant N
        rems = [n for n in ast.walk(fn) if isinstance(n, ast.Assign) and ast.unparse(n.targets[0]) == "remainder"]
        skips = set()
        for r_ in rems:
            v = r_.value
            if not (isinstance(v, ast.Subscript) and ast.unparse(v.value) == "received_bytes" and isinstance(v.slice, ast.Slice)
                    and v.slice.upper is None and v.slice.step is None and isinstance(v.slice.lower, ast.Constant) and isinstance(v.slice.lower.value, int)):
                raise Untranslatable(f"{cls}.{meth}: `remainder` is not `received_bytes[<constant>:]` ({ast.unparse(v)})")
            skips.add(v.slice.lower.value)
        if len(skips) != 1:
            raise Untranslatable(f"{cls}.{meth}: expected one constant verb length, found {sorted(skips)}")
        out.append(f"/-- `remainder = received_bytes[verbSkip:]` -/\ndef verbSkip{tag} : Nat := {skips.pop()}")
        # change_count is the first byte
        cnt = [n for n in ast.walk(fn) if isinstance(n, ast.Assign) and ast.unparse(n.targets[0]) == "change_count"][0]
        out.append(f"def countIsFirstByte{tag} : Bool := {'true' if 'remainder[0:1]' in ast.unparse(cnt.value) and chr(62)+'B' in ast.unparse(cnt.value) else 'false'}\n")
    # the threaded client reads datagrams into a buffer of this many bytes (a longer datagram is truncated by the OS)
    tree_s = T.parse("driver/udp_socket.py")
    sizes = [st.value.value for cls_ in tree_s.body if isinstance(cls_, ast.ClassDef) and cls_.name == "GeckoUdpSocket"
             for st in cls_.body if isinstance(st, ast.Assign) and ast.unparse(st.targets[0]) == "_MAX_PACKET_SIZE"
             and isinstance(st.value, ast.Constant) and isinstance(st.value.value, int)]
    fn_r = find_function(tree_s, "GeckoUdpSocket._process_received_data")
    reads = [n for n in ast.walk(fn_r) if isinstance(n, ast.Call) and isinstance(n.func, ast.Attribute) and n.func.attr == "recvfrom"]
    if len(sizes) != 1 or len(reads) != 1 or ast.unparse(reads[0].args[0]) != "self._MAX_PACKET_SIZE":
        raise Untranslatable("udp_socket.py: expected one `_MAX_PACKET_SIZE = <int>` and one `recvfrom(self._MAX_PACKET_SIZE)`")
    out.append(f"/-- udp_socket.py: `self._socket.recvfrom(self._MAX_PACKET_SIZE)` -/\ndef recvBufferSize : Nat := {sizes[0]}\n")
    # the threaded client's callback: apply all, then clear in the for...else
    tree2 = T.parse("spa.py")
    fn = find_function(tree2, "GeckoSpa._on_partial_status_update")
    loops = [n for n in fn.body if isinstance(n, ast.For)]
    ok = len(loops) == 1 and ast.unparse(loops[0].iter) == "handler.changes" and any(
        isinstance(n, ast.Call) and ast.unparse(n.func) == "handler.changes.clear" for st in loops[0].orelse for n in ast.walk(st))
    applies = len(loops) == 1 and "replace_status_block_segment(change[0], change[1])" in ast.unparse(loops[0])
    out.append(f"/-- spa.py `_on_partial_status_update`: apply every pending change in list order, then `handler.changes.clear()` -/\n"
               f"def syncClearsAfterApply : Bool := {'true' if ok else 'false'}\ndef syncAppliesInOrder : Bool := {'true' if applies else 'false'}")
    tree3 = T.parse("async_spa.py")
    fn = find_function(tree3, "GeckoAsyncSpa._async_on_partial_status_update")
    loops = [n for n in fn.body if isinstance(n, ast.For)]
    applies = len(loops) == 1 and ast.unparse(loops[0].iter) == "handler.changes" and \
        "replace_status_block_segment(change[0], change[1])" in ast.unparse(loops[0])
    out.append(f"def asyncAppliesInOrder : Bool := {'true' if applies else 'false'}")
    out.append("end GeckoModel.Generated\n")
    return "\n".join(out)


GENERATORS = {"PartialFacts": gen_partial}
