"""gen_c11.py - translator plugin for C11 (facade totality).

GENERATORS["FacadeConsts"] -> Generated/FacadeConsts.lean   (the five core key names + DEVICES: what `Req` depends on)
GENERATORS["FacadeFacts"]  -> Generated/FacadeFacts.lean    (everything else; a change here does not rebuild the table obligations)
    the constants the facade consults (GeckoConstants.DEVICES / SENSORS / BINARY_SENSORS / WATERCARE_MODE_STRING / key names /
    device classes, the heater's class constants, GeckoReminderType.to_string for 0..7), read by IMPORTING the modules of the
    working tree, plus two syntactic facts read from the ast:
      * the comparison operator of the upper range guard in GeckoWaterCare.__str__ (`>` today: finding D5b)
      * GeckoAutomationBase.monitor / Observable._on_change format the sender eagerly (f-string), so a change notification
        evaluates `str(sender)`

MULTI["C11Combos"] -> Generated/C11Combos/<module>.lean, Generated/C11Combos/Universe.lean, Generated/C11CombosIndex.lean
    * Universe: per platform, every output key one of its config tables advertises
    * one file per config / log table with ONE kernel-evaluated obligation: `cfgOKb U m = true` / `logOKb U m = true`
      (what the table contributes to `Facade.Req`), emitted only when the Python reading of the same predicate says it holds
      (a wrong guess can only make the Lean build fail)
    * the index: `allCombos` (every platform x cfg x log combination, referring to the per-module tables of Generated/Packs,
      so the merged key table of a combination is built in Lean from the per-module tables: log wins), the proof that each
      combination outside `Facade.knownUnbuildable` satisfies `Req` (assembled per combination from the two per-module
      obligations through `Facade.req_of_parts`, nested `List.forall_mem_cons`), and for each combination whose core keys are
      missing a kernel evaluation `reqCoreB = false`.
"""
import ast
import importlib
import sys

import packs
import translate as T
from common import REPO
from py2lean import Untranslatable, find_function

NS = "GeckoModel.Generated"


def _lstr(s):
    """Lean string literal (Lean's unicode escape is \\uXXXX, four hex digits)"""
    out = []
    for ch in s:
        o = ord(ch)
        if ch == "\\":
            out.append("\\\\")
        elif ch == '"':
            out.append('\\"')
        elif 32 <= o < 127:
            out.append(ch)
        elif o <= 0xFFFF:
            out.append("\\u%04x" % o)
        else:
            out.append(ch)
    return '"' + "".join(out) + '"'


def _llist(xs):
    return "[" + ", ".join(_lstr(x) for x in xs) + "]"


def _import(name):
    src = str(REPO / "src")
    if src not in sys.path:
        sys.path.insert(0, src)
    return importlib.import_module(name)


# ------------------------------------------------------------------------------------------------ FacadeConsts
def _wc_guard():
    """operator of `self.active_mode <op> len(GeckoConstants.WATERCARE_MODE_STRING)` in GeckoWaterCare.__str__"""
    tree = T.parse("automation/watercare.py")
    fn = find_function(tree, "GeckoWaterCare.__str__")
    hits = []
    for n in ast.walk(fn):
        if isinstance(n, ast.Compare) and len(n.ops) == 1 and len(n.comparators) == 1:
            r = n.comparators[0]
            if isinstance(r, ast.Call) and ast.unparse(r.func) == "len" and "WATERCARE_MODE_STRING" in ast.unparse(r):
                if ast.unparse(n.left) != "self.active_mode":
                    raise Untranslatable("watercare __str__: guard compares something else than self.active_mode")
                hits.append(type(n.ops[0]))
    if len(hits) != 1 or hits[0] not in (ast.Gt, ast.GtE):
        raise Untranslatable(f"watercare __str__: expected one `active_mode > / >= len(WATERCARE_MODE_STRING)` guard, got {hits}")
    # shape of the function: None test, range test (lower bound `< 0` or-ed with the guard), label lookup
    ifs = [st for st in fn.body if isinstance(st, ast.If)]
    if len(ifs) != 2 or ast.unparse(ifs[0].test) != "self.active_mode is None":
        raise Untranslatable("watercare __str__: unexpected shape")
    t = ifs[1].test
    if not (isinstance(t, ast.BoolOp) and isinstance(t.op, ast.Or) and ast.unparse(t.values[0]) == "self.active_mode < 0"):
        raise Untranslatable("watercare __str__: lower bound guard is not `self.active_mode < 0 or ...`")
    return hits[0] is ast.Gt


def _eager_sender_format():
    """Observable._on_change builds its debug text with an f-string mentioning {sender}: str(sender) is evaluated on every change"""
    tree = T.parse("driver/observable.py")
    fn = find_function(tree, "Observable._on_change")
    for n in ast.walk(fn):
        if isinstance(n, ast.JoinedStr):
            for v in n.values:
                if isinstance(v, ast.FormattedValue) and ast.unparse(v.value) == "sender" and v.conversion in (-1, 115):
                    return True
    return False


def _consts():
    try:
        C = _import("geckolib.const").GeckoConstants
        H = _import("geckolib.automation.heater").GeckoWaterHeater
        R = _import("geckolib.driver.protocol.reminders").GeckoReminderType
    except Exception as e:  # noqa
        raise Untranslatable(f"import of geckolib constants failed: {type(e).__name__}: {e}")
    return C, H, R


def _sdef(out, n, v):
    if not isinstance(v, str):
        raise Untranslatable(f"{n} is not a string: {v!r}")
    out.append(f"def {n} : String := {_lstr(v)}")


def _ndef(out, n, v):
    if not isinstance(v, int) or isinstance(v, bool) or v < 0:
        raise Untranslatable(f"{n} is not a natural number: {v!r}")
    out.append(f"def {n} : Nat := {v}")


def gen_facade_consts():
    """what the REQUIREMENT on a profile depends on (imported by ~150 kernel-evaluated table obligations: keep it small)"""
    C, _, _ = _consts()
    out = [T.HEADER, f"namespace {NS}.FacadeConsts\n"]
    for n, a in (("keyTempUnits", "KEY_TEMP_UNITS"), ("keySetpointG", "KEY_SETPOINT_G"), ("keyRealSetpointG", "KEY_REAL_SETPOINT_G"),
                 ("keyDisplayedTempG", "KEY_DISPLAYED_TEMP_G"), ("keyEconActive", "KEY_ECON_ACTIVE")):
        _sdef(out, n, getattr(C, a))
    out.append("\n/-- GeckoConstants.DEVICES: id -> (description, keypad, structure key, class) -/")
    out.append("structure DevProps where\n  name : String\n  keypad : Nat\n  stateKey : String\n  cls : String\nderiving Repr, DecidableEq\n")
    rows = []
    for k, v in C.DEVICES.items():
        if not (isinstance(k, str) and len(v) == 4 and isinstance(v[0], str) and isinstance(v[1], int) and isinstance(v[2], str) and isinstance(v[3], str)):
            raise Untranslatable(f"DEVICES[{k!r}] has an unexpected shape")
        rows.append(f"  ({_lstr(k)}, ⟨{_lstr(v[0])}, {v[1]}, {_lstr(v[2])}, {_lstr(v[3])}⟩)")
    out.append("def devices : List (String × DevProps) := [\n" + ",\n".join(rows) + "]\n")
    out.append(f"end {NS}.FacadeConsts\n")
    return "\n".join(out)


def gen_facade_facts():
    """everything else the member model consults (not imported by the table obligations)"""
    C, H, R = _consts()
    out = [T.HEADER, f"namespace {NS}.FacadeConsts\n"]
    for n, a in (("keyHeating", "KEY_HEATING"), ("keyCoolingDown", "KEY_COOLINGDOWN"), ("econDescription", "ECON_ACTIVE_DESCRIPTION"),
                 ("classPump", "DEVICE_CLASS_PUMP"), ("classBlower", "DEVICE_CLASS_BLOWER"), ("classLight", "DEVICE_CLASS_LIGHT"),
                 ("classSwitch", "DEVICE_CLASS_SWITCH"), ("boolType", "SPA_PACK_STRUCT_BOOL_TYPE"),
                 ("opHeating", "WATER_HEATER_HEATING"), ("opCooling", "WATER_HEATER_COOLING"), ("opIdle", "WATER_HEATER_IDLE")):
        _sdef(out, n, getattr(C, a))
    _ndef(out, "keypadEco", C.KEYPAD_ECOMODE)
    out.append("/-- GeckoConstants.SENSORS: (name, key) -/\ndef sensors : List (String × String) := [" +
               ", ".join(f"({_lstr(a)}, {_lstr(b)})" for a, b in C.SENSORS) + "]")
    out.append("/-- GeckoConstants.BINARY_SENSORS: (name, key) (the class column is not used by the facade) -/\n"
               "def binarySensors : List (String × String) := [" + ", ".join(f"({_lstr(t[0])}, {_lstr(t[1])})" for t in C.BINARY_SENSORS) + "]")
    out.append(f"def watercareModes : List String := {_llist(list(C.WATERCARE_MODE_STRING))}")
    out.append("\n/-- GeckoWaterHeater class constants -/")
    _sdef(out, "tempCelcius", H.TEMP_CELCIUS)
    _sdef(out, "tempFarenheight", H.TEMP_FARENHEIGHT)
    for n in ("MIN_TEMP_C", "MAX_TEMP_C", "MIN_TEMP_F", "MAX_TEMP_F"):
        _ndef(out, "heater_" + n, getattr(H, n))
    try:
        names = [R.to_string(i) for i in range(8)]
        invalid = int(R.INVALID)
    except Exception as e:  # noqa
        raise Untranslatable(f"GeckoReminderType.to_string: {type(e).__name__}: {e}")
    out.append(f"\n/-- GeckoReminderType.to_string(i) for i = 0..7 (7 stands for every value the enumeration does not name) -/\n"
               f"def reminderNames : List String := {_llist(names)}")
    _ndef(out, "reminderInvalid", invalid)
    strict = _wc_guard()
    out.append("\n/-- GeckoWaterCare.__str__: the upper range guard is `active_mode > len(WATERCARE_MODE_STRING)` (true) or `>=` (false) -/\n"
               f"def wcGuardStrict : Bool := {'true' if strict else 'false'}")
    out.append("/-- Observable._on_change formats `{sender}` eagerly: every change notification evaluates str(sender) -/\n"
               f"def onChangeFormatsSender : Bool := {'true' if _eager_sender_format() else 'false'}")
    out.append(f"\nend {NS}.FacadeConsts\n")
    return "\n".join(out)


# ------------------------------------------------------------------------------------------------ combos
FIXED_CFG = ["TempUnits", "SetpointG"]


def combos(mods):
    """[(platform record, cfg record, log record)] in module order: what a FILES reply can name"""
    out = []
    for p in [m for m in mods if m["kind"] == "pack"]:
        cfgs = [m for m in mods if m["kind"] == "cfg" and m["declPlatform"] == p["name"]]
        logs = [m for m in mods if m["kind"] == "log" and m["declPlatform"] == p["name"]]
        for c in cfgs:
            for l in logs:
                out.append((p, c, l))
    return out


def _readable(it):
    return it["len"] in (1, 2) and it["pos"] + it["len"] <= 1024 and (it["kind"] != "enum" or it["labels"] is not None)


def _find(m, k):
    for it in m["items"]:
        if it["key"] == k:
            return it
    return None


NUMERIC = ("byte", "word", "temp", "bool")
STRKIND = ("enum", "time")


def cfg_ok(U, c):
    """Python reading of Facade.cfgOKb"""
    if not all(_readable(it) for it in c["items"]):
        return False
    if not all(o in U for o in c["outputKeys"]):
        return False
    u, s = _find(c, "TempUnits"), _find(c, "SetpointG")
    if u is None or u["kind"] == "temp" or s is None or s["kind"] not in NUMERIC:
        return False
    for o in c["outputKeys"]:
        it = _find(c, o)
        if it is None or it["kind"] not in STRKIND:
            return False
    return True


def log_ok(U, l, devices_table):
    """Python reading of Facade.logOKb"""
    if not all(_readable(it) for it in l["items"]):
        return False
    for k in FIXED_CFG + list(U):
        if _find(l, k) is not None:
            return False
    for k in ("DisplayedTempG", "RealSetPointG"):
        it = _find(l, k)
        if it is None or it["kind"] not in NUMERIC:
            return False
    if _find(l, "EconActive") is None:
        return False
    for d in l["deviceKeys"]:
        for ud in l["userDemandKeys"]:
            if ("Ud" + d).upper() == ud.upper():
                if _find(l, ud) is None:
                    return False
                if d in devices_table and _find(l, devices_table[d][2]) is None:
                    return False
    for k in l["errorKeys"]:
        if _find(l, k) is None:
            return False
    return True


def core_ok(c, l):
    """Python reading of Facade.reqCoreB on the merged table"""
    def look(k):
        return _find(l, k) or _find(c, k)
    return all(look(k) is not None for k in ("TempUnits", "DisplayedTempG", "SetpointG", "RealSetPointG", "EconActive"))


def _nest(parts):
    t = "(List.forall_mem_nil _)"
    for x in reversed(parts):
        t = f"(List.forall_mem_cons.2 ⟨{x},\n  {t}⟩)"
    return t


def gen_combos():
    mods = packs.load_tables()
    try:
        devices_table = dict(_import("geckolib.const").GeckoConstants.DEVICES)
    except Exception as e:  # noqa
        raise Untranslatable(f"import of geckolib.const failed: {type(e).__name__}: {e}")
    if any(m["kind"] == "unknown" for m in mods):
        raise Untranslatable("a pack module of unknown kind")
    # per platform: every output key one of its config tables advertises
    plats = [m["name"] for m in mods if m["kind"] == "pack"]
    U = {p: list(dict.fromkeys(o for m in mods if m["kind"] == "cfg" and m["declPlatform"] == p for o in m["outputKeys"])) for p in plats}
    sub, ns = "C11Combos", f"{NS}.C11Combos"
    out = {}
    out[f"{sub}/Universe.lean"] = "\n".join(
        [T.HEADER, f"namespace {ns}", "/-- per platform: every output key one of its shipped config tables advertises -/"] +
        [f"def outputs_{packs.lname(p.lower())} : List String := {_llist(U[p])}" for p in plats] + [f"end {ns}\n"])
    ok = {}
    for m in mods:
        if m["kind"] not in ("cfg", "log"):
            continue
        n = packs.lname(m["file"])
        if m["declPlatform"] not in U:
            raise Untranslatable(f"{m['file']}: declared platform {m['declPlatform']!r} has no platform module")
        un = "outputs_" + packs.lname(m["declPlatform"].lower())
        good = cfg_ok(U[m["declPlatform"]], m) if m["kind"] == "cfg" else log_ok(U[m["declPlatform"]], m, devices_table)
        ok[m["file"]] = good
        fn = "cfgOKb" if m["kind"] == "cfg" else "logOKb"
        text = [T.HEADER, "import GeckoModel.Model.FacadeReq", f"import GeckoModel.Generated.Packs.{n}", f"import GeckoModel.Generated.{sub}.Universe",
                "set_option maxRecDepth 100000", f"namespace {ns}", "open GeckoModel GeckoModel.Facade"]
        if good:
            text.append(f"/-- what `{m['file']}` contributes to `Facade.Req`, evaluated by the kernel over the whole table -/\n"
                        f"theorem part_{n} : {fn} {un} Packs.{n} = true := by decide +kernel")
        else:
            text.append(f"/-- `{m['file']}` does not meet the per-table requirement (every combination with it must be in `knownUnbuildable`) -/\n"
                        f"theorem nopart_{n} : {fn} {un} Packs.{n} = false := by decide +kernel")
        text.append(f"end {ns}\n")
        out[f"{sub}/{n}.lean"] = "\n".join(text)
    cs = combos(mods)
    idx = [T.HEADER, "import GeckoModel.Model.FacadeReq", "import GeckoModel.Proofs.FacadeParts", "import GeckoModel.Generated.PacksIndex"]
    idx += [f"import GeckoModel.Generated.{sub}.{packs.lname(m['file'])}" for m in mods if m["kind"] in ("cfg", "log")]
    idx += ["set_option maxRecDepth 100000", f"namespace {ns}", "open GeckoModel GeckoModel.Facade"]
    idx.append("/-- every platform x config x log combination of the shipped tables -/\ndef allCombos : List Combo := [\n" + ",\n".join(
        f"  ⟨{_lstr(p['name'])}, Packs.{packs.lname(c['file'])}, Packs.{packs.lname(l['file'])}⟩" for p, c, l in cs) + "]\n")
    idx.append("/-- the enumeration is the full product, recomputed by the kernel from the module headers -/\n"
               "theorem allCombos_complete : allCombos.map Combo.names = enumCombos Packs.allModules := by decide +kernel\n")
    parts, bad = [], []
    for i, (p, c, l) in enumerate(cs):
        cn, ln = packs.lname(c["file"]), packs.lname(l["file"])
        if ok[c["file"]] and ok[l["file"]]:
            parts.append(f"fun _ => req_of_parts outputs_{packs.lname(p['name'].lower())} _ _ part_{cn} part_{ln}")
        else:
            # must be listed: `decide` evaluates the membership in the (short) hand-written list
            parts.append("fun h => absurd (by decide) h")
            bad.append((i, p, c, l))
    idx.append("/-- C11 `shipped_req`: assembled per combination from the per-table obligations -/\n"
               "theorem allCombos_req : ∀ c ∈ allCombos, c.id ∉ knownUnbuildable → Req c.profile :=\n  " + _nest(parts) + "\n")
    # the combinations that do not meet the per-table obligations: exactly the hand-written list, each lacking a core key
    idx.append("/-- the combinations that do not meet the per-table obligations -/\ndef listedCombos : List Combo := [\n" + ",\n".join(
        f"  ⟨{_lstr(p['name'])}, Packs.{packs.lname(c['file'])}, Packs.{packs.lname(l['file'])}⟩" for _, p, c, l in bad) + "]\n")
    idx.append("/-- ... are exactly `Facade.knownUnbuildable` (same order) -/\n"
               "theorem listed_ids : listedCombos.map Combo.id = knownUnbuildable := by decide +kernel\n")
    idx.append("theorem listed_shipped : ∀ c ∈ listedCombos, c ∈ allCombos :=\n  " + _nest(
        [f"List.mem_of_getElem? (i := {i}) rfl" for i, _, _, _ in bad]) + "\n")
    nb = []
    for _, p, c, l in bad:
        cn, ln = packs.lname(c["file"]), packs.lname(l["file"])
        if core_ok(c, l):
            nb.append(f"core_keys_present_in_{cn}_{ln}_but_a_per_table_obligation_fails")
        else:
            idx.append(f"theorem nocore_{cn}_{ln} : reqCoreB (mkProfile Packs.{cn} Packs.{ln}) = false := by decide +kernel")
            nb.append(f"nocore_{cn}_{ln}")
    idx.append("/-- C11 `not_req_fails` (table side): every listed combination lacks a key the constructor dereferences -/\n"
               "theorem listed_lack_core : ∀ c ∈ listedCombos, reqCoreB c.profile = false :=\n  " + _nest(nb) + "\n")
    idx.append(f"end {ns}\n")
    out[f"{sub}Index.lean"] = "\n".join(idx)
    return out


GENERATORS = {"FacadeConsts": gen_facade_consts, "FacadeFacts": gen_facade_facts}
MULTI = {"C11Combos": gen_combos}
