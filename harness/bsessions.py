"""Sessions of the BLOCKING client in one process, without threads: the real `GeckoSpa.start_connect` handshake (version, channel, config
file - `_on_config_received` loads the declarations - full status block, `_final_connect`) against the real `GeckoSimulator`, both
stepped by hand on one virtual clock. Several sessions can be stepped side by side (overlapping start-up) or one after the other;
a session can hold the spa's status block answer back. What the library keeps per process shows here."""
import builtins

import fakenet
import vloop


class _Clock:
    t = 0.0


def _quiet(fn, *a, **k):
    real_print = builtins.print
    builtins.print = lambda *x, **y: None
    try:
        return fn(*a, **k)
    finally:
        builtins.print = real_print


class BSession:
    """one blocking client and the simulator it talks to"""

    def __init__(self, snapshot, port, clock, ident=b"SPA01:02:03:04:05:06", ping=False):
        import geckolib.driver.udp_socket as us_mod
        import geckolib.spa as spa_mod
        from props.c01 import BufSock
        from props.c20 import FakeThreading
        import sessions
        self.clock = clock
        if isinstance(snapshot, str):
            from props import c13
            cls = c13.model_spa_class()             # the simulator that APPLIES set-value commands and reports them (a fresh class per session)
            cls.commands, cls.held, cls.held_echo, cls.hold_wc, cls.hold_echo = [], [], [], False, False
            self.sim = fakenet.make_sim(snapshot, cls)
        else:
            self.sim = sessions.load_sim(snapshot)
        self.hold_block = False
        self.held = []
        self.drop = None                 # drop(payload, n) -> bool: the n-th datagram of the spa is lost on its way to the client
        self.n_from_spa = 0
        self.ping = ping                 # also step the client's ping thread (one iteration of `_ping_thread_func` per ping period)
        self.next_ping = clock.t
        self.ping_died = None
        self.client_addr = ("10.0.0.2", port)

        class Desc:
            identifier = ident
            name = "Spa"
            destination = fakenet.SIM_ADDR
            client_identifier = b"IOS" + bytes("%08d-cccc-dddd" % port, "ascii")
            ipaddress = fakenet.SIM_ADDR[0]

            @property
            def identifier_as_string(self_):
                return ident.decode()
        saved = (us_mod.threading, spa_mod.threading)
        us_mod.threading = FakeThreading
        spa_mod.threading = FakeThreading
        try:
            class SteppedSpa(spa_mod.GeckoSpa):
                def _loop_func(self_):            # the hook "for sub-classes to get a thread loop": one engine iteration per step
                    super()._loop_func()
                    self_._exit_event.stop = True

                def wait(self_, timeout):         # only the ping thread waits: its iteration ends here
                    self_._waited = timeout
                    self_._exit_event.stop = True
            self.spa = SteppedSpa(Desc())
            self.sock = BufSock()
            self.spa._socket = self.sock          # the OS socket (environment), as the constructor argument of GeckoUdpSocket would
            self.spa.start_connect()
        finally:
            us_mod.threading, spa_mod.threading = saved
        self.error = None

    def step(self):
        """one iteration of the client's engine, then everything it sent goes to the simulator and the answers come back"""
        self.clock.t += 0.03
        self.spa._exit_event.stop = False
        if self.ping and self.ping_died is None and self.clock.t >= self.next_ping:
            self.spa._waited = None
            try:
                self.spa._ping_thread_func()
            except Exception as e:  # noqa   (the real thread ends with this exception; the engine thread goes on)
                self.ping_died = f"{type(e).__name__}: {e}"
            self.next_ping = self.clock.t + (self.spa._waited if self.spa._waited else 1.0)
            self.spa._exit_event.stop = False
        try:
            self.spa._thread_func()
        except Exception as e:  # noqa
            self.error = f"{type(e).__name__}: {e}"
            return
        sent, self.sock.sent = self.sock.sent, []
        for data, _dest in sent:
            def feed():
                self.sim._socket.dispatch_recevied_data(data, self.client_addr)
            try:
                _quiet(feed)
            except Exception:  # noqa
                pass
            out = list(self.sim._socket._send_handlers)
            self.sim._socket._send_handlers.clear()
            for h, _d in out:
                try:
                    payload = h.send_bytes
                except Exception:  # noqa
                    continue
                self.n_from_spa += 1
                if self.drop is not None and self.drop(payload, self.n_from_spa):
                    continue
                if self.hold_block and b"<DATAS>STATV" in payload:
                    self.held.append(payload)
                else:
                    self.sock.buffer.append((payload, fakenet.SIM_ADDR))

    def release(self):
        self.hold_block = False
        self.sock.buffer.extend((p, fakenet.SIM_ADDR) for p in self.held)
        self.held = []

    @property
    def connected(self):
        return bool(self.spa._is_connected)

    def push_from_spa(self, handlers):
        """unsolicited datagrams of the spa (partial updates) for this client"""
        for h, _d in handlers:
            self.sock.buffer.append((h.send_bytes, fakenet.SIM_ADDR))


def run(fn):
    """fn(clock) runs with every geckolib clock on the virtual one"""
    clk = _Clock()
    clk.t = 1000.0
    with vloop.patch_time(lambda: clk.t):
        return fn(clk)


def connect(session, max_steps=4000):
    for _ in range(max_steps):
        session.step()
        if session.connected or session.error:
            break
    return session.connected


def _reference(spa_obj, sim):
    """a fresh instance of the tables the spa REPORTED (platform and versions of its FILES answer) over a copy of this client's block"""
    from props import c12
    plat = sim.snapshot.packtype.lower()
    ref = c12.StubSpa(f"{plat}-cfg-{sim.snapshot.config_version}", f"{plat}-log-{sim.snapshot.log_version}")
    ref.struct.set_status_block(bytes(spa_obj.struct.status_block))
    return ref


def _layout(acc):
    return (acc.pos, acc.length, acc.bitpos, getattr(acc, "bitmask", None), acc.type, None if acc.items is None else tuple(acc.items), acc.read_write)


def observe(session):
    """what one connected blocking client shows, against its own spa: values (decoded from ITS block by the tables ITS spa reported), the
    layout of its live items, and where a write through one of its items goes"""
    spa, sim = session.spa, session.sim
    ref = _reference(spa, sim)
    out = {"values_differ": [], "layout_differs": [], "missing": [], "extra": []}
    for k, racc in ref.accessors.items():
        a = spa.accessors.get(k)
        if a is None:
            out["missing"].append(k)
            continue
        if _layout(a) != _layout(racc):
            out["layout_differs"].append(k)
            continue
        try:
            v1, v2 = a.value, racc.value
        except Exception as e:  # noqa
            v1, v2 = f"raised {type(e).__name__}", None
        if v1 != v2:
            out["values_differ"].append([k, str(v1), str(v2)])
    out["extra"] = [k for k in spa.accessors if k not in ref.accessors]
    out["versions"] = [spa.config_version, spa.log_version, sim.snapshot.config_version, sim.snapshot.log_version]
    return {k: (v[:5] if isinstance(v, list) and k != "versions" else v) for k, v in out.items()}


def write_through(session, others):
    """one set-value command through an item of this client: it must reach THIS client's spa (and nobody else's) and change the item there"""
    spa, sim = session.spa, session.sim
    cands = [a for a in spa.accessors.values() if a.read_write is not None and a.type == "Enum" and a.items and len([x for x in a.items if x]) >= 2
             and a.tag.startswith("Ud") and a.tag in sim.structure.accessors]
    if not cands:
        return None
    a = cands[0]
    labs = [x for x in a.items if x]
    sa = sim.structure.accessors[a.tag]
    want = labs[0] if sa.value != labs[0] else labs[1]
    before_others = [bytes(o.sim.structure.status_block) for o in others]
    try:
        a.value = want
    except Exception as e:  # noqa
        return {"item": a.tag, "raised": f"{type(e).__name__}: {e}"}
    for _ in range(12):
        session.step()
        for o in others:
            o.step()
    return {"item": a.tag, "wanted": str(want), "own_spa_reads": str(sa.value),
            "other_spas_changed": [i for i, (o, b) in enumerate(zip(others, before_others)) if bytes(o.sim.structure.status_block) != b]}


def differently_set(sim):
    """the same model of spa, set differently: every writable Ud* enumeration on another label, the setpoint one degree up"""
    for t, sa in sim.structure.accessors.items():
        if sa.read_write is None:
            continue
        try:
            if sa.type == "Enum" and t.startswith("Ud") and sa.items and len([x for x in sa.items if x]) >= 2:
                labs = [x for x in sa.items if x]
                _quiet(setattr, sa, "value", labs[0] if sa.value != labs[0] else labs[1])
            elif t == "SetpointG":
                _quiet(setattr, sa, "value", sa.value + 1.0)
        except Exception:  # noqa
            pass
    sim._socket._send_handlers.clear()


def two_clients(snap_a, snap_b, overlapping, mutate_b=None):
    """two blocking clients in one process: one after the other, or with overlapping start-up (A's status block answer is held back
    until B has connected). Returns the observations of both."""
    def go(clk):
        a = BSession(snap_a, 50001, clk)
        res = {}
        if overlapping:
            a.hold_block = True
            for _ in range(600):
                a.step()
                if a.held or a.error:
                    break
            res["a_held_block"] = bool(a.held)
            b = BSession(snap_b, 50002, clk)
            if mutate_b is not None:
                mutate_b(b.sim)
            res["b_connected"] = connect(b)
            a.release()
            res["a_connected"] = connect(a)
        else:
            res["a_connected"] = connect(a)
            b = BSession(snap_b, 50002, clk)
            if mutate_b is not None:
                mutate_b(b.sim)
            res["b_connected"] = connect(b)
        res["errors"] = [x.error for x in (a, b) if x.error]
        if res["a_connected"] and res["b_connected"]:
            res["a"] = observe(a)
            res["b"] = observe(b)
            res["a_write"] = write_through(a, [b])
            res["b_write"] = write_through(b, [a])
        return res, a, b
    return run(go)


def judge(res):
    """list of (what, detail) problems in the observations of two_clients"""
    probs = []
    if not (res.get("a_connected") and res.get("b_connected")):
        return [("not-connected", {k: res.get(k) for k in ("a_connected", "b_connected", "errors", "a_held_block")})]
    for who in ("a", "b"):
        o = res[who]
        if o["missing"] or o["extra"] or o["layout_differs"]:
            probs.append((f"{who}:layout", {k: o[k] for k in ("missing", "extra", "layout_differs", "versions")}))
        elif o["values_differ"]:
            probs.append((f"{who}:values", {"item, client reads, its own block says": o["values_differ"]}))
        w = res.get(f"{who}_write")
        if w is not None and (w.get("raised") or w.get("own_spa_reads") != w.get("wanted") or w.get("other_spas_changed")):
            probs.append((f"{who}:write", w))
    return probs


def notifications_in_second_session(snap):
    """two blocking sessions to the same kind of spa, one after the other; on the SECOND the client watches items, the spa changes them
    one at a time and reports each change: per change the list of observer calls (item, old, new, value read in the callback)"""
    from geckolib.driver.protocol.statusblock import GeckoPartialStatusBlockProtocolHandler

    def go(clk):
        a = BSession(snap, 50001, clk)
        ok_a = connect(a)
        b = BSession(snap, 50002, clk)
        ok_b = connect(b)
        out = {"connected": [ok_a, ok_b], "changes": []}
        if not (ok_a and ok_b):
            return out
        spa, sim = b.spa, b.sim
        tags = [t for t, x in sim.structure.accessors.items() if x.read_write is not None and x.type == "Enum" and x.items
                and len([y for y in x.items if y]) >= 2 and t.startswith("Ud") and t in spa.accessors][:3]
        calls = []
        for t in tags:
            def cb(sender, old, new, _t=t):
                calls.append([_t, str(old), str(new), str(spa.accessors[_t].value)])
            spa.accessors[t].watch(cb)
            spa.accessors[t].watch(cb)               # registered twice: called once
        parms = (b.client_addr[0], b.client_addr[1], b.spa.descriptor.client_identifier, b.spa.descriptor.identifier)
        for t in tags:
            sa = sim.structure.accessors[t]
            labs = [y for y in sa.items if y]
            old = sa.value
            new = labs[0] if old != labs[0] else labs[1]
            before = bytes(sim.structure.status_block)
            _quiet(setattr, sa, "value", new)
            sim._socket._send_handlers.clear()
            after = bytes(sim.structure.status_block)
            pos = [i for i in range(len(after)) if after[i] != before[i]]
            if not pos:
                continue
            lo = pos[0] if pos[0] + 1 < len(after) else pos[0] - 1
            h = GeckoPartialStatusBlockProtocolHandler.report_changes(sim._socket, [(lo, after[lo:lo + 2])], parms=parms)
            b.sock.buffer.append((h.send_bytes, fakenet.SIM_ADDR))
            n0 = len(calls)
            for _ in range(6):
                b.step()
            out["changes"].append({"item": t, "want": [[t, str(old), str(new), str(new)]], "calls": calls[n0:]})
        return out
    return run(go)


def change_of_mind(snap, tag="SetpointG"):
    """the blocking client: an item is written, and written BACK to what the client's mirror still shows, before the spa has reported
    the first write (the model spa acknowledges at once and holds its report back): both commands must reach the spa"""
    def go(clk):
        s = BSession(snap, 50001, clk)
        out = {"connected": connect(s)}
        if not out["connected"]:
            return out
        a = s.spa.accessors.get(tag)
        sa = s.sim.structure.accessors.get(tag)
        if a is None or sa is None:
            out["skipped"] = True
            return out
        v0 = a.value
        v1 = (v0 + 1.0) if isinstance(v0, float) else None
        if v1 is None:
            labs = [x for x in a.items if x]
            v1 = labs[0] if v0 != labs[0] else labs[1]
        n0 = len([c for c in s.sim.commands if c.get("kind") == "set"])
        type(s.sim).hold_echo = True
        errs = []
        for v in (v1, v0):
            try:
                a.value = v
            except Exception as e:  # noqa
                errs.append(f"{type(e).__name__}: {e}")
            for _ in range(8):
                s.step()
        type(s.sim).hold_echo = False
        for h in list(type(s.sim).held_echo):
            s.sock.buffer.append((h.send_bytes, fakenet.SIM_ADDR))
        del type(s.sim).held_echo[:]
        for _ in range(8):
            s.step()
        out.update(errors=errs, commands=len([c for c in s.sim.commands if c.get("kind") == "set"]) - n0,
                   written=[str(v1), str(v0)], spa_raw=sa.raw_value, client_raw=a.raw_value, client_reads=str(a.value), want=str(v0))
        return out
    return run(go)


def unreliable_simulator(snap, drop_call):
    """the simulator at reliability 0.5 with a scripted `random.random`: exactly the `drop_call`-th reliability draw loses its datagram
    (one segment of the first status block answer when drop_call is past the three handshake answers); the client still has to end up
    with the loaded snapshot's block"""
    import geckolib.utils.simulator as sim_mod

    class Scripted:
        def __init__(self, real):
            self.real, self.n = real, 0

        def random(self):
            self.n += 1
            return 0.99 if self.n == drop_call else 0.0

        def __getattr__(self, k):
            return getattr(self.real, k)

    def go(clk):
        s = BSession(snap, 50001, clk)
        s.sim._reliability = 0.5
        saved = sim_mod.random
        sim_mod.random = Scripted(saved)
        try:
            ok = connect(s, max_steps=6000)
            draws = sim_mod.random.n
        finally:
            sim_mod.random = saved
        blk, want = bytes(s.spa.struct.status_block), bytes(s.sim.snapshot.bytes)
        return {"connected": ok, "draws": draws, "len": len(blk), "differs_at": [i for i in range(min(len(blk), len(want))) if blk[i] != want[i]][:6] + ([-1] if len(blk) != len(want) else [])}
    return run(go)


def handshake_with_ping_thread(snap, active, lose):
    """the blocking handshake with BOTH of the client's threads stepped (engine iteration every 30 ms, one ping-thread iteration per ping
    period: ping, `refresh()`, wait), under the library's idle or active timings, with one datagram of the spa lost (`lose` = "none",
    "version", "first-segment", "last-segment" - of the first answer to the full status block request): the request is retransmitted
    and the client must connect with the spa's block"""
    import geckolib.config as cfg

    def go(clk):
        saved = {k: getattr(cfg.GeckoConfig, k) for k in cfg.CONFIG_MEMBERS}
        new = cfg._GeckoActiveConfig() if active else cfg._GeckoIdleConfig()      # what set_config_mode(active) copies (an async manager in the
        for k in cfg.CONFIG_MEMBERS:                                              # same process switches the shared timings like this)
            setattr(cfg.GeckoConfig, k, getattr(new, k))
        try:
            s = BSession(snap, 50001, clk, ping=True)
            state = {"statv": 0, "lost": 0}

            def drop(payload, n):
                if state["lost"]:
                    return False
                hit = False
                if lose == "version" and b"SVERS" in payload:
                    hit = True
                if b"<DATAS>STATV" in payload:
                    i = payload.index(b"STATV")
                    seq, nxt = payload[i + 5], payload[i + 6]
                    if (lose == "first-segment" and seq == 0) or (lose == "last-segment" and nxt == 0):
                        hit = True
                if hit:
                    state["lost"] += 1
                return hit
            s.drop = drop
            ok = connect(s, max_steps=3000)
            blk, want = bytes(s.spa.struct.status_block), bytes(s.sim.structure.status_block)
            return {"connected": ok, "error": s.error, "lost": state["lost"], "virtual_seconds": round(clk.t - 1000.0, 2), "ping_thread": s.ping_died,
                    "block_len": len(blk), "differs_at": [i for i in range(min(len(blk), len(want))) if blk[i] != want[i]][:6]}
        finally:
            for k, v in saved.items():
                setattr(cfg.GeckoConfig, k, v)
    return run(go)


def refreshes_under_loss(snap, active, lose="chain", seconds=20.0):
    """a CONNECTED blocking client with both threads stepped (the ping thread calls `refresh()` once per ping period), under the idle or
    active timings: the answer to one refresh is lost (`lose` = "chain": every segment of it, "last": its last segment, "first": its
    first), so that request is still outstanding when the next refresh is issued. Afterwards the client's block must again be the spa's"""
    import geckolib.config as cfg

    def go(clk):
        saved = {k: getattr(cfg.GeckoConfig, k) for k in cfg.CONFIG_MEMBERS}
        new = cfg._GeckoActiveConfig() if active else cfg._GeckoIdleConfig()
        for k in cfg.CONFIG_MEMBERS:
            setattr(cfg.GeckoConfig, k, getattr(new, k))
        try:
            s = BSession(snap, 50001, clk, ping=True)
            ok = connect(s, max_steps=3000)
            out = {"connected": ok, "error": s.error}
            if not ok:
                return out
            state = {"losing": True, "lost": 0}

            def drop(payload, n):
                if not state["losing"] or b"<DATAS>STATV" not in payload:
                    return False
                i = payload.index(b"STATV")
                seq, nxt = payload[i + 5], payload[i + 6]
                hit = lose == "chain" or (lose == "last" and nxt == 0) or (lose == "first" and seq == 0)
                if nxt == 0:
                    state["losing"] = False
                state["lost"] += 1 if hit else 0
                return hit
            s.drop = drop
            t_end = clk.t + seconds + (0 if active else 130.0)
            while clk.t < t_end and not s.error:
                s.step()
            blk, want = bytes(s.spa.struct.status_block), bytes(s.sim.structure.status_block)
            out.update(error=s.error, lost=state["lost"], ping_thread=s.ping_died, block_len=len(blk), spa_block_len=len(want),
                       differs_at=[i for i in range(min(len(blk), len(want))) if blk[i] != want[i]][:6],
                       waiting_handlers=len(s.spa._receive_handlers))
            return out
        finally:
            for k, v in saved.items():
                setattr(cfg.GeckoConfig, k, v)
    return run(go)


def two_refreshes_outstanding(snap, gap_steps=0):
    """a CONNECTED blocking client: `refresh()` is called twice (the ping thread's and the shell's `refresh` command, `gap_steps` engine
    iterations apart) before the answer to the first has come in (the spa's answers are held back meanwhile); both are then answered.
    Afterwards the client's block must be the spa's"""
    def go(clk):
        s = BSession(snap, 50001, clk)
        out = {"connected": connect(s)}
        if not out["connected"]:
            return out
        s.hold_block = True
        s.spa.refresh()
        for _ in range(gap_steps):
            s.step()
        s.spa.refresh()
        for _ in range(6):
            s.step()
        out["chains_held"] = sum(1 for p in s.held if p[p.index(b"STATV") + 6] == 0)
        s.release()
        for _ in range(40):
            s.step()
        blk, want = bytes(s.spa.struct.status_block), bytes(s.sim.structure.status_block)
        out.update(error=s.error, block_len=len(blk), spa_block_len=len(want),
                   differs_at=[i for i in range(min(len(blk), len(want))) if blk[i] != want[i]][:6])
        return out
    return run(go)
