"""Confirm an independently written breaking change and run our check against it.

usage: python3 harness/seedtest.py <Cxx> [--also Cyy,...]
  input : /tmp/seed_out/<Cxx>/{patch.diff, demo_*.py, meta.json}, worktree /tmp/seed_c<xx> with the change applied
  steps : (1) in the seeding worktree: existing suite passes with the change; demo fails with it, passes without it
          (2) apply the patch to /repo, run ./check <Cxx> (quick), undo it at once (git checkout -- .)
          (3) store everything under /verif/seeded/<Cxx>/ with what was run and what our check said
"""
import json
import os
import re
import shutil
import subprocess
import sys
from pathlib import Path

VERIF = Path(__file__).resolve().parent.parent


def sh(cmd, cwd=None, timeout=1800):
    p = subprocess.run(cmd, shell=True, cwd=cwd, capture_output=True, text=True, timeout=timeout)
    return p.returncode, (p.stdout + p.stderr)


def main():
    sid = sys.argv[1]                       # seed id: C07 or C07b (second, third .. independent change for the same property)
    pid = sid[:3]
    also = []
    if "--also" in sys.argv:
        also = sys.argv[sys.argv.index("--also") + 1].split(",")
    num = sid[1:]
    src = Path(f"/tmp/seed_out/{sid}")
    wt = Path(f"/tmp/seed_c{num}")
    recheck = "--recheck" in sys.argv          # the seed is already stored under seeded/<id>/: only run our check against it again
    if recheck:
        src = VERIF / "seeded" / sid
    meta = json.loads((src / "meta.json").read_text())
    demo = [p for p in src.glob("demo_*") if p.suffix == ".py"][0]
    demo_cmd = meta.get("demo_cmd", f"/venv/bin/python {demo.name}")
    res = {"property": pid}
    if recheck:
        res = dict(meta.get("verification", {}))
        res["property"] = pid
    # (1) confirm in the seeding worktree
    if not recheck:
        rc, out = sh("git stash list | wc -l; git status --porcelain | head -5", cwd=wt)
        rc, out = sh("/venv/bin/python -m pytest -q -p no:cacheprovider --timeout=900 2>&1 | tail -1", cwd=wt)
        res["suite_with_change"] = out.strip()
        rc1, out1 = sh(demo_cmd, cwd=wt, timeout=300)
        res["demo_with_change_exit"] = rc1
        res["demo_with_change_tail"] = out1[-600:]
        # NOT git stash: the stash is shared by every worktree of /repo (two seed agents collided on it once)
        d_rc, d_out = sh(f"git diff -- src | diff -q - {src / 'patch.diff'}", cwd=wt)
        res["worktree_diff_equals_patch"] = d_rc == 0
        sh(f"git apply -R {src / 'patch.diff'}", cwd=wt)
        rc2, out2 = sh(demo_cmd, cwd=wt, timeout=300)
        sh(f"git apply {src / 'patch.diff'}", cwd=wt)
        res["demo_without_change_exit"] = rc2
        res["demo_without_change_tail"] = out2[-300:]
        res["confirmed"] = ("103 passed" in res["suite_with_change"]) and rc1 != 0 and rc2 == 0 and d_rc == 0
    # (2) our check against it: in a scratch worktree of /repo with the patch applied (VERIF_REPO), or - with --in-repo - literally
    #     `git -C /repo apply`, run, `git -C /repo checkout -- .`
    patch = src / "patch.diff"
    in_repo = "--in-repo" in sys.argv
    sv = Path(f"/tmp/sv_{sid}_{os.getpid()}")     # per process: a background sweep and an interactive recheck never share a tree
    if in_repo:
        target, env = Path("/repo"), ""
    else:
        sh(f"git -C /repo worktree remove --force {sv}")
        sh(f"git -C /repo worktree add -q {sv} HEAD")
        target, env = sv, f"VERIF_REPO={sv} "
    # a seed whose patch no longer applies because a later `fix:` commit touched its context lines is kept with the SAME change
    # re-expressed on the current tree (patch_rebased.diff, written by hand, the original stays beside it)
    rc, out = sh(f"git -C {target} apply --check {patch}")
    if rc != 0 and (src / "patch_rebased.diff").exists():
        patch = src / "patch_rebased.diff"
        res["patch_used"] = "patch_rebased.diff"
        rc, out = sh(f"git -C {target} apply --check {patch}")
    three = ""
    if rc != 0:
        # /repo has moved on since the seed was written (fix: commits): fall back to a 3-way merge of the patch
        rc, out = sh(f"git -C {target} apply --3way --check {patch}")
        three = "--3way "
    if rc != 0:
        res["apply_error"] = out[-400:]
        res["our_check"] = "patch does not apply to /repo HEAD"
    else:
        results = {}
        try:
            sh(f"git -C {target} apply {three}{patch}")
            mrc, mout = sh(f"grep -rln '^<<<<<<< ' {target}/src")
            if mrc == 0:
                raise RuntimeError(f"3-way apply left conflict markers in {mout.strip()}: the seed needs a patch_rebased.diff")
            for c in [pid] + also:
                rc, out = sh(f"{env}./check {c} --tier quick", cwd=VERIF, timeout=3000)
                lines = [l for l in out.splitlines() if l.startswith("VIOLATION") or l.startswith("[C") and "-> exit" in l]
                keys = []
                for l in out.splitlines():
                    m = re.match(r"VIOLATION property=(\S+) replay=(\S+)", l)
                    if m:
                        try:
                            r = json.loads((VERIF / m.group(2)).read_text())
                            keys.append({"key": r.get("key"), "kind": r.get("kind"), "observed": str(r.get("observed"))[:200],
                                         "broken": [b["obligation"] for b in (r.get("broken_obligation") or [])][:4],
                                         "no_failing_input": "no-failing-input-found" in l})
                        except Exception:
                            pass
                results[c] = {"exit": rc, "summary": lines[-1] if lines else out[-300:], "violations": keys[:6]}
        finally:
            if in_repo:
                sh("git -C /repo checkout -- .")
            else:
                sh(f"git -C /repo worktree remove --force {sv}")
            # bring the shared Generated/ files back to what /repo says
            sh("/venv/bin/python harness/translate.py", cwd=VERIF)
        res["our_check"] = results
        res["how"] = "git -C /repo apply; ./check; git -C /repo checkout -- ." if in_repo else "scratch worktree of /repo HEAD with the patch applied, VERIF_REPO=<worktree> ./check"
        res["detected"] = results.get(pid, {}).get("exit") == 1
        res["detected_with_failing_input"] = any(not v["no_failing_input"] for v in results.get(pid, {}).get("violations", []))
    # (3) store
    dst = VERIF / "seeded" / sid
    dst.mkdir(parents=True, exist_ok=True)
    if not recheck:
        shutil.copy(patch, dst / "patch.diff")
        shutil.copy(demo, dst / demo.name)
    meta["verification"] = res
    if not recheck:
      meta["what_was_run"] = [f"cd {wt} && /venv/bin/python -m pytest -q -p no:cacheprovider --timeout=900", f"cd {wt} && {demo_cmd}  (with and without the change)",
                            f"git -C /repo apply seeded/{sid}/patch.diff && ./check {pid} --tier quick && git -C /repo checkout -- ."]
    (dst / "meta.json").write_text(json.dumps(meta, indent=1))
    print(json.dumps({k: res[k] for k in ("confirmed", "suite_with_change", "demo_with_change_exit", "demo_without_change_exit") if k in res}))
    oc = res.get("our_check")
    if isinstance(oc, dict):
        for c, r in oc.items():
            print(c, "exit", r["exit"], "|", r["summary"][:160])
            for v in r["violations"][:3]:
                print("   ", v["key"], "| no-failing-input" if v["no_failing_input"] else "| failing input", "|", v["observed"][:120])
    else:
        print(oc)


if __name__ == "__main__":
    main()
