"""Extraction of the shipped pack tables (by importing the modules, i.e. what the library itself sees) and their
rendering as Lean literals.  Used by translate.py (current tree) and by the one-off pin writer (pins/)."""
import ast
import gzip
import importlib
import json
import re
import sys
from pathlib import Path

from common import REPO

PACKS = REPO / "src" / "geckolib" / "driver" / "packs"


class _Struct:
    status_block = b"\x00" * 1024
    accessors = {}


def _kind(acc):
    n = type(acc).__name__
    return {"GeckoByteStructAccessor": "byte", "GeckoWordStructAccessor": "word", "GeckoTimeStructAccessor": "time",
            "GeckoBoolStructAccessor": "bool", "GeckoEnumStructAccessor": "enum", "GeckoTempStructAccessor": "temp"}.get(n, "other:" + n)


def _doc_decl(path):
    """('InYT', 50) from the module docstring "... for 'InYT v50'" (or ('InYT', None) for a platform module)"""
    doc = ast.get_docstring(ast.parse(path.read_text())) or ""
    m = re.search(r"'([^']*?)(?: v(\d+))?'", doc)
    if not m:
        return "", None
    return m.group(1), (int(m.group(2)) if m.group(2) else None)


def _dup_keys(path):
    """duplicate keys in the accessors dict literal (Python would silently keep the last)"""
    dups = []
    for node in ast.walk(ast.parse(path.read_text())):
        if isinstance(node, ast.Dict):
            keys = [k.value for k in node.keys if isinstance(k, ast.Constant)]
            seen = set()
            for k in keys:
                if k in seen:
                    dups.append(k)
                seen.add(k)
    return dups


def load_tables():
    """list of module dicts in file-name order"""
    src = str(REPO / "src")
    if src not in sys.path:
        sys.path.insert(0, src)
    for k in [k for k in sys.modules if k.startswith("geckolib.driver.packs.")]:
        del sys.modules[k]
    mods = []
    for path in sorted(PACKS.glob("*.py")):
        stem = path.stem
        if stem == "__init__":
            continue
        m = importlib.import_module("geckolib.driver.packs." + stem)
        decl_p, decl_v = _doc_decl(path)
        rec = {"file": stem, "declPlatform": decl_p, "declVersion": decl_v, "dupKeys": _dup_keys(path)}
        st = _Struct()
        if hasattr(m, "GeckoPack"):
            o = m.GeckoPack(st)
            rec.update(kind="pack", name=o.name, type=o.type, revision=o.revision)
        elif hasattr(m, "GeckoConfigStruct"):
            o = m.GeckoConfigStruct(st)
            rec.update(kind="cfg", version=o.version, outputKeys=list(o.output_keys))
        elif hasattr(m, "GeckoLogStruct"):
            o = m.GeckoLogStruct(st)
            rec.update(kind="log", version=o.version, begin=o.begin, end=o.end, deviceKeys=list(o.all_device_keys),
                       userDemandKeys=list(o.user_demand_keys), errorKeys=list(o.error_keys))
        else:
            rec.update(kind="unknown")
        if rec["kind"] in ("cfg", "log"):
            items = []
            for key, a in o.accessors.items():
                items.append({
                    "key": key, "tag": a.tag, "pos": a.pos, "kind": _kind(a), "len": a.length,
                    "bitpos": a.bitpos, "mask": getattr(a, "bitmask", None) if a.bitpos is not None else None,
                    "labels": list(a.items) if a.items is not None else None,
                    "maxitems": a.maxitems, "rw": a.read_write,
                })
            rec["items"] = items
        mods.append(rec)
    return mods


# ------------------------------------------------------------------------------------------ Lean rendering
def lstr(s):
    out = []
    for ch in s:
        o = ord(ch)
        if ch == "\\":
            out.append("\\\\")
        elif ch == '"':
            out.append('\\"')
        elif 32 <= o < 127:
            out.append(ch)
        else:
            out.append("\\u{%x}" % o)
    return '"' + "".join(out) + '"'


def lname(stem):
    return re.sub(r"[^A-Za-z0-9]", "_", stem)


def lopt(v):
    return "none" if v is None else f"(some {v})"


def llist(xs):
    return "[" + ", ".join(lstr(x) for x in xs) + "]"


class LabelPool:
    def __init__(self):
        self.ids = {}

    def ref(self, labels):
        if labels is None:
            return "[]"
        t = tuple(labels)
        if t not in self.ids:
            self.ids[t] = len(self.ids)
        return f"L{self.ids[t]}"

    def render(self, ns):
        out = [f"namespace {ns}"]
        for t, i in sorted(self.ids.items(), key=lambda kv: kv[1]):
            out.append(f"def L{i} : List String := {llist(t)}")
        out.append(f"end {ns}\n")
        return "\n".join(out)


def render_item(it, pool):
    rw = "none" if it["rw"] is None else f"(some {lstr(it['rw'])})"
    has_labels = "true" if it["labels"] is not None else "false"
    return (f"  ⟨{lstr(it['key'])}, {lstr(it['tag'])}, {it['pos']}, .{it['kind']}, {it['len']}, {lopt(it['bitpos'])}, "
            f"{it['mask'] if it['mask'] is not None else 0}, {pool.ref(it['labels'])}, {has_labels}, {lopt(it['maxitems'])}, {rw}⟩")


def render_module(rec, pool, ns, labels_ns):
    n = lname(rec["file"])
    head = (f"def {n} : PackModule := {{\n  file := {lstr(rec['file'])}, kind := .{rec['kind']}, declPlatform := {lstr(rec['declPlatform'])}, "
            f"declVersion := {lopt(rec['declVersion'])},\n")
    if rec["kind"] == "pack":
        head += f"  name := {lstr(rec['name'])}, packType := {rec['type']}, revision := {lstr(rec['revision'])},\n"
    if rec["kind"] in ("cfg", "log"):
        head += f"  version := {rec['version']},\n"
    if rec["kind"] == "cfg":
        head += f"  outputKeys := {llist(rec['outputKeys'])},\n"
    if rec["kind"] == "log":
        head += (f"  beginPos := {rec['begin']}, endPos := {rec['end']},\n  deviceKeys := {llist(rec['deviceKeys'])},\n"
                 f"  userDemandKeys := {llist(rec['userDemandKeys'])},\n  errorKeys := {llist(rec['errorKeys'])},\n")
    items = rec.get("items", [])
    head += "  items := [\n" + ",\n".join(render_item(it, pool) for it in items) + "]\n}\n"
    return head


def save_pin(path):
    mods = load_tables()
    with gzip.open(path, "wt") as f:
        json.dump(mods, f, sort_keys=True)
    return len(mods), sum(len(m.get("items", [])) for m in mods)


def load_pin(path):
    with gzip.open(path, "rt") as f:
        return json.load(f)
