"""py2lean - a small translator from a subset of Python (ast) to Lean 4 terms.

The subset is straight-line integer / decision logic:

  expressions : int / bool / None / str literals, names, ``self.attr`` reads,
                + - * // % << >> & | ~ (see number modes), comparisons
                (== != < <= > >=, chained), and/or/not, ``x is None``,
                ``x is not None``, ``x in (a, b, ...)``, min/max/len/int calls
                that the caller maps explicitly
  statements  : assignment to a local or to ``self.attr``, augmented
                assignment, if/elif/else, return, ``with <lock>:`` (body
                inlined, the fact is recorded), pass, docstrings, logging calls
                (dropped: calls on a name in ``drop_calls``)

A method that mutates ``self`` becomes a function ``State -> args -> State x Ret``.
Statement lists are translated to nested ``if`` / ``let`` terms; the statements
after an ``if`` without ``else`` are duplicated into both branches, so the result
is a closed term whose shape mirrors the control flow of the Python.

Number modes
  'int' : Python int -> Lean Int.  // and % with a positive literal divisor are
          emitted as / and % (Int.ediv / Int.emod, which agree with Python floor
          semantics for positive divisors); any other divisor uses Int.fdiv/fmod.
  'nat' : every value is assumed non-negative (caller's obligation, validated by
          the differential sweep).  << >> & | map to <<< >>> &&& |||.  The one
          idiom ``e & ~x`` is emitted as ``e ^^^ (e &&& x)`` (equal on Python
          ints for e, x >= 0); a bare ``~`` anywhere else is refused.  ``-`` is
          refused in nat mode (truncation would silently differ from Python).

Anything outside the subset raises Untranslatable; the caller then does not emit
the definition, the dependent theorem fails to build, and the check falls back
to the failing-input search (DESIGN.md section 2).
"""
import ast


class Untranslatable(Exception):
    pass


class FnSpec:
    def __init__(self, name, params, ret, state=None, state_fields=None, mode="int",
                 consts=None, drop_calls=("_LOGGER", "logger", "logging", "print"),
                 calls=None, locals_ty=None, self_name="self", noret_value=None):
        self.name = name              # lean name
        self.params = params          # list of (pyname, leantype)
        self.ret = ret                # lean return type (string)
        self.state = state            # lean state structure name or None
        self.state_fields = state_fields or {}   # py attr -> lean field
        self.mode = mode
        self.consts = consts or {}    # dotted python name -> lean term
        self.drop_calls = drop_calls
        self.calls = calls or {}      # python func name -> lean function name (n-ary)
        self.self_name = self_name
        self.noret_value = noret_value  # lean term returned when falling off the end
        self.facts = {"with_lock": False}


def _dotted(node):
    if isinstance(node, ast.Name):
        return node.id
    if isinstance(node, ast.Attribute):
        b = _dotted(node.value)
        return None if b is None else b + "." + node.attr
    return None


class Translator:
    def __init__(self, spec: FnSpec):
        self.s = spec

    # ---------------------------------------------------------------- expr
    def num(self, n):
        if self.s.mode == "nat":
            if n < 0:
                raise Untranslatable("negative literal in nat mode")
            return f"({n} : Nat)"
        return f"({n} : Int)"

    def expr(self, e):
        s = self.s
        if isinstance(e, ast.Constant):
            v = e.value
            if isinstance(v, bool):
                return "true" if v else "false"
            if isinstance(v, int):
                return self.num(v)
            if v is None:
                return "none"
            if isinstance(v, str):
                return '"' + v.replace("\\", "\\\\").replace('"', '\\"') + '"'
            raise Untranslatable(f"constant {v!r}")
        d = _dotted(e)
        if d is not None and d in s.consts:
            return s.consts[d]
        if isinstance(e, ast.Name):
            return self._local(e.id)
        if isinstance(e, ast.Attribute):
            if isinstance(e.value, ast.Name) and e.value.id == s.self_name:
                if e.attr in s.state_fields:
                    return f"s.{s.state_fields[e.attr]}"
            raise Untranslatable(f"attribute {ast.unparse(e)}")
        if isinstance(e, ast.UnaryOp):
            if isinstance(e.op, ast.USub):
                if s.mode == "nat":
                    raise Untranslatable("unary minus in nat mode")
                return f"(- {self.expr(e.operand)})"
            if isinstance(e.op, ast.Not):
                return f"(!{self.bexpr(e.operand)})"
            if isinstance(e.op, ast.Invert):
                if s.mode == "int":
                    return f"(- {self.expr(e.operand)} - 1)"
                raise Untranslatable("bare ~ in nat mode")
        if isinstance(e, ast.BinOp):
            return self.binop(e)
        if isinstance(e, ast.Call):
            fn = _dotted(e.func)
            if fn in s.calls:
                args = " ".join(self.expr(a) for a in e.args)
                return f"({s.calls[fn]} {args})"
            raise Untranslatable(f"call {ast.unparse(e)}")
        if isinstance(e, (ast.Compare, ast.BoolOp)):
            return f"(decide {self.prop(e)})"
        if isinstance(e, ast.IfExp):
            return f"(if {self.prop(e.test)} then {self.expr(e.body)} else {self.expr(e.orelse)})"
        raise Untranslatable(f"expression {ast.unparse(e)}")

    _RESERVED = {"end", "next", "from", "at", "open", "in", "do", "then", "fun", "show", "have", "let",
                 "match", "with", "local", "instance", "structure", "where", "if", "else", "by", "type",
                 "max", "min", "length", "start"}

    def _local(self, name):
        name = name.lstrip("_") or "u"
        return name + "_" if name in self._RESERVED else name

    def binop(self, e):
        s = self.s
        op = e.op
        # the e & ~x idiom
        if isinstance(op, ast.BitAnd) and isinstance(e.right, ast.UnaryOp) and isinstance(e.right.op, ast.Invert):
            l = self.expr(e.left)
            x = self.expr(e.right.operand)
            if s.mode == "nat":
                return f"({l} ^^^ ({l} &&& {x}))"
            raise Untranslatable("& ~ in int mode")
        l, r = self.expr(e.left), self.expr(e.right)
        if isinstance(op, ast.Add):
            return f"({l} + {r})"
        if isinstance(op, ast.Mult):
            return f"({l} * {r})"
        if isinstance(op, ast.Sub):
            if s.mode == "nat":
                raise Untranslatable("subtraction in nat mode")
            return f"({l} - {r})"
        if isinstance(op, (ast.FloorDiv, ast.Mod)):
            poslit = isinstance(e.right, ast.Constant) and isinstance(e.right.value, int) \
                and not isinstance(e.right.value, bool) and e.right.value > 0
            d = _dotted(e.right)
            posconst = d is not None and d in s.consts and s.consts[d].strip("()").split(":")[0].strip().isdigit() \
                and int(s.consts[d].strip("()").split(":")[0]) > 0
            if s.mode == "nat" or poslit or posconst:
                return f"({l} {'/' if isinstance(op, ast.FloorDiv) else '%'} {r})"
            return f"(Int.{'fdiv' if isinstance(op, ast.FloorDiv) else 'fmod'} {l} {r})"
        if s.mode == "nat":
            m = {ast.LShift: "<<<", ast.RShift: ">>>", ast.BitAnd: "&&&", ast.BitOr: "|||", ast.BitXor: "^^^"}
            for k, v in m.items():
                if isinstance(op, k):
                    return f"({l} {v} {r})"
        raise Untranslatable(f"operator {ast.unparse(e)}")

    def bexpr(self, e):
        """Bool-valued expression."""
        if isinstance(e, ast.Constant) and isinstance(e.value, bool):
            return "true" if e.value else "false"
        if isinstance(e, (ast.Compare, ast.BoolOp)) or (isinstance(e, ast.UnaryOp) and isinstance(e.op, ast.Not)):
            return f"(decide {self.prop(e)})"
        return self.expr(e)

    def prop(self, e):
        """Prop-valued (decidable) translation of a test."""
        if isinstance(e, ast.BoolOp):
            j = " ∧ " if isinstance(e.op, ast.And) else " ∨ "
            return "(" + j.join(self.prop(v) for v in e.values) + ")"
        if isinstance(e, ast.UnaryOp) and isinstance(e.op, ast.Not):
            return f"(¬ {self.prop(e.operand)})"
        if isinstance(e, ast.Compare):
            parts = []
            left = e.left
            for op, right in zip(e.ops, e.comparators):
                parts.append(self.cmp(left, op, right))
                left = right
            return "(" + " ∧ ".join(parts) + ")"
        # a bare value used as a test: bool
        return f"({self.expr(e)} = true)"

    def cmp(self, l, op, r):
        if isinstance(op, (ast.Is, ast.IsNot)):
            if isinstance(r, ast.Constant) and r.value is None:
                t = f"({self.expr(l)}).isNone = true"
                return t if isinstance(op, ast.Is) else f"¬ ({t})"
            raise Untranslatable("is / is not on non-None")
        if isinstance(op, (ast.In, ast.NotIn)):
            if isinstance(r, (ast.Tuple, ast.List)):
                t = "(" + " ∨ ".join(f"{self.expr(l)} = {self.expr(x)}" for x in r.elts) + ")"
                return t if isinstance(op, ast.In) else f"¬ {t}"
            raise Untranslatable("in on non-literal")
        m = {ast.Eq: "=", ast.NotEq: "≠", ast.Lt: "<", ast.LtE: "≤", ast.Gt: ">", ast.GtE: "≥"}
        for k, v in m.items():
            if isinstance(op, k):
                return f"{self.expr(l)} {v} {self.expr(r)}"
        raise Untranslatable(f"comparison {type(op).__name__}")

    # ---------------------------------------------------------------- stmts
    def is_dropped(self, st):
        if isinstance(st, ast.Expr):
            if isinstance(st.value, ast.Constant):
                return True  # docstring
            if isinstance(st.value, ast.Call):
                d = _dotted(st.value.func) or ""
                return d.split(".")[0] in self.s.drop_calls
        return isinstance(st, ast.Pass)

    def ret(self, val):
        if self.s.state:
            return f"(s, {val})"
        return val

    def block(self, stmts, ind):
        pad = "  " * ind
        if not stmts:
            if self.s.noret_value is None:
                raise Untranslatable("falls off the end without a return value")
            return pad + self.ret(self.s.noret_value)
        st, rest = stmts[0], stmts[1:]
        if self.is_dropped(st):
            return self.block(rest, ind)
        if isinstance(st, ast.Return):
            if st.value is None:
                if self.s.noret_value is None:
                    raise Untranslatable("bare return")
                return pad + self.ret(self.s.noret_value)
            return pad + self.ret(self.expr(st.value))
        if isinstance(st, ast.If):
            return (f"{pad}if {self.prop(st.test)} then\n{self.block(st.body + rest, ind + 1)}\n"
                    f"{pad}else\n{self.block(st.orelse + rest, ind + 1)}")
        if isinstance(st, ast.With):
            for it in st.items:
                d = _dotted(it.context_expr) or ""
                if "lock" not in d.lower():
                    raise Untranslatable(f"with {d}")
            self.s.facts["with_lock"] = True
            return self.block(st.body + rest, ind)
        if isinstance(st, (ast.Assign, ast.AugAssign)):
            if isinstance(st, ast.Assign):
                if len(st.targets) != 1:
                    raise Untranslatable("multiple targets")
                tgt, val = st.targets[0], self.expr(st.value)
            else:
                tgt = st.target
                val = self.expr(ast.BinOp(left=st.target, op=st.op, right=st.value))
            if isinstance(tgt, ast.Name):
                return f"{pad}let {self._local(tgt.id)} := {val}\n{self.block(rest, ind)}"
            if isinstance(tgt, ast.Attribute) and isinstance(tgt.value, ast.Name) and tgt.value.id == self.s.self_name \
                    and tgt.attr in self.s.state_fields and self.s.state:
                return f"{pad}let s := {{ s with {self.s.state_fields[tgt.attr]} := {val} }}\n{self.block(rest, ind)}"
            raise Untranslatable(f"assignment target {ast.unparse(tgt)}")
        raise Untranslatable(f"statement {type(st).__name__}: {ast.unparse(st)[:60]}")

    def function(self, fn: ast.FunctionDef):
        s = self.s
        args = [a.arg for a in fn.args.args if a.arg != s.self_name]
        want = [p for p, _ in s.params]
        if args != want:
            raise Untranslatable(f"parameters {args} != expected {want}")
        sig = ""
        if s.state:
            sig += f" (s : {s.state})"
        for p, t in s.params:
            sig += f" ({self._local(p)} : {t})"
        rt = f"{s.state} × {s.ret}" if s.state else s.ret
        body = self.block(fn.body, 1)
        return f"def {s.name}{sig} : {rt} :=\n{body}\n"


def find_function(tree, qualname):
    """qualname 'Class.method' or 'function'."""
    parts = qualname.split(".")
    node = tree
    for p in parts:
        found = None
        for ch in ast.iter_child_nodes(node):
            if isinstance(ch, (ast.FunctionDef, ast.AsyncFunctionDef, ast.ClassDef)) and ch.name == p:
                found = ch
                break
        if found is None:
            raise Untranslatable(f"{qualname} not found")
        node = found
    return node


def translate_function(tree, qualname, spec):
    fn = find_function(tree, qualname)
    return Translator(spec).function(fn), spec.facts
