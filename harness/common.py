"""Shared machinery for every property check (see DESIGN.md section 2)."""
import fcntl
import hashlib
import json
import os
import random
import re
import subprocess
import sys
import time
from pathlib import Path

VERIF = Path(__file__).resolve().parent.parent
REPO = Path(os.environ.get("VERIF_REPO", "/repo"))
LEAN = VERIF / "lean"
# evidence is about /repo itself: a run against a scratch tree (VERIF_REPO=..., mutation self-tests) must not overwrite it
EVID = VERIF / "evidence" if str(REPO) == "/repo" else VERIF / "evidence" / "scratch"
REPLAY = EVID / "replay"
ALLOWED_AXIOMS = {"propext", "Classical.choice", "Quot.sound"}
FORBIDDEN = re.compile(r"sorry|admit|^axiom |native_decide|bv_decide|implemented_by|unsafe |maxHeartbeats 0|ofReduceBool",
                       re.M)

TRUSTED_BASE = [
    "Lean 4.33.0 kernel (thorough tier: leanchecker re-check of the compiled .olean files)",
    "axioms allowed in property theorems: propext, Classical.choice, Quot.sound (audited with #print axioms on every run); "
    "no native_decide, no bv_decide, no sorry, no axioms of our own",
    "harness/translate.py + harness/py2lean.py (Python ast -> Lean for the generated definitions; cross-checked each run by "
    "executing the generated definitions against the real Python on a domain sweep)",
    "the correspondence harness (deterministic fakes for socket / clock / event loop, canonicaliser, line protocol driver)",
]


def use_repo():
    """Make `import geckolib` resolve to /repo's working tree."""
    src = str(REPO / "src")
    if src not in sys.path:
        sys.path.insert(0, src)
    os.environ.setdefault("GECKOLIB_VERIF", "1")
    import logging
    logging.disable(logging.CRITICAL)


def repo_tree_id():
    try:
        h = subprocess.run(["git", "-C", str(REPO), "rev-parse", "--short", "HEAD"], capture_output=True, text=True).stdout.strip()
        d = subprocess.run(["git", "-C", str(REPO), "status", "--porcelain"], capture_output=True, text=True).stdout.strip()
        return h + ("-dirty" if d else "")
    except Exception:
        return "unknown"


def write_if_changed(path: Path, content: str) -> bool:
    path.parent.mkdir(parents=True, exist_ok=True)
    if path.exists() and path.read_text() == content:
        return False
    tmp = path.with_suffix(path.suffix + ".tmp%d" % os.getpid())
    tmp.write_text(content)
    os.replace(tmp, path)
    return True


class BuildLock:
    """writers (lake build) exclusive, readers (lean --run / #print axioms / leanchecker on the compiled library) shared"""

    def __init__(self, shared=False):
        self.shared = shared

    def __enter__(self):
        self.f = open(LEAN / ".buildlock", "a")
        fcntl.flock(self.f, fcntl.LOCK_SH if self.shared else fcntl.LOCK_EX)
        return self

    def __exit__(self, *a):
        fcntl.flock(self.f, fcntl.LOCK_UN)
        self.f.close()


def lake_build(targets, timeout=3000):
    """lake build of the given module targets. Returns (ok, output, seconds)."""
    t0 = time.time()
    with BuildLock():
        try:
            p = subprocess.run(["lake", "build"] + list(targets), cwd=LEAN, capture_output=True, text=True, timeout=timeout)
        except subprocess.TimeoutExpired:
            raise ToolFailure("lake build timed out")
    return p.returncode == 0, p.stdout + p.stderr, time.time() - t0


def lean_run_file(relpath, args=(), stdin=None, timeout=3000):
    with BuildLock(shared=True):
        p = subprocess.run(["lake", "env", "lean", "--run", relpath] + list(args), cwd=LEAN, input=stdin,
                           capture_output=True, text=True, timeout=timeout)
    return p.returncode, p.stdout, p.stderr


def lean_check_file(relpath, timeout=3000):
    with BuildLock(shared=True):
        p = subprocess.run(["lake", "env", "lean", relpath], cwd=LEAN, capture_output=True, text=True, timeout=timeout)
    return p.returncode, p.stdout + p.stderr


class ToolFailure(Exception):
    """internal failure of the tooling (exit 2), never a verdict"""


def broken_theorems(build_output, default_file=None):
    """Map `error:` lines of a lake build to the enclosing theorem/def names."""
    names = []
    for m in re.finditer(r"^error: (\S+?\.lean):(\d+):(\d+):\s*(.*)$", build_output, re.M):
        f, line, msg = m.group(1), int(m.group(2)), m.group(4)
        path = (LEAN / f) if not os.path.isabs(f) else Path(f)
        nm = f"{f}:{line}"
        try:
            src = path.read_text().splitlines()
            for i in range(min(line, len(src)) - 1, -1, -1):
                mm = re.match(r"\s*(?:@\[[^\]]*\]\s*)?(?:private\s+|protected\s+)?(theorem|lemma|def|example|instance|abbrev)\s+(\S+)?", src[i])
                if mm:
                    nm = f"{f}:{mm.group(2) or 'example'}@{i+1}"
                    break
        except Exception:
            pass
        names.append({"where": nm, "message": msg[:300]})
    if not names:
        for m in re.finditer(r"^error: (.*)$", build_output, re.M):
            names.append({"where": default_file or "lake", "message": m.group(1)[:300]})
    return names


def strip_comments(src):
    src = re.sub(r"/-.*?-/", "", src, flags=re.S)
    src = re.sub(r"--.*$", "", src, flags=re.M)
    return src


def theorem_names(prop_file: Path):
    """Fully qualified names of theorems in a Properties file (tracks `namespace`)."""
    src = strip_comments(prop_file.read_text())
    ns, out = [], []
    for line in src.splitlines():
        m = re.match(r"\s*namespace\s+(\S+)", line)
        if m:
            ns.append(m.group(1)); continue
        m = re.match(r"\s*end\s+(\S+)\s*$", line)
        if m and ns and ns[-1] == m.group(1):
            ns.pop(); continue
        m = re.match(r"\s*(?:@\[[^\]]*\]\s*)?(?:private\s+|protected\s+)?theorem\s+([^\s:({\[]+)", line)
        if m:
            out.append(".".join(ns + [m.group(1)]))
    return out


def grep_forbidden(files):
    hits = []
    for f in files:
        s = strip_comments(Path(f).read_text())
        for m in FORBIDDEN.finditer(s):
            hits.append(f"{f}: {m.group(0)!r}")
    return hits


def axiom_audit(prop_id, module, names):
    """#print axioms on every property theorem. Returns (ok, {name: [axioms]}, problems)."""
    lines = [f"import {module}"] + [f"#print axioms {n}" for n in names]
    rel = f"Driver/Audit_{prop_id}.lean"
    write_if_changed(LEAN / rel, "\n".join(lines) + "\n")
    rc, out = lean_check_file(rel)
    res, problems = {}, []
    # output forms: "'X' depends on axioms: [a, b]" / "'X' does not depend on any axioms"
    for m in re.finditer(r"'([^']+)' depends on axioms: \[([^\]]*)\]", out.replace("\n ", " ")):
        res[m.group(1)] = [a.strip() for a in m.group(2).replace("\n", " ").split(",") if a.strip()]
    for m in re.finditer(r"'([^']+)' does not depend on any axioms", out):
        res[m.group(1)] = []
    for n in names:
        if n not in res:
            problems.append(f"{n}: no axiom report (rc={rc})")
        else:
            bad = [a for a in res[n] if a not in ALLOWED_AXIOMS]
            if bad:
                problems.append(f"{n}: depends on {bad}")
    if rc != 0 and not problems:
        problems.append("audit file failed: " + out[:300])
    return (not problems), res, problems


def model_sources(mods):
    """Lean source files of the given module names and what they import inside GeckoModel (transitively)."""
    seen, todo = set(), list(mods)
    while todo:
        m = todo.pop()
        if m in seen or not m.startswith("GeckoModel"):
            continue
        p = LEAN / (m.replace(".", "/") + ".lean")
        if not p.exists():
            continue
        seen.add(m)
        for mm in re.finditer(r"^import\s+(\S+)", p.read_text(), re.M):
            todo.append(mm.group(1))
    return sorted(LEAN / (m.replace(".", "/") + ".lean") for m in seen)


def leanchecker(mods, timeout=3000):
    with BuildLock(shared=True):
        p = subprocess.run(["lake", "env", "leanchecker"] + list(mods), cwd=LEAN, capture_output=True, text=True, timeout=timeout)
    return p.returncode == 0, (p.stdout + p.stderr)[-2000:]


class Driver:
    """Line protocol to a Lean model driver: one op per line in, one answer line out."""

    def __init__(self, relpath, args=()):
        self.relpath, self.args = relpath, list(args)

    def run(self, lines, timeout=3000):
        # the driver is interpreted against the compiled library: make sure what it imports is built (another check or a
        # regeneration may have invalidated it since)
        try:
            mods = re.findall(r"^import\s+(GeckoModel\.\S+)", (LEAN / self.relpath).read_text(), re.M)
            if mods:
                ok, out, _ = lake_build(mods)
                if not ok:
                    raise DriverFailure(f"driver {self.relpath}: imports do not build: {out[-1500:]}")
        except FileNotFoundError:
            raise DriverFailure(f"driver {self.relpath} missing")
        data = "\n".join(lines) + "\n"
        rc, out, err = lean_run_file(self.relpath, self.args, stdin=data, timeout=timeout)
        if rc != 0:
            raise DriverFailure(f"driver {self.relpath} rc={rc}: {err[:2000]} {out[-500:]}")
        res = out.split("\n")
        if res and res[-1] == "":
            res.pop()
        if len(res) != len(lines):
            raise DriverFailure(f"driver {self.relpath}: {len(lines)} ops, {len(res)} answers; stderr={err[:500]}")
        return res


class DriverFailure(Exception):
    pass


def known_findings():
    p = VERIF / "known_findings.json"
    if not p.exists():
        return {"findings": [], "fixed": []}
    return json.loads(p.read_text())


class Ctx:
    """State of one check run."""

    def __init__(self, prop, tier, seed):
        self.prop, self.tier, self.seed = prop, tier, seed
        self.rng = random.Random(seed)
        self.t0 = time.time()
        self.broken = []        # [{obligation, detail}]
        self.violations = []    # [{key, input, expected, observed, kind}]
        self.cov = {"samples": [], "trusted_base": list(TRUSTED_BASE)}
        self.assumptions = []
        self.obligations = 0
        self.discharged = 0
        self.notes = []
        self.quick = tier == "quick"

    def log(self, *a):
        print(f"[{self.prop} {time.time()-self.t0:6.1f}s]", *a, flush=True)

    def obligation_broken(self, name, detail=""):
        self.broken.append({"obligation": name, "detail": str(detail)[:6000]})
        self.log("OBLIGATION BROKEN:", name, str(detail)[:300])

    def violation(self, key, input, expected, observed, kind="failing-input"):
        for v in self.violations:
            if v["key"] == key:
                return
        self.violations.append({"key": key, "input": input, "expected": expected, "observed": observed, "kind": kind})

    def sample(self, x, cap=6):
        if len(self.cov["samples"]) < cap:
            self.cov["samples"].append(x)

    def count(self, k, n=1):
        self.cov[k] = self.cov.get(k, 0) + n

    def hist(self, k, sub, n=1):
        d = self.cov.setdefault(k, {})
        d[str(sub)] = d.get(str(sub), 0) + n

    # ---- the standard Lean steps -------------------------------------------------
    def lean_obligations(self, prop_module, extra_modules=(), checker=True):
        """Build the property file, audit axioms and forbidden tokens. Returns True if all discharged."""
        prop_file = LEAN / (prop_module.replace(".", "/") + ".lean")
        mods = [prop_module] + list(extra_modules)
        names = theorem_names(prop_file) if prop_file.exists() else []
        self.obligations += max(len(names), 1)
        ok, out, secs = lake_build(mods)
        self.cov["checker_cmd"] = "cd lean && lake build " + " ".join(mods) + " && lake env lean Driver/Audit_%s.lean (#print axioms)" % self.prop
        self.cov["lake_build_s"] = round(secs, 1)
        if not ok:
            bt = broken_theorems(out, str(prop_file))
            for b in bt[:10]:
                self.obligation_broken(b["where"], b["message"])
            if not bt:
                self.obligation_broken(prop_module, out[-800:])
            return False
        srcs = model_sources(mods)
        hits = grep_forbidden(srcs)
        if hits:
            self.obligation_broken("forbidden-token-audit", hits)
            return False
        aok, res, problems = axiom_audit(self.prop, prop_module, names)
        self.cov["theorems"] = names
        self.cov["axioms_used"] = sorted({a for v in res.values() for a in v})
        if not aok:
            self.obligation_broken("axiom-audit", problems)
            return False
        self.discharged += len(names)
        if self.tier == "thorough" and checker:
            cok, cout = leanchecker(mods)
            self.cov["leanchecker"] = "ok" if cok else cout[-500:]
            if not cok:
                self.obligation_broken("leanchecker", cout[-500:])
                return False
        return True


def finish(ctx: Ctx, level="proof"):
    """Write evidence, print verdict lines, return exit code."""
    kf = known_findings()
    listed = {f["key"]: f for f in kf.get("findings", []) if f.get("property") == ctx.prop}
    new, known = [], []
    for v in ctx.violations:
        (known if v["key"] in listed else new).append(v)
    REPLAY.mkdir(parents=True, exist_ok=True)
    lines, rc = [], 0
    tree = repo_tree_id()
    n = 0
    cov_extra = len(new)
    for v in new[:10]:
        n += 1
        path = REPLAY / f"{ctx.prop}-{n}.json"
        path.write_text(json.dumps({
            "property": ctx.prop, "seed": ctx.seed, "kind": v["kind"], "tree": tree, "key": v["key"],
            "input": v["input"], "expected": v["expected"], "observed": v["observed"],
            "broken_obligation": ctx.broken or None,
            "how_to_run": f"./check {ctx.prop} --replay {path.relative_to(VERIF)}"}, indent=1, default=str))
        lines.append(f"VIOLATION property={ctx.prop} replay={path.relative_to(VERIF)}")
        rc = 1
    if ctx.broken and not new:
        n += 1
        path = REPLAY / f"{ctx.prop}-{n}.json"
        path.write_text(json.dumps({
            "property": ctx.prop, "seed": ctx.seed, "kind": "obligation", "tree": tree,
            "input": None, "broken_obligation": ctx.broken,
            "note": "a proof obligation or the model/implementation correspondence no longer checks; the failing-input search "
                    "on the real code found no input on which the property itself fails",
            "how_to_run": f"./check {ctx.prop} --tier {ctx.tier}"}, indent=1, default=str))
        lines.append(f"VIOLATION property={ctx.prop} replay={path.relative_to(VERIF)} no-failing-input-found")
        rc = 1
    for v in known:
        lines.append(f"KNOWN-FINDING: property={ctx.prop} {listed[v['key']].get('what', v['key'])}")
    cov = ctx.cov
    cov["obligations"] = max(ctx.obligations, 1)
    cov["discharged"] = ctx.discharged
    cov.setdefault("checker_cmd", "cd lean && lake build")
    cov.setdefault("evaluations", 0)
    cov.setdefault("distinct_nontrivial", 0)
    cov.setdefault("rule", "")
    cov["broken_obligations"] = ctx.broken
    cov["unlisted_violations_found"] = cov_extra
    cov["unlisted_violation_keys"] = [v["key"] for v in new[:50]]
    cov["known_findings_reproduced"] = [v["key"] for v in known]
    if not cov["samples"]:
        cov["samples"] = ["(no sample recorded)"]
    ev = {"property_id": ctx.prop, "tier": ctx.tier, "seed": ctx.seed, "level": level, "coverage": cov,
          "assumptions": ctx.assumptions, "wall_s": round(time.time() - ctx.t0, 2), "violations": len(new) + (1 if ctx.broken and not new else 0),
          "repo_tree": tree, "notes": ctx.notes}
    EVID.mkdir(parents=True, exist_ok=True)
    (EVID / f"{ctx.prop}.json").write_text(json.dumps(ev, indent=1, default=str))
    for l in lines:
        print(l, flush=True)
    print(f"[{ctx.prop}] tier={ctx.tier} seed={ctx.seed} obligations={cov['obligations']} discharged={cov['discharged']} "
          f"evaluations={cov['evaluations']} violations={ev['violations']} known={len(known)} wall={ev['wall_s']}s -> exit {rc}", flush=True)
    return rc


def hx(b: bytes) -> str:
    return b.hex() if b else "-"


def unhx(s: str) -> bytes:
    return b"" if s == "-" else bytes.fromhex(s)


def digest(obj) -> str:
    return hashlib.sha1(json.dumps(obj, sort_keys=True, default=str).encode()).hexdigest()[:12]
