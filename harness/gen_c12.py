"""gen_c12.py - translator plugin for C12: Generated/DeviceTable.lean.

From /repo's working tree:
  * const.py  GeckoConstants.DEVICES / SENSORS / BINARY_SENSORS and the constants they name (evaluated from the class body's
    AST: literals, names of earlier class attributes, tuples, lists, dicts - nothing is executed), the eco switch's tuple and the
    device-class names.
  * the fixed automation keys: third argument of `super().__init__(facade, <name>, <key>)` in GeckoWaterHeater / GeckoWaterCare /
    GeckoReminders / GeckoKeypad; the rule `key = name.upper()` of GeckoSensorBase; `unique_id = f"{parent}-{key}"`.
  * the composition order of `all_user_devices` / `all_automation_devices` in both facades (a `+` chain of attributes and lists).
  * which de-duplication each facade uses in its output scan: `list(dict.fromkeys(..))` (order preserving) or `set(..)`.
"""
import ast

from py2lean import Untranslatable, find_function, _dotted
import translate as T


def _class(tree, name):
    for n in tree.body:
        if isinstance(n, ast.ClassDef) and n.name == name:
            return n
    raise Untranslatable(f"class {name} not found")


def eval_consts(cls):
    """evaluate the simple assignments of a class body in order (literal expressions over earlier names)"""
    env = {}

    def ev(e):
        if isinstance(e, ast.Constant):
            return e.value
        if isinstance(e, ast.Name):
            if e.id in env:
                return env[e.id]
            raise Untranslatable(f"const.py: name {e.id} used before assignment")
        if isinstance(e, ast.Tuple):
            return tuple(ev(x) for x in e.elts)
        if isinstance(e, ast.List):
            return [ev(x) for x in e.elts]
        if isinstance(e, ast.Dict):
            keys = [ev(k) for k in e.keys]
            if len(set(keys)) != len(keys):
                raise Untranslatable(f"const.py: duplicate key in a dict literal: {keys}")
            return {k: ev(v) for k, v in zip(keys, e.values)}
        raise Untranslatable(f"const.py: expression {ast.unparse(e)[:60]}")
    for st in cls.body:
        if isinstance(st, ast.Assign) and len(st.targets) == 1 and isinstance(st.targets[0], ast.Name):
            try:
                env[st.targets[0].id] = ev(st.value)
            except Untranslatable:
                if st.targets[0].id in ("DEVICES", "SENSORS", "BINARY_SENSORS"):
                    raise
    return env


def _super_init_args(tree, cls_name):
    fn = find_function(tree, f"{cls_name}.__init__")
    for st in fn.body:
        if isinstance(st, ast.Expr) and isinstance(st.value, ast.Call) and ast.unparse(st.value.func) == "super().__init__":
            return st.value.args
    raise Untranslatable(f"{cls_name}.__init__: no super().__init__ call")


def _fixed_key(rel, cls_name):
    args = _super_init_args(T.parse(rel), cls_name)
    if len(args) != 3 or not all(isinstance(a, ast.Constant) and isinstance(a.value, str) for a in args[1:]):
        raise Untranslatable(f"{cls_name}: super().__init__(facade, <str>, <str>) expected")
    return args[1].value, args[2].value


def _flatten_plus(e):
    """a `+` chain of self.<attr> and [self.<attr>, ...] -> list of attribute names"""
    if isinstance(e, ast.BinOp) and isinstance(e.op, ast.Add):
        return _flatten_plus(e.left) + _flatten_plus(e.right)
    if isinstance(e, ast.List):
        out = []
        for x in e.elts:
            out += _flatten_plus(x)
        return out
    if isinstance(e, ast.Attribute) and isinstance(e.value, ast.Name) and e.value.id == "self":
        return [e.attr.lstrip("_")]
    raise Untranslatable(f"automation list: {ast.unparse(e)[:60]}")


def _prop_return(tree, cls_name, prop):
    fn = find_function(tree, f"{cls_name}.{prop}")
    rets = [st for st in fn.body if isinstance(st, ast.Return)]
    if len(rets) != 1:
        raise Untranslatable(f"{cls_name}.{prop}: one return expected")
    return rets[0].value


def _order(tree, cls_name):
    users = _flatten_plus(_prop_return(tree, cls_name, "all_user_devices"))
    if users != ["pumps", "blowers", "lights"]:
        raise Untranslatable(f"{cls_name}.all_user_devices is {users}")
    allv = _flatten_plus(_prop_return(tree, cls_name, "all_automation_devices"))
    out = []
    for a in allv:
        out += users if a == "all_user_devices" else [a]
    known = {"pumps", "blowers", "lights", "sensors", "binary_sensors", "water_heater", "water_care", "reminders_manager", "keypad", "eco_mode"}
    if not set(out) <= known or len(set(out)) != len(out):
        raise Untranslatable(f"{cls_name}.all_automation_devices: unexpected slots {out}")
    return out


def _dedup_kind(tree, cls_name, meth):
    fn = find_function(tree, f"{cls_name}.{meth}")
    for st in ast.walk(fn):
        if isinstance(st, ast.Assign) and len(st.targets) == 1 and ast.unparse(st.targets[0]) == "actual_devices":
            src = ast.unparse(st.value)
            if src.startswith("list(dict.fromkeys("):
                return "orderPreserving"
            if src.startswith("set("):
                return "hashSet"
            raise Untranslatable(f"{cls_name}.{meth}: actual_devices = {src[:40]}")
    raise Untranslatable(f"{cls_name}.{meth}: no assignment to actual_devices")


SCAN_LISTS = ("actual_user_devices", "_pumps", "_blowers", "_lights", "_sensors", "_binary_sensors")


def _scan_updates(tree, cls_name, meth):
    """how the output scan updates each inventory list of the facade OBJECT: True = rebuilt by assignment,
    False = grown in place (append / extend / insert / +=), which makes a second scan on the same object accumulate"""
    fn = find_function(tree, f"{cls_name}.{meth}")
    how = {}
    for st in ast.walk(fn):
        if isinstance(st, ast.Assign):
            for t in st.targets:
                if isinstance(t, ast.Attribute) and _is_self(t.value) and t.attr in SCAN_LISTS:
                    how.setdefault(t.attr, True)
        elif isinstance(st, ast.AugAssign) and isinstance(st.target, ast.Attribute) and _is_self(st.target.value) and st.target.attr in SCAN_LISTS:
            how[st.target.attr] = False
        elif isinstance(st, ast.Call) and isinstance(st.func, ast.Attribute) and st.func.attr in ("append", "extend", "insert") \
                and isinstance(st.func.value, ast.Attribute) and _is_self(st.func.value.value) and st.func.value.attr in SCAN_LISTS:
            how[st.func.value.attr] = False
    missing = [a for a in SCAN_LISTS if a not in how]
    if missing:
        raise Untranslatable(f"{cls_name}.{meth}: does not build {missing}")
    return [(a, how[a]) for a in SCAN_LISTS]


def _is_self(e):
    return isinstance(e, ast.Name) and e.id == "self"


def _get_device_shape(tree, cls_name):
    fn = find_function(tree, f"{cls_name}.get_device")
    body = [st for st in fn.body if not (isinstance(st, ast.Expr) and isinstance(st.value, ast.Constant))]
    want = "for device in self.all_automation_devices:\n    if device.key == key:\n        return device"
    if len(body) != 2 or ast.unparse(body[0]) != want or ast.unparse(body[1]) != "return None":
        raise Untranslatable(f"{cls_name}.get_device: unexpected body")


def gen_device_table():
    L = T.lstr
    env = eval_consts(_class(T.parse("const.py"), "GeckoConstants"))
    for n in ("DEVICES", "SENSORS", "BINARY_SENSORS", "DEVICE_CLASS_PUMP", "DEVICE_CLASS_BLOWER", "DEVICE_CLASS_LIGHT", "DEVICE_CLASS_SWITCH",
              "ECON_ACTIVE_DESCRIPTION", "KEYPAD_ECOMODE", "KEY_ECON_ACTIVE"):
        if n not in env:
            raise Untranslatable(f"const.py: {n} missing")
    dev = env["DEVICES"]
    if not isinstance(dev, dict) or not all(isinstance(k, str) and isinstance(v, tuple) and len(v) == 4 and isinstance(v[0], str)
                                            and isinstance(v[1], int) and isinstance(v[2], str) and isinstance(v[3], str) for k, v in dev.items()):
        raise Untranslatable("const.py: DEVICES is not {str: (str, int, str, str)}")
    if not all(isinstance(s, tuple) and len(s) == 2 and all(isinstance(x, str) for x in s) for s in env["SENSORS"]):
        raise Untranslatable("const.py: SENSORS is not [(str, str)]")
    if not all(isinstance(s, tuple) and len(s) == 3 and all(isinstance(x, str) for x in s) for s in env["BINARY_SENSORS"]):
        raise Untranslatable("const.py: BINARY_SENSORS is not [(str, str, str)]")
    out = [T.HEADER, "namespace GeckoModel.Generated\n",
           "/-- one row of GeckoConstants.DEVICES: ID: (description, keypad, structure key, class) -/\n"
           "structure DeviceRow where\n  id : String\n  name : String\n  keypad : Nat\n  stateKey : String\n  cls : String\nderiving Repr, DecidableEq\n",
           "/-- one row of SENSORS / BINARY_SENSORS: (name, accessor key, class or \"\") -/\n"
           "structure SensorRow where\n  name : String\n  key : String\n  cls : String\nderiving Repr, DecidableEq\n",
           "inductive DedupKind | orderPreserving | hashSet\nderiving Repr, DecidableEq\n"]
    out.append("/-- const.py GeckoConstants.DEVICES, in dictionary (insertion) order -/\ndef devicesTable : List DeviceRow := [\n" + ",\n".join(
        f"  ⟨{L(k)}, {L(v[0])}, {v[1]}, {L(v[2])}, {L(v[3])}⟩" for k, v in dev.items()) + "]\n")
    out.append("/-- const.py GeckoConstants.SENSORS -/\ndef sensorsTable : List SensorRow := [\n" + ",\n".join(
        f"  ⟨{L(a)}, {L(b)}, \"\"⟩" for a, b in env["SENSORS"]) + "]\n")
    out.append("/-- const.py GeckoConstants.BINARY_SENSORS -/\ndef binarySensorsTable : List SensorRow := [\n" + ",\n".join(
        f"  ⟨{L(a)}, {L(b)}, {L(c)}⟩" for a, b, c in env["BINARY_SENSORS"]) + "]\n")
    for n, ln in (("DEVICE_CLASS_PUMP", "classPump"), ("DEVICE_CLASS_BLOWER", "classBlower"), ("DEVICE_CLASS_LIGHT", "classLight"),
                  ("DEVICE_CLASS_SWITCH", "classSwitch")):
        out.append(f"def {ln} : String := {L(env[n])}")
    out.append(f"\n/-- the eco switch built by both facades when KEY_ECON_ACTIVE is an accessor: key and (description, keypad, state key, class) -/\n"
               f"def ecoRow : DeviceRow := ⟨{L(env['KEY_ECON_ACTIVE'])}, {L(env['ECON_ACTIVE_DESCRIPTION'])}, {env['KEYPAD_ECOMODE']}, "
               f"{L(env['KEY_ECON_ACTIVE'])}, {L(env['DEVICE_CLASS_SWITCH'])}⟩\n")
    # check the eco construction in both facades names exactly these constants
    eco_src = ("GeckoSwitch(self, GeckoConstants.KEY_ECON_ACTIVE, (GeckoConstants.ECON_ACTIVE_DESCRIPTION, GeckoConstants.KEYPAD_ECOMODE, "
               "GeckoConstants.KEY_ECON_ACTIVE, GeckoConstants.DEVICE_CLASS_SWITCH))")
    for rel, cls, meth in (("automation/async_facade.py", "GeckoAsyncFacade", "_scan_outputs"), ("automation/facade.py", "GeckoFacade", "scan_outputs")):
        fn = find_function(T.parse(rel), f"{cls}.{meth}")
        if eco_src not in ast.unparse(fn):
            raise Untranslatable(f"{cls}.{meth}: eco switch construction changed")
    # fixed keys
    fixed = {}
    for slot, rel, cls in (("water_heater", "automation/heater.py", "GeckoWaterHeater"), ("water_care", "automation/watercare.py", "GeckoWaterCare"),
                           ("reminders_manager", "automation/reminders.py", "GeckoReminders"), ("keypad", "automation/keypad.py", "GeckoKeypad")):
        fixed[slot] = _fixed_key(rel, cls)
    out.append("/-- (slot, name, key) of the fixed automation objects: `super().__init__(facade, name, key)` in their constructors -/\n"
               "def fixedKeys : List (String × String × String) := [" + ", ".join(f"({L(s)}, {L(n)}, {L(k)})" for s, (n, k) in fixed.items()) + "]\n")
    # sensors: key = name.upper()
    args = _super_init_args(T.parse("automation/sensors.py"), "GeckoSensorBase")
    if len(args) != 3 or ast.unparse(args[1]) != "name" or ast.unparse(args[2]) != "name.upper()":
        raise Untranslatable("GeckoSensorBase.__init__: key is not name.upper()")
    out.append("/-- GeckoSensorBase: `super().__init__(facade, name, name.upper())` (syntactic fact) -/\ndef sensorKeyIsUpperName : Bool := true\n")
    # devices: key = the device id; name = props[0]
    for rel, cls in (("automation/pump.py", "GeckoPump"), ("automation/switch.py", "GeckoSwitch")):
        args = _super_init_args(T.parse(rel), cls)
        if [ast.unparse(a) for a in args] != ["facade", "props[0]", "key"]:
            raise Untranslatable(f"{cls}.__init__: super().__init__(facade, props[0], key) expected")
    # unique id
    fn = find_function(T.parse("automation/base.py"), "GeckoAutomationBase.unique_id")
    rets = [st for st in fn.body if isinstance(st, ast.Return)]
    if len(rets) != 1 or ast.unparse(rets[0].value) != "f'{self._unique_id}-{self._key}'":
        raise Untranslatable("GeckoAutomationBase.unique_id is not f'{self._unique_id}-{self._key}'")
    out.append("/-- base.py: `unique_id = f\"{self._unique_id}-{self._key}\"` -/\ndef uniqueIdSep : String := \"-\"\n")
    at = T.parse("automation/async_facade.py")
    st = T.parse("automation/facade.py")
    out.append("/-- order of `all_automation_devices` (async facade), `all_user_devices` expanded -/\ndef asyncAutomationOrder : List String := "
               + packs_llist(_order(at, "GeckoAsyncFacade")))
    out.append("/-- order of `all_automation_devices` (threaded facade) -/\ndef syncAutomationOrder : List String := "
               + packs_llist(_order(st, "GeckoFacade")) + "\n")
    _get_device_shape(at, "GeckoAsyncFacade")
    _get_device_shape(st, "GeckoFacade")
    out.append("/-- both `get_device` are the linear search `for device in all_automation_devices: if device.key == key: return device` (syntactic fact) -/\n"
               "def getDeviceIsLinearSearch : Bool := true\n")
    out.append(f"/-- how each facade de-duplicates the devices found on the outputs -/\ndef asyncDedup : DedupKind := .{_dedup_kind(at, 'GeckoAsyncFacade', '_scan_outputs')}")
    out.append(f"def syncDedup : DedupKind := .{_dedup_kind(st, 'GeckoFacade', 'scan_outputs')}\n")
    for nm, tree, cls, meth in (("asyncScanUpdates", at, "GeckoAsyncFacade", "_scan_outputs"), ("syncScanUpdates", st, "GeckoFacade", "scan_outputs")):
        ups = _scan_updates(tree, cls, meth)
        out.append(f"/-- {cls}.{meth}: (inventory list of the facade object, rebuilt by ASSIGNMENT? - false = grown in place) -/\n"
                   f"def {nm} : List (String × Bool) := [" + ", ".join(f"({L(a)}, {'true' if b else 'false'})" for a, b in ups) + "]")
    out.append("end GeckoModel.Generated\n")
    return "\n".join(out)


def packs_llist(xs):
    return "[" + ", ".join(T.lstr(x) for x in xs) + "]"


GENERATORS = {"DeviceTable": gen_device_table}
