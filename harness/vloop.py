"""Virtual-time asyncio event loop and deterministic fakes (DESIGN.md section 2.2).

VLoop            - SelectorEventLoop whose clock is virtual: when nothing is ready it jumps to the next timer.
                   An optional seeded scheduler knob permutes the callbacks that are ready in one iteration and
                   adds bounded jitter to timers, so one seed is one schedule and replays exactly.
patch_time(loop) - make the geckolib modules that read time.monotonic() read the loop's clock.
FakeTransport    - datagram transport handed out by VLoop.create_datagram_endpoint; records sendto/close.
"""
import asyncio
import heapq
import random
import sys
import types


class Deadlock(RuntimeError):
    """the virtual loop has nothing runnable and no timer: whoever is waiting waits for ever"""


class VLoop(asyncio.SelectorEventLoop):
    def __init__(self, seed=None, shuffle=False, jitter=0.0, quantum=0.001, stable=False):
        super().__init__()
        self._stable = stable
        self._seq = 0
        self._vt = 0.0
        self._rng = random.Random(seed)
        self._shuffle = shuffle
        self._jitter = jitter
        self._quantum = quantum
        self.transports = []       # every FakeTransport handed out
        self.network = None        # object with .attach(transport) / .sendto(transport, data, addr)
        self.iterations = 0
        self.on_iter = None        # optional callback run after every loop iteration (used to observe suspension points exactly)

    def time(self):
        return self._vt

    def call_at(self, when, callback, *args, context=None):
        if self._jitter:
            when = when + round(self._rng.random() * self._jitter, 3)     # whole milliseconds
        when = round(when, 6)      # keep the virtual clock on a 1 us grid (no float drift over thousands of 0.1 s sleeps)
        if self._stable:
            # equal deadlines expire in the order the timers were started (what a real monotonic clock gives: the task that went to
            # sleep first wakes first); without this the timer heap breaks ties arbitrarily
            self._seq = (self._seq + 1) % 900
            when += self._seq * 1e-9
        return super().call_at(when, callback, *args, context=context)

    def _run_once(self):
        self.iterations += 1
        sched = self._scheduled
        while sched and sched[0]._cancelled:
            h = heapq.heappop(sched)
            h._scheduled = False
            self._timer_cancelled_count = max(0, self._timer_cancelled_count - 1)
        if not self._ready and sched:
            when = sched[0]._when
            if when > self._vt:
                self._vt = when
        if not self._ready and not sched and not self._stopping:
            # nothing is runnable and no timer is pending: on a virtual clock nothing can ever happen again (only another thread could
            # wake the loop - look once). The code under test waits for something that will never come: a verdict, not a hung check
            self._process_events(self._selector.select(0))
            if not self._ready and not self._scheduled:
                raise Deadlock("every task is waiting and no timer is pending: the run can never continue")
        if self._shuffle and len(self._ready) > 1:
            items = list(self._ready)
            self._rng.shuffle(items)
            self._ready.clear()
            self._ready.extend(items)
        super()._run_once()
        if self.on_iter is not None:
            self.on_iter()

    def advance(self, dt):
        """run the loop for dt virtual seconds"""
        async def _s():
            await asyncio.sleep(dt)
        self.run_until_complete(_s())

    async def create_datagram_endpoint(self, protocol_factory, local_addr=None, remote_addr=None, **kw):
        # `endpoint_faults` = how many of the next openings of a CONNECTION endpoint (not a discovery's broadcast endpoint) the host refuses
        if getattr(self, "endpoint_faults", 0) and not kw.get("allow_broadcast"):
            self.endpoint_faults -= 1
            self.endpoint_refusals = getattr(self, "endpoint_refusals", 0) + 1
            await asyncio.sleep(0)
            raise OSError(101, "Network is unreachable")
        protocol = protocol_factory()
        tr = FakeTransport(self, protocol, kw)
        try:
            tr.task_name = asyncio.current_task().get_name()
        except Exception:  # noqa
            tr.task_name = ""
        self.transports.append(tr)
        if self.network is not None:
            self.network.attach(tr)
        # real endpoint creation suspends at least once; like asyncio, a cancellation in that window closes the new transport
        try:
            await asyncio.sleep(0)
        except BaseException:
            tr.closed = True
            tr.closed_at = self.time()
            raise
        protocol.connection_made(tr)
        return tr, protocol


class FakeTransport(asyncio.DatagramTransport):
    _next_id = 0

    def __init__(self, loop, protocol, kw=None):
        super().__init__()
        self.loop, self.protocol, self.kw = loop, protocol, kw or {}
        self.sent = []          # (time, data, addr)
        self.closed = False
        self.closed_at = None
        self.opened_at = loop.time()
        FakeTransport._next_id += 1
        self.id = FakeTransport._next_id
        self.addr = ("10.0.0.%d" % (100 + self.id % 100), 40000 + self.id)

    def sendto(self, data, addr=None):
        if self.closed:
            return
        self.sent.append((self.loop.time(), bytes(data), addr))
        if self.loop.network is not None:
            self.loop.network.sendto(self, bytes(data), addr)

    def close(self):
        if not self.closed:
            self.closed = True
            self.closed_at = self.loop.time()
            self.loop.call_soon(self.protocol.connection_lost, None)

    def is_closing(self):
        return self.closed

    def abort(self):
        self.close()

    def get_extra_info(self, name, default=None):
        if name == "sockname":
            return self.addr
        return default

    def deliver(self, data, addr):
        if not self.closed:
            self.protocol.datagram_received(data, addr)


class _Clock:
    """stand-in for the `time` module inside geckolib modules"""

    def __init__(self, real, now):
        self._real, self._now = real, now

    def monotonic(self):
        return self._now()

    def time(self):
        return _EPOCH + self._now() + WALL_SHIFT[0]

    __name__ = "time"

    def __getattr__(self, k):
        return getattr(self._real, k)


_TIME_MODULES = ["geckolib.driver.udp_protocol_handler", "geckolib.async_locator", "geckolib.async_spa",
                 "geckolib.driver.udp_socket", "geckolib.spa", "geckolib.locator", "geckolib.async_spa_manager",
                 "geckolib.automation.async_facade", "geckolib.automation.facade"]


_EPOCH = 1_700_000_000.0       # wall-clock reading at virtual time 0 (any fixed instant)
WALL_SHIFT = [0.0]             # the WALL clock may be stepped (NTP correction, a user setting the date) while the monotonic one runs on:
                               # a harness sets WALL_SHIFT[0] to move time.time() / datetime.now() without touching time.monotonic()


def _virtual_datetime(now):
    """a datetime class whose now() / utcnow() follow the virtual clock (for code that measures elapsed time on the wall clock)"""
    import datetime as _dt

    class VDateTime(_dt.datetime):
        @classmethod
        def now(cls, tz=None):
            return _dt.datetime.fromtimestamp(_EPOCH + now() + WALL_SHIFT[0], tz)

        @classmethod
        def utcnow(cls):
            return _dt.datetime.fromtimestamp(_EPOCH + now() + WALL_SHIFT[0], _dt.timezone.utc).replace(tzinfo=None)
    return VDateTime


class patch_time:
    """context manager: EVERY clock geckolib can read follows `now()`: time.monotonic() / time.time() of the modules that import
    `time`, and datetime.now() / utcnow() of every geckolib module that imported the datetime class (so that a library measuring
    elapsed time on the wall clock is judged on the same clock as one that uses the monotonic one)"""

    def __init__(self, now):
        self.now = now
        self.saved = []

    def __enter__(self):
        import datetime as _dt
        import importlib
        import sys
        import time as real
        for m in _TIME_MODULES:
            try:
                importlib.import_module(m)
            except Exception:
                continue
        vdt = _virtual_datetime(self.now)
        for name, mod in list(sys.modules.items()):
            if not name.startswith("geckolib") or mod is None or ".packs." in name:
                continue
            if isinstance(getattr(mod, "time", None), (types.ModuleType, _Clock)) and getattr(getattr(mod, "time"), "__name__", "time") == "time":
                self.saved.append((mod, "time", mod.time))
                mod.time = _Clock(real, self.now)
            if getattr(mod, "datetime", None) is _dt.datetime:
                self.saved.append((mod, "datetime", mod.datetime))
                mod.datetime = vdt
        return self

    def __exit__(self, *a):
        for mod, attr, t in self.saved:
            setattr(mod, attr, t)


def reset_config():
    """config.py keeps a module-level future and a live config object; make each run start clean."""
    import geckolib.config as cfg
    cfg.ConfigChange = None
    idle = cfg._GeckoIdleConfig()
    for member in cfg.CONFIG_MEMBERS:
        setattr(cfg.GeckoConfig, member, getattr(idle, member))


def run_virtual(coro_fn, seed=None, shuffle=False, jitter=0.0, network=None, stable=False):
    """Run `await coro_fn(loop)` on a fresh virtual loop with patched time; returns its result."""
    loop = VLoop(seed=seed, shuffle=shuffle, jitter=jitter, stable=stable)
    loop.network = network
    asyncio.set_event_loop(loop)
    reset_config()
    try:
        with patch_time(loop.time):
            return loop.run_until_complete(coro_fn(loop))
    finally:
        try:
            pend = [t for t in asyncio.all_tasks(loop) if not t.done()]
            for t in pend:
                t.cancel()
            if pend:
                loop.run_until_complete(asyncio.gather(*pend, return_exceptions=True))
        except Exception:
            pass
        asyncio.set_event_loop(None)
        loop.close()
