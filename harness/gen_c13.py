"""translator plugin for C13: the order of the statements of GeckoWaterCare.async_set_mode (send the command, update the
local mode) and how the facade's periodic poll applies its answer - what decides the read-back under a poll in flight."""
import ast

from py2lean import Untranslatable, find_function
import translate as T


def gen_watercare_steps():
    wc = T.parse("automation/watercare.py")
    fac = T.parse("automation/async_facade.py")
    fn = find_function(wc, "GeckoWaterCare.async_set_mode")
    steps = []
    for st in fn.body:
        src = ast.unparse(st)
        if isinstance(st, ast.Expr) and isinstance(st.value, ast.Constant):
            continue
        if isinstance(st, ast.If) and "isinstance(new_mode, str)" in src and not any(isinstance(n, (ast.Await, ast.Call)) and "watercare" in ast.unparse(n)
                                                                                     for n in ast.walk(st)):
            continue                                        # the label -> index conversion
        has_await = any(isinstance(n, ast.Await) for n in ast.walk(st))
        if has_await and "async_set_watercare(" in src and isinstance(st, ast.Expr):
            steps.append("awaitSet")
        elif not has_await and "change_watercare_mode(" in src and isinstance(st, ast.Expr):
            steps.append("localChange")
        else:
            raise Untranslatable(f"GeckoWaterCare.async_set_mode: unexpected statement `{src[:60]}`")
    if sorted(steps) != ["awaitSet", "localChange"]:
        raise Untranslatable(f"GeckoWaterCare.async_set_mode: expected one command and one local update, found {steps}")
    upd = find_function(fac, "GeckoAsyncFacade._facade_update")
    poll = "change_watercare_mode(await self._spa.async_get_watercare())" in ast.unparse(upd)
    out = [T.HEADER, "namespace GeckoModel.Generated\n",
           "/-- one statement of GeckoWaterCare.async_set_mode -/\ninductive WStep | awaitSet | localChange\nderiving Repr, DecidableEq\n",
           "/-- automation/watercare.py: the statements of async_set_mode, in source order -/\n"
           f"def asyncSetModeSteps : List WStep := [{', '.join('.' + x for x in steps)}]\n",
           "/-- automation/async_facade.py: the facade's update loop applies the answer of its watercare query to the local mode -/\n"
           f"def facadePollAppliesAnswer : Bool := {'true' if poll else 'false'}\n",
           "end GeckoModel.Generated\n"]
    return "\n".join(out)


GENERATORS = {"WatercareSteps": gen_watercare_steps}
