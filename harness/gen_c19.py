"""gen_c19.py - translator plugin for C19: Generated/SnapshotSrc.lean.

Extracted from /repo's working tree on every run (syntactic facts, no semantics):
  * utils/snapshot.py   GeckoSnapshot.__init__: the `_funcs` table - every regular expression text and the handler it is
                        paired with, in table order; the source text of `_re_data`, `_re_data_segment` and `parse`
                        (normalised by ast.unparse) - these are the bodies the hand model `Model/Snapshot.lean` mirrors,
                        so any edit to them breaks the pin theorem and the model has to be revisited.
  * utils/shell.py      GeckoShell.version_strings: the f-string templates in order; GeckoShell.do_snapshot: the logging calls.
  * utils/shared_command.py  GeckoCmd.do_logfile: the record format of the log file.
  * utils/simulator.py  `_STATUS_BLOCK_SEGMENT_SIZE`.
  * driver/packs/*.py   the union of the label lists of every `PackType` item (what `Spa pack {label} ..` can print).
"""
import ast

import translate as T
from py2lean import Untranslatable, find_function


def _tmpl(node):
    """f-string -> template text with {expr} placeholders"""
    if isinstance(node, ast.Constant) and isinstance(node.value, str):
        return node.value
    if isinstance(node, ast.JoinedStr):
        out = ""
        for v in node.values:
            if isinstance(v, ast.Constant):
                out += v.value
            elif isinstance(v, ast.FormattedValue):
                if v.conversion != -1 or v.format_spec is not None:
                    raise Untranslatable("format spec / conversion in a version string")
                out += "{" + ast.unparse(v.value) + "}"
            else:
                raise Untranslatable("unexpected f-string part")
        return out
    raise Untranslatable("version string is not an f-string: " + ast.dump(node)[:80])


def regex_table():
    tree = T.parse("utils/snapshot.py")
    fn = find_function(tree, "GeckoSnapshot.__init__")
    for st in ast.walk(fn):
        if isinstance(st, ast.Assign) and len(st.targets) == 1 and isinstance(st.targets[0], ast.Attribute) \
                and st.targets[0].attr == "_funcs":
            if not isinstance(st.value, ast.List):
                raise Untranslatable("_funcs is not a list literal")
            out = []
            for el in st.value.elts:
                if not (isinstance(el, ast.Tuple) and len(el.elts) == 2 and isinstance(el.elts[0], ast.Constant)
                        and isinstance(el.elts[0].value, str) and isinstance(el.elts[1], ast.Attribute)):
                    raise Untranslatable("unexpected _funcs entry " + ast.unparse(el)[:80])
                out.append((el.elts[0].value, el.elts[1].attr))
            return out
    raise Untranslatable("GeckoSnapshot.__init__ does not assign self._funcs")


def body_src(tree, qual):
    fn = find_function(tree, qual)
    body = [s for s in fn.body if not (isinstance(s, ast.Expr) and isinstance(s.value, ast.Constant) and isinstance(s.value.value, str))]
    return "; ".join(ast.unparse(s).replace("\n", " ") for s in body)


def pack_type_labels():
    import packs
    labs = []
    for m in packs.load_tables():
        for it in m.get("items", []):
            if it.get("key") == "PackType" and it.get("labels"):
                for l in it["labels"]:
                    if l not in labs:
                        labs.append(l)
    if not labs:
        raise Untranslatable("no PackType labels found in the pack tables")
    return labs


def chars(s):
    def ch(c):
        if c == "'":
            return "'\\''"
        if c == "\\":
            return "'\\\\'"
        if c == "\n":
            return "'\\n'"
        if not (32 <= ord(c) < 127):
            return f"(Char.ofNat {ord(c)})"
        return f"'{c}'"
    return "[" + ", ".join(ch(c) for c in s) + "]"


def gen():
    snap = T.parse("utils/snapshot.py")
    shell = T.parse("utils/shell.py")
    shared = T.parse("utils/shared_command.py")
    sim = T.parse("utils/simulator.py")
    table = regex_table()
    vs = find_function(shell, "GeckoShell.version_strings")
    ret = [s for s in vs.body if isinstance(s, ast.Return)]
    if len(ret) != 1 or not isinstance(ret[0].value, ast.List):
        raise Untranslatable("version_strings does not return a list literal")
    templates = [_tmpl(e) for e in ret[0].value.elts]
    fmt = None
    for node in ast.walk(find_function(shared, "GeckoCmd.do_logfile")):
        if isinstance(node, ast.Call) and ast.unparse(node.func).endswith("Formatter") and node.args \
                and isinstance(node.args[0], ast.Constant):
            fmt = node.args[0].value
    if fmt is None:
        raise Untranslatable("do_logfile: no logging.Formatter(<literal>)")
    seg = None
    for node in ast.walk(sim):
        if isinstance(node, ast.Assign) and any(isinstance(t, ast.Name) and t.id == "_STATUS_BLOCK_SEGMENT_SIZE" for t in node.targets) \
                and isinstance(node.value, ast.Constant):
            seg = node.value.value
    if not isinstance(seg, int):
        raise Untranslatable("_STATUS_BLOCK_SEGMENT_SIZE is not an int literal")
    L = T.lstr
    out = [T.HEADER, "namespace GeckoModel.Generated.SnapshotSrc\n",
           "/-- utils/snapshot.py GeckoSnapshot._funcs: the expression texts in table order -/",
           "def regexes : List String := [\n" + ",\n".join("  " + L(r) for r, _ in table) + "]\n",
           "/-- .. and the handler each one is paired with -/",
           "def handlers : List String := [" + ", ".join(L(h) for _, h in table) + "]\n",
           "/-- normalised source of the three method bodies the hand model mirrors statement by statement -/",
           "def reDataSrc : String := " + L(body_src(snap, "GeckoSnapshot._re_data")),
           "def reDataSegmentSrc : String := " + L(body_src(snap, "GeckoSnapshot._re_data_segment")),
           "def parseSrc : String := " + L(body_src(snap, "GeckoSnapshot.parse")),
           "def parseLogFileSrc : String := " + L(body_src(snap, "GeckoSnapshot.parse_log_file")) + "\n",
           "/-- utils/shell.py GeckoShell.version_strings: templates in order -/",
           "def versionTemplates : List String := [\n" + ",\n".join("  " + L(t) for t in templates) + "]\n",
           "/-- utils/shell.py GeckoShell.do_snapshot -/",
           "def doSnapshotSrc : String := " + L(body_src(shell, "GeckoShell.do_snapshot")) + "\n",
           "/-- utils/shared_command.py GeckoCmd.do_logfile: record format of the log file -/",
           "def logFormat : String := " + L(fmt) + "\n",
           "/-- utils/simulator.py -/",
           f"def simSegmentSize : Nat := {seg}\n",
           "/-- driver/packs: union of the label lists of every `PackType` item -/",
           "def packTypeLabels : List (List Char) := [\n" + ",\n".join("  " + chars(l) for l in pack_type_labels()) + "]\n",
           "end GeckoModel.Generated.SnapshotSrc\n"]
    return "\n".join(out)


GENERATORS = {"SnapshotSrc": gen}
