#!/bin/sh
# Regression sweep: run the quick check of every stored seed's property against the seeded change again (scratch worktrees),
# print one line per seed. Serial on purpose (the runs regenerate the shared Generated/ files).  usage: harness/seedsweep.sh [ids...]
cd "$(dirname "$0")/.."
ids="$@"
[ -z "$ids" ] && ids=$(ls seeded)
for s in $ids; do
  out=$(/venv/bin/python harness/seedtest.py "$s" --recheck 2>&1 | tail -4)
  line=$(echo "$out" | grep -E "^C[0-9]+ exit" | head -1)
  key=$(echo "$out" | grep -E "^    " | head -1)
  echo "$s | $line | $key"
done
