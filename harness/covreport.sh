#!/bin/sh
# Which lines of /repo's source do the 20 quick checks execute?  (supporting measurement, not a check: it says how much of the
# code the correspondence runs actually drive; lines never executed cannot disagree with the model.)  Serial, ~25 min.
# usage: harness/covreport.sh [outdir]   -> <outdir>/report.txt
cd "$(dirname "$0")/.."
out=${1:-/tmp/geckocov}
rm -rf "$out"; mkdir -p "$out"
for c in C01 C02 C03 C04 C05 C06 C07 C08 C09 C10 C11 C12 C13 C14 C15 C16 C17 C18 C19 C20; do
  COVERAGE_FILE=$out/.coverage /venv/bin/python -m coverage run -p --source="${VERIF_REPO:-/repo}/src/geckolib" --omit='*/driver/packs/*' ./check $c 2>&1 | grep -E "VIOLATION|-> exit"
done
cd "$out" && COVERAGE_FILE=$out/.coverage /venv/bin/python -m coverage combine -q
COVERAGE_FILE=$out/.coverage /venv/bin/python -m coverage report -m --sort=miss > "$out/report.txt"
tail -5 "$out/report.txt"
