"""Several connections in ONE process through the real client path (GeckoAsyncSpaMan -> locator -> GeckoAsyncSpa._connect -> facade)
against real simulators on the virtual network: what a long-running automation host does - the same spa again after a reset (a NEW
spa object), another spa of another pack family afterwards. Whatever the library keeps per process (module-level tables, class
attributes, default arguments) or per object that should have been per connection shows here and nowhere else."""
import asyncio

import fakenet
import vloop


class CraftedSnapshot:
    """what GeckoSimulator.set_snapshot needs: a shipped snapshot's block presented under another platform / table versions"""

    def __init__(self, base, packtype=None, config_version=None, log_version=None, block=None):
        self.bytes = bytes(block if block is not None else base.bytes)
        self.packtype = packtype or base.packtype
        self.config_version = config_version if config_version is not None else base.config_version
        self.log_version = log_version if log_version is not None else base.log_version
        self.intouch_EN = base.intouch_EN
        self.intouch_CO = base.intouch_CO
        self.name = getattr(base, "name", "crafted")


def load_sim(snapshot):
    """a real simulator holding `snapshot` (a path of a shipped file, or a snapshot object)"""
    if isinstance(snapshot, str):
        return fakenet.make_sim(snapshot)
    from geckolib.utils.simulator import GeckoSimulator
    import builtins
    real_print = builtins.print
    builtins.print = lambda *a, **k: None
    try:
        sim = GeckoSimulator()
        sim.set_snapshot(snapshot)
    finally:
        builtins.print = real_print
    return sim


def run_sessions(plan, observe, ident="SPA01:02:03:04:05:06", handler=None):
    """plan = [("connect", snapshot) | ("reset",) | ("new-manager", snapshot)]; after every step that should leave the manager CONNECTED
    `observe(step_index, manager, sim)` is called (synchronously) and its result collected. Returns the list of observations."""
    out = []

    async def body(loop):
        from geckolib import GeckoAsyncSpaMan

        class Man(GeckoAsyncSpaMan):
            async def handle_event(self, event, **kw):
                if handler is not None:
                    await handler(self, event, **kw)
        man = None
        sim = None

        async def wait_connected(m):
            for _ in range(1600):
                await asyncio.sleep(0.05)
                if m.facade is not None and str(m.spa_state).endswith("CONNECTED"):
                    await asyncio.sleep(1.0)
                    return True
            return False
        for k, step in enumerate(plan):
            if step[0] in ("connect", "new-manager"):
                if man is not None:
                    await man.__aexit__(None, None, None)
                sim = load_sim(step[1])
                loop.network = fakenet.Network(loop, sim, phases=[], seed=1)
                man = Man(f"uuid-{k}", spa_identifier=ident, spa_address="10.0.0.9", spa_name="Spa")
                await man.__aenter__()
            elif step[0] == "reset":
                await man.async_reset()
            ok = await wait_connected(man)
            try:
                out.append({"step": k, "connected": ok, "obs": observe(k, man, sim) if ok else None})
            except Exception as e:  # noqa
                out.append({"step": k, "connected": ok, "obs": None, "observe_raised": f"{type(e).__name__}: {e}"})
        if man is not None:
            await man.__aexit__(None, None, None)
    vloop.run_virtual(body, stable=True)
    return out
