"""QLoop - the virtual loop of vloop.py with every timer quantised to whole milliseconds (DESIGN.md section 2.2).

With all timer deadlines on the 1 ms grid (and runs that start at virtual time 0) every `loop.time()` / patched
`time.monotonic()` value is the correctly rounded double of an integer number of milliseconds, so the float comparisons in
the library (`age > 4`, `age < 10`, timer order) behave exactly like integer comparisons and a run can be compared with a
tick model without +-1 ulp noise.  The scheduler knob: `shuffle` permutes callbacks that are ready in the same iteration,
`jitter_ms` delays every timer by a seeded 0..jitter_ms whole milliseconds.  One seed is one schedule.
"""
import asyncio
import signal
import threading

import vloop


class Hang(KeyboardInterrupt):
    """the code under test did not give control back (a loop without a suspension point).
    A KeyboardInterrupt subclass on purpose: asyncio tasks store any other exception as their result and the loop would go on."""


class watchdog:
    """wall-clock guard around one virtual run: a synchronous infinite loop in the code under test becomes an exception
    (so a mutated tree yields a verdict instead of a hung check). Main thread only; elsewhere it is a no-op."""

    def __init__(self, seconds):
        self.seconds = seconds
        self.active = False

    def _fire(self, *a):
        raise Hang(f"no progress for {self.seconds} s of wall time (synchronous loop without a suspension point?)")

    def __enter__(self):
        if threading.current_thread() is threading.main_thread():
            self.old = signal.signal(signal.SIGALRM, self._fire)
            signal.setitimer(signal.ITIMER_REAL, self.seconds)
            self.active = True
        return self

    def __exit__(self, *a):
        if self.active:
            signal.setitimer(signal.ITIMER_REAL, 0)
            signal.signal(signal.SIGALRM, self.old)
        return False


class QLoop(vloop.VLoop):
    def __init__(self, seed=None, shuffle=False, jitter_ms=0):
        super().__init__(seed=seed, shuffle=shuffle, jitter=0.0)
        self._jitter_ms = int(jitter_ms)

    def call_at(self, when, callback, *args, context=None):
        ms = int(round(when * 1000))
        if self._jitter_ms:
            ms += self._rng.randint(0, self._jitter_ms)
        return super().call_at(ms / 1000, callback, *args, context=context)

    def ms(self):
        return int(round(self._vt * 1000))


def reset_config():
    """config.py keeps a module-level future and a live object: back to the import-time state (no instance attributes, so every
    read falls through to the class the live object was created from; no future)"""
    import geckolib.config as cfg
    cfg.ConfigChange = None
    try:
        vars(cfg.GeckoConfig).clear()
    except Exception:  # noqa
        pass


def run_q(coro_fn, seed=None, shuffle=False, jitter_ms=0, network=None):
    """Run `await coro_fn(loop)` on a fresh QLoop with patched time and a clean config module; returns its result."""
    loop = QLoop(seed=seed, shuffle=shuffle, jitter_ms=jitter_ms)
    loop.network = network
    asyncio.set_event_loop(loop)
    reset_config()
    try:
        with vloop.patch_time(loop.time):
            return loop.run_until_complete(coro_fn(loop))
    finally:
        try:
            pend = [t for t in asyncio.all_tasks(loop) if not t.done()]
            for t in pend:
                t.cancel()
            if pend:
                loop.run_until_complete(asyncio.gather(*pend, return_exceptions=True))
        except (Exception, Hang):  # noqa
            pass
        asyncio.set_event_loop(None)
        loop.close()
