"""translator plugin: the SUSPENSION SKELETON of every coroutine of /repo's source (outside the pack tables) as a Lean term of
`GeckoModel.Coop.Sk` (Model/Coop.lean): synchronous actions, awaits, branches, loops, return/break/continue/raise, try/finally,
try/except, (async) with.  Data is dropped; what stays is the order of actions relative to the points where the event loop can
run somebody else - the thing that the recurring defect class ("the peek and the pop are separated by an await", "the lock is
released between retries", "the apply waits for a lock") is about.

events
  act "call:<dotted callee>"         a synchronous call (arguments' events first, in evaluation order)
  act "read:<dotted attribute>"      a read of one of the WATCHED attributes (the shared queue's head / mark)
  (the receive queue's head / is_marked / pop / mark and queue_send are named by that suffix only, whatever the object is called)
  act "set:<dotted target>"          an assignment to an attribute or subscript of an object, or to a local variable
  act "T:<test>" / "F:<test>"        the branch taken (head of the `if` / `while` alternatives)
  act "acquired:<ctx>" / "release:<ctx>"   (async) with - entered / left; `aw "acquire:<ctx>"` before an `async with`
  aw  "<dotted callee>"              an await; when the first argument is a literal `GeckoSpaEvent.X` it is appended: "handler(GeckoSpaEvent.X)"
Logging calls are dropped.  `assert` contributes the events of its test only (assertions are taken not to fail).
Short-circuit operators and conditional expressions become alternatives (sound over-approximation of what is evaluated).
"""
import ast

from py2lean import Untranslatable, _dotted
import translate as T

WATCHED_SUFFIXES = ("queue.head", "queue.is_marked", "send_bytes")
WATCHED_ATTRS = ("send_bytes",)      # properties that run handler code when read
DROP_PREFIXES = ("_LOGGER.", "logger.", "logging.", "print")


def q(s):
    return '"' + s.replace("\\", "\\\\").replace('"', '\\"').replace("\n", " ") + '"'


KINDS = {"call": "call", "read": "read", "set": "set", "T": "brT", "F": "brF", "except": "exc", "acquired": "acquired", "release": "release",
         "del": "del", "finally": "fin"}

# skeleton terms are nested tuples: ("ev","act"|"aw",name) ("skip",) ("seq",a,b) ("alt",a,b) ("loop",b) ("exit",) ("brk",) ("cont",)
# ("raise",) ("fin",b,f) ("try",b,h)
SKIP = ("skip",)


def seq(*xs):
    xs = [x for x in xs if x != SKIP]
    if not xs:
        return SKIP
    out = xs[-1]
    for x in reversed(xs[:-1]):
        out = ("seq", x, out)
    return out


def act(n):
    return ("ev", "act", n)


def aw(n):
    return ("ev", "aw", n)


# names that mean the same shared object whatever the local variable is called: only the suffix is kept
CANON_SUFFIXES = ("queue.head", "queue.is_marked", "queue.pop", "queue.mark", "queue_send", "send_bytes")


def canon(d):
    for suf in CANON_SUFFIXES:
        if d == suf or d.endswith("." + suf):
            return suf
    return d


def name_of(node):
    d = _dotted(node)
    if d is not None:
        return canon(d)
    if isinstance(node, ast.Call):
        return name_of(node.func) + "()"
    if isinstance(node, ast.Subscript):
        return name_of(node.value) + "[]"
    if isinstance(node, ast.Attribute):
        return name_of(node.value) + "." + node.attr
    return type(node).__name__


def event_arg(call):
    """`handler(GeckoSpaEvent.X, ...)`: which event is announced is part of the name (the only data kept: it is a literal)"""
    if call.args and (_dotted(call.args[0]) or "").startswith("GeckoSpaEvent."):
        return "(" + _dotted(call.args[0]) + ")"
    return ""


def expr(node):
    """events of evaluating an expression, in evaluation order"""
    if node is None:
        return SKIP
    if isinstance(node, ast.Await):
        v = node.value
        if isinstance(v, ast.Call):
            return seq(expr(v.func) if not isinstance(v.func, (ast.Name, ast.Attribute)) else attr_reads(v.func, callee=True),
                       *[expr(a) for a in v.args], *[expr(k.value) for k in v.keywords], aw(name_of(v.func) + event_arg(v)))
        return seq(expr(v), aw(name_of(v)))
    if isinstance(node, ast.Call):
        callee = name_of(node.func)
        pre = seq(expr(node.func) if not isinstance(node.func, (ast.Name, ast.Attribute)) else attr_reads(node.func, callee=True),
                  *[expr(a) for a in node.args], *[expr(k.value) for k in node.keywords])
        if callee.startswith(DROP_PREFIXES):
            return SKIP
        return seq(pre, act("call:" + callee))
    if isinstance(node, ast.BoolOp):
        out = expr(node.values[-1])
        for v in reversed(node.values[:-1]):
            out = seq(expr(v), ("alt", SKIP, out)) if out != SKIP else expr(v)
        return out
    if isinstance(node, ast.IfExp):
        a, b = expr(node.body), expr(node.orelse)
        return seq(expr(node.test), ("alt", a, b) if (a, b) != (SKIP, SKIP) else SKIP)
    if isinstance(node, (ast.Lambda, ast.Constant, ast.Name)):
        return SKIP
    if isinstance(node, ast.Attribute):
        return attr_reads(node)
    if isinstance(node, (ast.ListComp, ast.SetComp, ast.GeneratorExp, ast.DictComp)):
        inner = []
        for g in node.generators:
            inner.append(expr(g.iter))
        body = seq(*([expr(c) for g in node.generators for c in g.ifs] +
                     ([expr(node.elt)] if hasattr(node, "elt") else [expr(node.key), expr(node.value)])))
        return seq(*inner, ("loop", body) if body != SKIP else SKIP)
    if isinstance(node, ast.JoinedStr):
        return seq(*[expr(v.value) for v in node.values if isinstance(v, ast.FormattedValue)])
    if isinstance(node, (ast.Yield, ast.YieldFrom)):
        raise Untranslatable("generator coroutine")
    return seq(*[expr(c) for c in ast.iter_child_nodes(node) if isinstance(c, ast.expr)])


def attr_reads(node, callee=False):
    """watched attribute reads inside a dotted chain (the chain of a callee is walked from its object)"""
    if isinstance(node, ast.Attribute) and not callee and node.attr in WATCHED_ATTRS and _dotted(node) is None:
        # a watched attribute of something that is not a plain dotted name (`send_handler[0].send_bytes`)
        return seq(expr(node.value), act("read:" + node.attr))
    d = _dotted(node)
    evs = []
    if d is not None:
        if not callee and d.endswith(WATCHED_SUFFIXES):
            evs.append(act("read:" + canon(d)))
        return seq(*evs)
    if isinstance(node, ast.Attribute):
        return expr(node.value)
    return expr(node)


def target(t):
    if isinstance(t, (ast.Attribute, ast.Subscript)):
        return seq(expr(t.value), expr(t.slice) if isinstance(t, ast.Subscript) else SKIP, act("set:" + name_of(t)))
    if isinstance(t, (ast.Tuple, ast.List)):
        return seq(*[target(e) for e in t.elts])
    if isinstance(t, ast.Name):
        return act("set:" + t.id)          # a local variable (a retry budget, an expected-segment counter, ...)
    return SKIP


def test_name(node):
    """the text of a test, with a bare watched attribute reduced to its canonical name"""
    d = _dotted(node)
    return canon(d) if d is not None else ast.unparse(node)


def block(stmts):
    return seq(*[stmt(s) for s in stmts])


def stmt(s):
    if isinstance(s, ast.Expr):
        return SKIP if isinstance(s.value, ast.Constant) else expr(s.value)
    if isinstance(s, ast.Assign):
        return seq(expr(s.value), *[target(t) for t in s.targets])
    if isinstance(s, ast.AugAssign):
        return seq(expr(s.value), target(s.target))
    if isinstance(s, ast.AnnAssign):
        return seq(expr(s.value), target(s.target)) if s.value is not None else SKIP
    if isinstance(s, ast.Return):
        return seq(expr(s.value), ("exit",))
    if isinstance(s, ast.Raise):
        return seq(expr(s.exc), ("raise",))
    if isinstance(s, ast.Assert):
        return expr(s.test)
    if isinstance(s, ast.If):
        t = test_name(s.test)
        return seq(expr(s.test), ("alt", seq(act("T:" + t), block(s.body)), seq(act("F:" + t), block(s.orelse))))
    if isinstance(s, ast.While):
        t = ast.unparse(s.test)
        if isinstance(s.test, ast.Constant) and s.test.value is True:
            return seq(("loop", block(s.body)), block(s.orelse))
        return seq(("loop", seq(expr(s.test), act("T:" + t), block(s.body))), expr(s.test), act("F:" + t), block(s.orelse))
    if isinstance(s, (ast.For, ast.AsyncFor)):
        head = aw("anext:" + name_of(s.iter)) if isinstance(s, ast.AsyncFor) else SKIP
        return seq(expr(s.iter), ("loop", seq(head, target(s.target), block(s.body))), block(s.orelse))
    if isinstance(s, ast.Try):
        body = seq(block(s.body), block(s.orelse))
        if s.handlers:
            hs = None
            for h in reversed(s.handlers):
                # a handler for a tuple of types is one handler per type (same body): which handler gets an exception is then
                # decided by one type name each, in source order (Model/Cancel.lean `handlers`)
                types = [ast.unparse(e) for e in h.type.elts] if isinstance(h.type, ast.Tuple) else [ast.unparse(h.type) if h.type is not None else ""]
                for ty in reversed(types):
                    one = seq(act("except:" + ty), block(h.body))
                    hs = one if hs is None else ("alt", one, hs)
            body = ("try", body, hs)
        if s.finalbody:
            # the clean-up block is bracketed by marker actions, so that "what happens inside a finally" can be asked
            body = ("fin", body, seq(act("finally:enter"), block(s.finalbody), act("finally:exit")))
        return body
    if isinstance(s, (ast.With, ast.AsyncWith)):
        out = block(s.body)
        for it in reversed(s.items):
            n = name_of(it.context_expr)
            pre = seq(expr(it.context_expr), aw("acquire:" + n) if isinstance(s, ast.AsyncWith) else SKIP, act("acquired:" + n))
            out = seq(pre, ("fin", out, act("release:" + n)))
        return out
    if isinstance(s, ast.Break):
        return ("brk",)
    if isinstance(s, ast.Continue):
        return ("cont",)
    if isinstance(s, (ast.Pass, ast.Global, ast.Nonlocal, ast.Import, ast.ImportFrom)):
        return SKIP
    if isinstance(s, (ast.FunctionDef, ast.AsyncFunctionDef, ast.ClassDef)):
        return SKIP
    if isinstance(s, ast.Delete):
        return seq(*[act("del:" + name_of(t)) for t in s.targets])
    raise Untranslatable(f"skeleton: statement {type(s).__name__} at line {s.lineno}")


def lean(t, ind=2):
    k = t[0]
    if k == "ev":
        if t[1] == "aw":
            return f"(.ev (.aw {q(t[2])}))"
        kind, _, name = t[2].partition(":")
        if kind == "finally":
            return f"(.ev (.act ⟨.{'finEnter' if name == 'enter' else 'finExit'}, \"\"⟩))"
        return f"(.ev (.act ⟨.{KINDS[kind]}, {q(name)}⟩))"
    if k in ("skip", "exit", "brk", "cont", "raise"):
        return "." + k
    pad = "\n" + " " * ind
    if k == "seq":
        return f"(.seq {lean(t[1], ind + 1)}{pad}{lean(t[2], ind)})"      # right-nested chains stay at one indentation
    if k == "alt":
        return f"(.alt{pad} {lean(t[1], ind + 2)}{pad} {lean(t[2], ind + 2)})"
    if k == "loop":
        return f"(.loop{pad} {lean(t[1], ind + 2)})"
    if k == "fin":
        return f"(.fin{pad} {lean(t[1], ind + 2)}{pad} {lean(t[2], ind + 2)})"
    if k == "try":
        return f"(.tryExc{pad} {lean(t[1], ind + 2)}{pad} {lean(t[2], ind + 2)})"
    raise AssertionError(k)


def count(t, kind):
    if t[0] == "ev":
        return 1 if t[1] == kind else 0
    return sum(count(c, kind) for c in t[1:] if isinstance(c, tuple))


def lean_name(rel, qual):
    base = rel[:-3].replace("/", "_").replace("-", "_")
    return "sk_" + base + "__" + qual.replace(".", "_")


def coroutines():
    """(relative file, qualified name, node) of every `async def` outside the pack tables, in a stable order"""
    out = []
    for path in sorted(T.SRC.rglob("*.py")):
        rel = path.relative_to(T.SRC).as_posix()
        if rel.startswith("driver/packs/"):
            continue
        tree = ast.parse(path.read_text())

        def walk(node, prefix):
            for ch in ast.iter_child_nodes(node):
                if isinstance(ch, ast.ClassDef):
                    walk(ch, prefix + [ch.name])
                elif isinstance(ch, ast.AsyncFunctionDef):
                    out.append((rel, ".".join(prefix + [ch.name]), ch))
                    walk(ch, prefix + [ch.name])
                elif isinstance(ch, ast.FunctionDef):
                    walk(ch, prefix + [ch.name])
        walk(tree, [])
    return out


# synchronous methods of LONG-LIVED objects (handlers, structures, accessors) whose skeleton is generated as well: what they write
# into `self` is the state that outlives a call - the place where stale caches and remembered replies live
STATE_FUNCTIONS = [
    ("driver/protocol/packet.py", "GeckoPacketProtocolHandler.handle"),
    ("driver/protocol/statusblock.py", "GeckoStatusBlockProtocolHandler.handle"),
    ("driver/protocol/statusblock.py", "GeckoPartialStatusBlockProtocolHandler.handle"),
    ("driver/protocol/hello.py", "GeckoHelloProtocolHandler.handle"),
    ("driver/spastruct.py", "GeckoStructure.replace_status_block_segment"),
    ("driver/spastruct.py", "GeckoStructure._on_status_block_received"),
    ("driver/async_spastruct.py", "GeckoAsyncStructure.replace_status_block_segment"),
    ("driver/accessor.py", "GeckoStructAccessor.status_block_changed"),
    ("driver/accessor.py", "GeckoStructAccessor._get_value"),
    ("driver/accessor.py", "GeckoTempStructAccessor._get_value"),
    ("spa.py", "GeckoSpa._on_partial_status_update"),
    # the blocking client's session glue: hand-shake steps, the two thread bodies' hooks, the write hand-off
    ("spa.py", "GeckoSpa.start_connect"),
    ("spa.py", "GeckoSpa._on_config_received"),
    ("spa.py", "GeckoSpa._loop_func"),
    ("spa.py", "GeckoSpa._final_connect"),
    ("spa.py", "GeckoSpa._ping_thread_func"),
    ("spa.py", "GeckoSpa.refresh"),
    ("spa.py", "GeckoSpa._on_set_value"),
    ("locator.py", "GeckoLocator._on_discovered"),
    ("automation/async_facade.py", "GeckoAsyncFacade._on_config_device_change"),
    # the two write paths of an item (blocking / awaitable) and the structures' hand-offs
    ("driver/accessor.py", "GeckoStructAccessor._set_value"),
    ("driver/accessor.py", "GeckoTempStructAccessor._set_value"),
    ("driver/spastruct.py", "GeckoStructure.set_value"),
    ("driver/async_spastruct.py", "GeckoAsyncStructure.set_value"),
    # the notification walk every item, sensor, device and facade inherits
    ("driver/observable.py", "Observable.watch"),
    ("driver/observable.py", "Observable.unwatch"),
    ("driver/observable.py", "Observable._on_change"),
    ("async_tasks.py", "AsyncTasks.add_task"),
    ("async_tasks.py", "AsyncTasks.cancel_key_tasks"),
    # the request bookkeeping every handler inherits: its clock and its retry budget
    ("driver/udp_protocol_handler.py", "GeckoUdpProtocolHandler.age"),
    ("driver/udp_protocol_handler.py", "GeckoUdpProtocolHandler.has_timedout"),
    ("driver/udp_protocol_handler.py", "GeckoUdpProtocolHandler._reset_timeout"),
    ("driver/udp_protocol_handler.py", "GeckoUdpProtocolHandler.handled"),
    ("driver/udp_protocol_handler.py", "GeckoUdpProtocolHandler.retry"),
    ("driver/udp_protocol_handler.py", "GeckoUdpProtocolHandler.loop"),
    # the threaded engine: everything that touches the two handler lists or the counters
    ("driver/udp_socket.py", "GeckoUdpSocket.add_receive_handler"),
    ("driver/udp_socket.py", "GeckoUdpSocket.remove_receive_handler"),
    ("driver/udp_socket.py", "GeckoUdpSocket.queue_send"),
    ("driver/udp_socket.py", "GeckoUdpSocket.get_and_increment_sequence_counter"),
    ("driver/udp_socket.py", "GeckoUdpSocket._process_send_requests"),
    ("driver/udp_socket.py", "GeckoUdpSocket.dispatch_recevied_data"),
    ("driver/udp_socket.py", "GeckoUdpSocket._cleanup_handlers"),
    ("driver/udp_socket.py", "GeckoUdpSocket._process_received_data"),
    ("driver/udp_socket.py", "GeckoUdpSocket._thread_func"),
]


def state_functions():
    from py2lean import find_function
    out = []
    for rel, qual in STATE_FUNCTIONS:
        node = find_function(T.parse(rel), qual)
        out.append((rel, qual, node))
    return out


def gen_skeletons():
    defs, index = [], []
    seen = set()
    sindex = []
    for rel, qual, node in state_functions():
        sk = block(node.body)
        nm = lean_name(rel, qual)
        seen.add(nm)
        defs.append(f"/-- (synchronous) `{rel}` `{qual}` (line {node.lineno}) -/\ndef {nm} : Sk :=\n  {lean(sk)}\n")
        sindex.append(f"  ({q(rel + ':' + qual)}, {nm})")
    for rel, qual, node in coroutines():
        sk = block(node.body)
        nm = lean_name(rel, qual)
        if nm in seen:
            raise Untranslatable(f"skeleton name clash {nm}")
        seen.add(nm)
        defs.append(f"/-- `{rel}` `{qual}` (line {node.lineno}): {count(sk, 'aw')} suspension points, {count(sk, 'act')} actions -/\n"
                    f"def {nm} : Sk :=\n  {lean(sk)}\n")
        index.append(f"  ({q(rel + ':' + qual)}, {nm})")
    return "\n".join([T.HEADER, "import GeckoModel.Model.Coop\n", "namespace GeckoModel.Generated.Skeletons", "open GeckoModel.Coop\n"]
                     + defs + ["/-- every coroutine of the source tree (outside the pack tables) -/",
                               "def all : List (String × Sk) := [\n" + ",\n".join(index) + "]\n",
                               "/-- selected synchronous methods of long-lived objects -/",
                               "def stateful : List (String × Sk) := [\n" + ",\n".join(sindex) + "]\n",
                               "end GeckoModel.Generated.Skeletons\n"])


GENERATORS = {"Skeletons": gen_skeletons}
