"""C11 - every shipped pack table yields a facade whose read-only API is total."""
import importlib
import struct as pystruct
import threading
import time
from pathlib import Path

import gen_c11
import packs
import translate
from common import REPO, Driver, DriverFailure

LEVEL = "proof"
MANIFEST = dict(
    text="Lean 4 model of the facade's whole read-only surface (constructor of both facade classes and every public member of "
         "facade, heater, pumps, blowers, lights, state sensors, sensors, binary sensors, error sensor, eco switch, watercare, "
         "reminders, keypad, incl. __str__/__repr__/monitor/devices/get_device) as total functions into Except. Theorems: "
         "under the decidable requirement Req on the presence profile, for ALL 1024-byte blocks the constructor succeeds and "
         "every member evaluates (total_api); out-of-range enum reads 'Unknown'; watercare for every mode (partial today: "
         "mode 5, with the full statement proved for the corrected guard); reminders for all lists; every shipped "
         "platform x cfg x log combination outside an exact 18-entry list satisfies Req (one kernel-evaluated obligation per "
         "table, composed per combination) and the listed ones provably fail. Tie: constants and the guard operator are "
         "regenerated from the source; the member model is checked by a reflective correspondence (dir() of every reachable "
         "object of the REAL facades, a member the model does not know is a failure) exhaustive over all 895 combinations."
         ' Since session 3: update histories (unit flip, temperature change, flip back) reach the block through replace_status_block_segment - the notification chain runs - and every member must read as the model says for the final block. Round 14: every member on the second and third connection of one process (harness/sessions.py). Round 15: the client\'s handler reads every facade member inside the teardown / disconnected / ready / finished events. Round 17: the watercare device is rendered from inside its own change notification for every mode byte.',
    note="Trusted: Lean kernel; harness/packs.py table extraction; the stub spa (struct + accessors, as tests/test_snapshots.py); "
         "the canonicaliser. Members that start I/O (async_*, set_*, turn_on/off, update) are C13's. Float digits are C14's: the "
         "model predicts only that a temperature member is a float / its rendering a str. has_observers, object reprs, "
         "timestamps: class only.",
    technique="Lean 4 totality proofs over a presence-profile model + per-table kernel evaluation (decide +kernel) + exhaustive "
              "reflective differential correspondence",
    design="5/C11",
)

UID, NAME, IDENT = "uid-c11", "spa c11", "AA:BB:C1:01"
# callables that are not part of the read-only surface (they start I/O, mutate, or are observer plumbing): C13 / C03
NOT_READONLY = {"watch", "unwatch", "unwatch_all", "disconnect", "wait_for_one_update", "complete", "wait", "scan_outputs",
                "set_target_temperature", "async_set_target_temperature", "set_temperature_unit", "async_set_temperature_unit",
                "set_mode", "async_set_mode", "update", "change_watercare_mode", "change_reminders", "update_state",
                "turn_on", "turn_off", "async_turn_on", "async_turn_off", "async_press", "Reminder"}
SKIP_WALK = {"facade", "spa", "accessor"}          # back references / driver-level objects


def hx(s):
    return s.encode("utf8").hex() if s else "-"


# ------------------------------------------------------------------------------------------------ stubs
class Taskman:
    unique_id = UID
    spa_name = NAME

    def add_task(self, coro, *a):
        coro.close()

    def cancel_key_tasks(self, *a):
        pass


class Descriptor:
    name = NAME
    identifier_as_string = IDENT


class StubSpa:
    """what tests/test_snapshots.py builds: a structure with the block, and the accessor dictionary of cfg + log"""
    isopen = False
    is_connected = True
    is_in_error = False
    descriptor = Descriptor()
    on_connected = None

    def __init__(self, cfg_file, log_file, block, flavor):
        if flavor == "a":
            from geckolib.driver.async_spastruct import GeckoAsyncStructure
            self.struct = GeckoAsyncStructure(None, None)
        else:
            from geckolib.driver.spastruct import GeckoStructure
            self.struct = GeckoStructure(None)
        self.struct.set_status_block(block)
        C = importlib.import_module("geckolib.driver.packs." + cfg_file).GeckoConfigStruct(self.struct)
        L = importlib.import_module("geckolib.driver.packs." + log_file).GeckoLogStruct(self.struct)
        self.struct.build_accessors(C, L)

    @property
    def accessors(self):
        return self.struct.accessors

    def wait(self, t):
        pass

    def complete(self):
        pass


class Handler:
    def __init__(self, **kw):
        self.__dict__.update(kw)


def err_kind(e):
    if isinstance(e, pystruct.error):
        return "struct"
    for cls, n in ((KeyError, "key"), (AttributeError, "attr"), (IndexError, "index"), (TypeError, "type"), (ValueError, "value"),
                   (RecursionError, "recursion")):
        if isinstance(e, cls):
            return n
    return type(e).__name__


def err_name(e):
    return "struct.error" if isinstance(e, pystruct.error) else type(e).__name__


def build(cfg_file, log_file, block, flavor):
    """the REAL facade on a stub spa; returns (facade, None) or (None, exception)"""
    try:
        spa = StubSpa(cfg_file, log_file, block, flavor)
        if flavor == "a":
            from geckolib import GeckoAsyncFacade
            return GeckoAsyncFacade(spa, Taskman()), None
        from geckolib import GeckoFacade
        f = GeckoFacade(spa)
        f._on_connected(spa)
        return f, None
    except Exception as e:  # noqa
        return None, e


def set_dyn(f, flavor, mode, rems, notes):
    """report a watercare mode / a reminder list the way each facade class receives it; exceptions are recorded"""
    from geckolib.driver.protocol.reminders import GeckoReminderType
    try:
        if mode is not None:
            if flavor == "a":
                f.water_care.change_watercare_mode(mode)
            else:
                f.water_care._on_watercare(Handler(mode=mode), None)
    except Exception as e:  # noqa
        notes.append(("watercare.change", e))
    try:
        if rems is not None:
            lst = []
            for t, d in rems:
                try:
                    lst.append((GeckoReminderType(t), d))
                except ValueError:
                    lst.append((t, d))
            if flavor == "a":
                f.reminders_manager.change_reminders(lst)
            else:
                f._reminders._on_reminders(Handler(reminders=lst), None)
    except Exception as e:  # noqa
        notes.append(("reminders.change", e))


# ------------------------------------------------------------------------------------------------ reflective evaluation
def canon(v):
    if v is None:
        return "n"
    if isinstance(v, bool):
        return "b=1" if v else "b=0"
    if isinstance(v, int):
        return f"i={int(v)}"
    if isinstance(v, float):
        return "f"
    if isinstance(v, str):
        return "s=" + hx(v)
    if isinstance(v, list):
        if v and all(isinstance(x, str) for x in v):
            return "L=" + ",".join(hx(x) for x in v)
        return f"l={len(v)}"
    return "o=" + type(v).__name__


def is_automation(o):
    return type(o).__module__.startswith("geckolib.automation") and not isinstance(o, type)


def name_objects(f, flavor):
    """reflective walk from the facade through public attributes and lists; returns ({name: object}, [unnamed objects])"""
    from geckolib.automation.pump import GeckoPump
    from geckolib.automation.blower import GeckoBlower
    from geckolib.automation.light import GeckoLight
    from geckolib.automation.switch import GeckoSwitch
    from geckolib.automation.sensors import GeckoSensor, GeckoBinarySensor, GeckoErrorSensor
    from geckolib.automation.heater import GeckoWaterHeater
    from geckolib.automation.watercare import GeckoWaterCare
    from geckolib.automation.reminders import GeckoReminders
    from geckolib.automation.keypad import GeckoKeypad
    found, seen, order = [], set(), []

    def visit(o, via):
        if o is None or id(o) in seen or not is_automation(o):
            return
        seen.add(id(o))
        order.append((o, via))
        for n in dir(o):
            if n.startswith("_") or n in SKIP_WALK:
                continue
            try:
                v = getattr(o, n)
            except Exception:  # noqa
                continue
            if n == "state_sensor" and callable(v):
                try:
                    visit(v(), (o, "state"))
                except Exception:  # noqa
                    pass
                continue
            if callable(v):
                continue
            if isinstance(v, list):
                for i, e in enumerate(v):
                    visit(e, (o, n, i))
            else:
                visit(v, (o, n))
    visit(f, None)
    names, unnamed = {}, []
    rev = {}
    for o, via in order:
        t = type(o)
        nm = None
        if o is f:
            nm = "facade"
        elif via and len(via) == 2 and via[1] == "state" and t is GeckoSensor:
            nm = rev.get(id(via[0]), "?") + "/state"
        elif t is GeckoPump:
            nm = "pump:" + hx(o.key)
        elif t is GeckoBlower:
            nm = "blower:" + hx(o.key)
        elif t is GeckoLight:
            nm = "light:" + hx(o.key)
        elif t is GeckoSwitch and o is f.eco_mode:
            nm = "eco"
        elif t is GeckoSensor and o in f.sensors:
            nm = f"sensor:{f.sensors.index(o)}"
        elif t is GeckoBinarySensor and o in f.binary_sensors:
            nm = f"bsensor:{f.binary_sensors.index(o)}"
        elif t is GeckoErrorSensor:
            nm = "error_sensor"
        elif t is GeckoWaterHeater:
            nm = "heater"
        elif t is GeckoWaterCare:
            nm = "watercare"
        elif t is GeckoReminders:
            nm = "reminders"
        elif t is GeckoKeypad:
            nm = "keypad"
        elif t.__name__ == "Reminder" and via and len(via) == 3 and via[1] == "reminders":
            nm = f"reminder:{via[2]}"
        if nm is None or nm in names or "?" in nm:
            unnamed.append(f"{t.__name__} via {via[1:] if via else None}")
            continue
        names[nm] = o
        rev[id(o)] = nm
    return names, unnamed


def eval_object(o, extra_keys, results, raised, where, oname=""):
    """every public member of one object -> results[member] = canonical outcome"""
    from geckolib.driver.protocol.reminders import GeckoReminderType

    def run(label, fn):
        try:
            results[label] = canon(fn())
        except Exception as e:  # noqa
            results[label] = "E=" + err_kind(e)
            raised.append((type(o).__name__, label, e, where, oname))
    for n in dir(o):
        if n.startswith("_"):
            continue
        try:
            v = getattr(o, n)
        except Exception as e:  # noqa
            results[n] = "E=" + err_kind(e)
            raised.append((type(o).__name__, n, e, where, oname))
            continue
        if callable(v):
            if n in NOT_READONLY:
                continue
            if n == "state_sensor":
                run("state_sensor()", v)
            elif n == "format_temperature":
                run("format_temperature(20.5)", lambda: v(20.5))
            elif n == "get_reminder":
                for t in range(8):
                    arg = GeckoReminderType(t) if t < 7 else t
                    run(f"get_reminder({t})", lambda a=arg: v(a))
            elif n == "get_device":
                for k in extra_keys:
                    run(f"get_device({hx(k)})", lambda a=k: v(a))
            else:
                results["callable:" + n] = "unmodelled-callable"
            continue
        results[n] = canon(v)
    run("__str__", lambda: str(o))
    run("__repr__", lambda: repr(o))


def impl_eval(f, flavor, raised, where):
    """({'obj.member': outcome}, device keys passed to get_device, problems)"""
    names, unnamed = name_objects(f, flavor)
    try:
        keys = list(f.devices)
    except Exception:  # noqa
        keys = []
    keys = list(dict.fromkeys(keys + ["NOPE"]))
    if flavor == "s" and getattr(f, "_reminders", None) is not None:
        # the threaded facade's PRIVATE reminders manager: compared with the model, never reported as a violation
        names["_reminders"] = f._reminders
    out = {}
    for nm, o in names.items():
        r = {}
        eval_object(o, keys, r, raised, where, nm)
        for k, v in r.items():
            out[f"{nm}.{k}"] = v
    return out, keys, unnamed


def check_sessions(ctx):
    """every read-only member of the facade of the SECOND connection in a process: the same spa again after a reset (the manager builds a
    new spa object and a new facade), and the same once more - nothing raises and every value is what the first connection read"""
    import sessions
    from common import REPO
    snap = str(REPO / "tests" / "snapshots" / "inYT-Pump1Hi-2020-12-13 11_19_35.snapshot")

    def observe(k, man, sim):
        raised = []
        vals, _keys, _un = impl_eval(man.facade, "a", raised, f"session-{k}")
        return {"raised": [f"{r[0]}.{r[1]}: {type(r[2]).__name__}: {r[2]}" for r in raised][:6],
                "vals": {kk: v for kk, v in vals.items() if "ping" not in kk.lower() and "reminder" not in kk.lower()}}
    during = []

    async def handler(man, event, **kw):
        # what a client does when it is told about a change of the connection: it looks at the facade it was handed (a final state
        # write when the facade is torn down, a first one when it is ready) - whenever the manager offers a facade, reading it must work
        name = str(event).split(".")[-1]
        if man.facade is not None and any(x in name for x in ("TEARDOWN", "DISCONNECTED", "FACADE_IS_READY", "FINISHED")):
            raised = []
            impl_eval(man.facade, "a", raised, f"event:{name}")
            during.extend(f"{name}: {r[0]}.{r[1]}: {type(r[2]).__name__}: {r[2]}" for r in raised)
    recs = sessions.run_sessions([("connect", snap), ("reset",), ("reset",)], observe, handler=handler)
    first = recs[0]["obs"] if recs and recs[0].get("obs") else None
    base = set(first["raised"]) if first else set()
    new_during = [x for x in dict.fromkeys(during) if x.split(": ", 1)[1] not in base]
    ctx.count("evaluations")
    if new_during:
        ctx.violation("sessions:read-inside-an-event-handler", {"kind": "sessions", "connection": 0},
                      "every read-only member can be read whenever the manager offers a facade - also from inside the client's handler of a teardown / disconnected / finished event",
                      new_during[:6])
    for r in recs:
        ctx.count("evaluations")
        ctx.hist("sessions", "connected" if r["connected"] else "not-connected")
        inp = {"kind": "sessions", "connection": r["step"] + 1}
        if not r["connected"] or r.get("observe_raised"):
            ctx.violation(f"sessions:connection-{r['step'] + 1}:not-usable", inp, "the manager connects and the facade can be read", r.get("observe_raised") or "not CONNECTED")
            break
        new_raises = [x for x in r["obs"]["raised"] if first is None or x not in first["raised"]]
        diff = [] if first is None else [kk for kk, v in r["obs"]["vals"].items() if first["vals"].get(kk) != v][:6]
        if r["step"] > 0 and (new_raises or diff):
            ctx.violation(f"sessions:connection-{r['step'] + 1}:{'raises' if new_raises else 'differs'}", inp,
                          "the facade of a later connection to the same spa reads what the first one read, and nothing raises",
                          {"raised": new_raises, "members that differ": {kk: [first["vals"].get(kk), r["obs"]["vals"].get(kk)] for kk in diff}})
            break


def parse_model(line):
    d = {}
    for part in line.split(";")[1:]:
        k, _, v = part.partition("=")
        d[k] = v
    return d


def agree(model, impl, key, flavor):
    if model == impl:
        return True
    if "=" not in model:                       # class only
        return impl.split("=")[0] == model
    if flavor == "s" and key == "facade.devices" and model.startswith("L=") and impl.startswith("L="):
        return sorted(model[2:].split(",")) == sorted(impl[2:].split(","))     # set() order in the threaded scan (D10, C12)
    return False


# ------------------------------------------------------------------------------------------------ blocks
def merged_items(c, l):
    d = {it["key"]: it for it in c["items"]}
    d.update({it["key"]: it for it in l["items"]})
    return d


def poke(block, it, val):
    """store `val` in the item's own field (what the spa would hold)"""
    b = bytearray(block)
    ln = it["len"]
    if it["pos"] + ln > len(b):
        return bytes(b)
    word = int.from_bytes(b[it["pos"]:it["pos"] + ln], "big")
    if it["bitpos"] is not None:
        m = it["mask"] or 1
        word = (word & ~(m << it["bitpos"])) | ((val & m) << it["bitpos"])
    else:
        word = val
    word &= (1 << (8 * ln)) - 1
    b[it["pos"]:it["pos"] + ln] = word.to_bytes(ln, "big")
    return bytes(b)


def wired_block(c, l, devices_table, variant, rng):
    """zeros (variant 0) / random bytes (variant 1) with every output set to a label naming a device (cycling through the devices)"""
    items = merged_items(c, l)
    block = bytes(1024) if variant == 0 else bytes(rng.randrange(256) for _ in range(1024))
    devs = [d for d in l["deviceKeys"] if d in devices_table and any(("Ud" + d).upper() == u.upper() for u in l["userDemandKeys"])]
    if not devs:
        devs = list(l["deviceKeys"])
    n = variant
    for o in c["outputKeys"]:
        it = items.get(o)
        if it is None or not it["labels"]:
            continue
        cands = [(j, d) for j, lab in enumerate(it["labels"]) for d in devs if lab.startswith(d)]
        if not cands:
            continue
        wanted = devs[n % len(devs)]
        pick = [j for j, d in cands if d == wanted] or [cands[n % len(cands)][0]]
        block = poke(block, it, pick[0])
        n += 1
    return block


def gap_block(c, l, base):
    """`base` with every labelled item that is not an output set to the first stored value OUTSIDE its label list (when its field can
    hold one): the facade then reads out-of-range enums through every device that exists"""
    items = merged_items(c, l)
    block = base
    n = 0
    for k, it in items.items():
        if not it["labels"] or k in c["outputKeys"]:
            continue
        cap = ((it["mask"] or 1) + 1) if it["bitpos"] is not None else 256 ** it["len"]
        if len(it["labels"]) < cap:
            block = poke(block, it, len(it["labels"]))
            n += 1
    return block, n


def enum_read_sweep(ctx, mods):
    """direct search on the accessor: every stored value of every labelled item of every shipped table reads a label or 'Unknown'"""
    from geckolib.driver.accessor import GeckoEnumStructAccessor
    import xml.etree.ElementTree as ET  # noqa

    class S:
        status_block = b""
    n = bad = 0
    seen = set()
    for mod in mods:
        mname = mod["file"]
        for it in mod.get("items", []):
            if not it["labels"]:
                continue
            sig = (it["len"], it["bitpos"], it["mask"], it.get("maxitems"), tuple(it["labels"]))
            if sig in seen:
                continue
            seen.add(sig)
            try:
                acc = GeckoEnumStructAccessor(S, it["key"], 0, it["bitpos"], it["labels"], it["len"] if it["len"] != 1 else None, it.get("maxitems"), None)
            except Exception as e:  # noqa
                ctx.violation(f"enum-accessor-constructor:{type(e).__name__}", {"module": mname, "item": it["key"]}, "constructs", f"{type(e).__name__}: {e}")
                continue
            top = 256 if it["len"] == 1 else 65536
            vals = range(top) if top == 256 else list(range(0, 300)) + [65535, 4096, 32768]
            for v in vals:
                S.status_block = v.to_bytes(it["len"], "big") + b"\0\0"
                n += 1
                try:
                    r = acc.value
                    raw = (v >> it["bitpos"]) & (it["mask"] or 1) if it["bitpos"] is not None else v
                    want = it["labels"][raw] if raw < len(it["labels"]) else "Unknown"
                    if r != want:
                        bad += 1
                        if bad <= 3:
                            ctx.violation("enum-read-wrong", {"module": mname, "item": it["key"], "stored": v}, want, r)
                except Exception as e:  # noqa
                    bad += 1
                    ctx.violation(f"enum-read-raises:{type(e).__name__}", {"module": mname, "item": it["key"], "stored": v, "labels": len(it["labels"])},
                                  "a label or 'Unknown'", f"{type(e).__name__}: {e}")
                    break
    ctx.count("evaluations", n)
    ctx.cov["enum_read_sweep"] = {"distinct_item_shapes": len(seen), "reads": n}


def snapshots_by_platform():
    out = {}
    try:
        from geckolib.utils.snapshot import GeckoSnapshot
        for p in sorted((REPO / "tests" / "snapshots").glob("*.snapshot")):
            try:
                for s in GeckoSnapshot.parse_log_file(str(p)):
                    b = bytes(s.bytes)
                    if len(b) == 1024:
                        out.setdefault(s.packtype.lower(), []).append((p.name, b))
            except Exception:  # noqa
                continue
    except Exception:  # noqa
        pass
    return out


MODES = [None, 1, 4, 5, 6, 255, 0, 3]
REMS = [None, [], [(1, 5), (0, 0), (2, -3)], [(6, 0), (3, 100), (4, -32768)], None, [(5, 1)]]


def show_rems(r):
    if r is None:
        return "none"
    if not r:
        return "-"
    return ",".join(f"{int(t)}:{int(d)}" for t, d in r)


# ------------------------------------------------------------------------------------------------ the check
class Run:
    def __init__(self, ctx):
        self.ctx = ctx
        self.lines, self.expect = [], []       # driver ops and what to do with each answer
        self.blocks = {}
        self.cur_combo = self.cur_ident = None

    def block_id(self, b):
        if b not in self.blocks:
            bid = f"b{len(self.blocks)}"
            self.blocks[b] = bid
            self.lines.append(f"blk {bid} {b.hex()}")
            self.expect.append(("plain", "ok", None))
        return self.blocks[b]

    def select(self, p, c, l, flavor):
        key = (p["name"], c["version"], l["version"])
        if self.cur_combo != key:
            self.cur_combo = key
            self.lines.append(f"combo {hx(p['name'])} {c['version']} {l['version']}")
            self.expect.append(("combo", None, key))
        if self.cur_ident != flavor:
            self.cur_ident = flavor
            if flavor == "a":
                self.lines.append(f"ident a {hx(UID)} {hx(NAME)} -")
            else:
                self.lines.append(f"ident s {hx(IDENT.replace(':', ''))} {hx(NAME)} {hx(IDENT)}")
            self.expect.append(("plain", "ok", None))


def one_case(R, p, c, l, flavor, b0, b, mode, rems, bdesc, patches=None):
    """build the real facade, evaluate everything reflectively, queue the model op; direct search on the way"""
    ctx = R.ctx
    where = {"platform": p["name"], "cfg": c["version"], "log": l["version"], "flavor": flavor, "block": bdesc,
             "block0_hex": b0.hex(), "block_hex": b.hex(), "mode": mode, "rems": rems}
    if patches is not None:
        where["patches"] = [[off, seg.hex()] for off, seg in patches]
    f, exc = build(c["file"], l["file"], b0, flavor)
    R.select(p, c, l, flavor)
    i0, i1 = R.block_id(b0), R.block_id(b)
    ctx.count("constructions")
    if f is None:
        ctx.hist("construct_outcomes", err_name(exc))
        ctx.violation(f"construct:{p['name']}:{c['version']}:{l['version']}",
                      {k: where[k] for k in ("platform", "cfg", "log", "flavor", "block", "block0_hex")},
                      "the facade can be constructed", f"{err_name(exc)}: {exc}")
        R.lines.append(f"eval {i0} {i1} none none -")
        R.expect.append(("construct-fail", "construct:E=" + err_kind(exc), where))
        return False
    ctx.hist("construct_outcomes", "ok")
    notes, raised = [], []
    if patches is not None:
        # the block reaches `b` through UPDATES (change notifications run through accessors, sensors, devices, facade):
        # the facade is a view, so every member must then read as on a facade whose block simply is `b`
        for off, seg in patches:
            try:
                f.spa.struct.replace_status_block_segment(off, seg)
            except Exception as e:  # noqa
                notes.append(("replace_status_block_segment", e))
    elif b is not b0:
        try:
            f.spa.struct.set_status_block(b)
        except Exception as e:  # noqa
            notes.append(("set_status_block", e))
    set_dyn(f, flavor, mode, rems, notes)
    for what, e in notes:
        ctx.violation(f"member:{what}:{err_name(e)}", dict(where, member=what), "reporting a watercare mode / reminder list does not raise",
                      f"{err_name(e)}: {e}")
    impl, keys, unnamed = impl_eval(f, flavor, raised, where)
    for cls, member, e, w, oname in raised:
        if oname.startswith("_"):
            ctx.count("latent_private_exceptions")
            continue
        ctx.violation(f"member:{cls}.{member.split('(')[0]}:{err_name(e)}", dict(w, object_class=cls, member=member),
                      "evaluates without raising", f"{err_name(e)}: {e}")
    ctx.count("evaluations", len(impl))
    ctx.count("member_exceptions", len([r for r in raised if not r[4].startswith("_")]))
    ndev = len(getattr(f, "all_user_devices", []) or [])
    if ndev:
        ctx.count("cases_with_devices")
    ctx.hist("user_devices_per_case", ndev)
    if flavor == "s":
        try:
            f.complete()
        except Exception:  # noqa
            pass
    R.lines.append(f"eval {i0} {i1} {'none' if mode is None else mode} {show_rems(rems)} {','.join(hx(k) for k in keys) or '-'}")
    R.expect.append(("eval", (impl, unnamed, flavor, [n for n, _ in notes]), where))
    return True


def compare(R):
    ctx = R.ctx
    try:
        model = Driver("Driver/C11.lean").run(R.lines)
    except DriverFailure as e:
        ctx.obligation_broken("driver:C11", e)
        return
    ndis = 0
    nmem = 0

    def dis(what, detail):
        nonlocal ndis
        ndis += 1
        if ndis <= 4:
            ctx.obligation_broken("correspondence:" + what, detail)
    for line, mo, (kind, exp, where) in zip(R.lines, model, R.expect):
        w = None if where is None or isinstance(where, tuple) else {k: v for k, v in where.items() if not k.endswith("_hex")}
        if kind == "plain":
            if mo != exp:
                dis("driver-op", {"op": line[:80], "model": mo[:200]})
        elif kind == "combo":
            if mo not in ("ok", "listed"):
                dis("combination-unknown-to-the-model", {"combo": where, "model": mo})
        elif kind == "construct-fail":
            if mo != exp:
                dis("construct", {"case": w, "model": mo[:200], "impl": exp})
        elif kind == "eval":
            impl, unnamed, flavor, notes = exp
            if not mo.startswith("ok;"):
                dis("construct", {"case": w, "model": mo[:200], "impl": "constructed"})
                continue
            md = parse_model(mo)
            for u in unnamed:
                dis("unmodelled-object", {"case": w, "object": u})
            for k, iv in impl.items():
                nmem += 1
                if iv == "unmodelled-callable" or k not in md:
                    dis("unmodelled-member", {"case": w, "member": k, "impl": iv[:120]})
                elif not agree(md[k], iv, k, flavor):
                    dis("member", {"case": w, "member": k, "model": md[k][:160], "impl": iv[:160]})
            for k in md:
                if k not in impl:
                    dis("member-missing-in-implementation", {"case": w, "member": k, "model": md[k][:120]})
    ctx.cov["correspondence_ops"] = len(R.lines)
    ctx.cov["correspondence_members_compared"] = nmem
    ctx.cov["correspondence_disagreements"] = ndis


def watercare_sweep(ctx, cs, flavors):
    """every mode byte and None, from two previous modes, on the real watercare object of one facade per flavour"""
    good = [x for x in cs if x[0]["name"] == "InYT"] or cs
    p, c, l = good[0]
    lines, impl = [], []
    for flavor in flavors:
        f, exc = build(c["file"], l["file"], bytes(1024), flavor)
        if f is None:
            continue
        wc = f.water_care
        inside = []

        def reads_inside_the_callback(sender, o_, n_):
            """a client that renders the device from inside its change notification"""
            for nm, fn in (("str", lambda: str(wc)), ("monitor", lambda: wc.monitor), ("repr", lambda: repr(wc)), ("mode", lambda: wc.mode)):
                try:
                    fn()
                except Exception as e:  # noqa
                    inside.append((nm, e))
        try:
            wc.watch(reads_inside_the_callback)
        except Exception:  # noqa
            pass
        for old in (None, 0, 3):
            for new in [None] + list(range(256)):
                wc.active_mode = old
                del inside[:]
                try:
                    if flavor == "a":
                        wc.change_watercare_mode(new)
                    else:
                        wc._on_watercare(Handler(mode=new), None)
                    ch = "n"
                except Exception as e:  # noqa
                    ch = "E=" + err_kind(e)
                    if new is not None:
                        ctx.violation(f"member:watercare.change:{err_name(e)}", {"flavor": flavor, "old_mode": old, "mode": new, "member": "watercare.change"},
                                      "reporting a watercare mode does not raise", f"{err_name(e)}: {e}")
                for nm, e in inside[:1]:
                    ctx.violation(f"member:GeckoWaterCare.{'__str__' if nm == 'str' else nm}:inside-change-callback:{err_name(e)}",
                                  {"flavor": flavor, "old_mode": old, "mode": new, "member": "watercare." + nm, "read": "inside the change callback"},
                                  "evaluates without raising, also when read from the device's own change notification", f"{err_name(e)}: {e}")
                wc.active_mode = new
                res = {}
                for nm, fn in (("str", lambda: str(wc)), ("monitor", lambda: wc.monitor), ("repr", lambda: repr(wc)), ("mode", lambda: wc.mode)):
                    try:
                        res[nm] = canon(fn())
                    except Exception as e:  # noqa
                        res[nm] = "E=" + err_kind(e)
                        ctx.violation(f"member:GeckoWaterCare.{'__str__' if nm == 'str' else nm}:{err_name(e)}",
                                      {"flavor": flavor, "mode": new, "member": "watercare." + nm, "platform": p["name"], "cfg": c["version"], "log": l["version"]},
                                      "evaluates without raising", f"{err_name(e)}: {e}")
                ctx.count("evaluations", 5)
                ctx.count("watercare_modes_tried")
                lines.append(f"wc {'none' if old is None else old} {'none' if new is None else new}")
                impl.append(f"str={res['str']} monitor={res['monitor']} change={ch}")
        if flavor == "s":
            try:
                f.complete()
            except Exception:  # noqa
                pass
    try:
        model = Driver("Driver/C11.lean").run(lines)
    except DriverFailure as e:
        ctx.obligation_broken("driver:C11:watercare", e)
        return
    bad = [(a, b, c_) for a, b, c_ in zip(lines, model, impl) if b != c_]
    for a, b, c_ in bad[:3]:
        ctx.obligation_broken("correspondence:watercare", {"op": a, "model": b, "impl": c_})
    ctx.cov["watercare_ops"] = len(lines)
    ctx.cov["watercare_disagreements"] = len(bad)


def reminder_lists(ctx, n):
    """reminder reports as the REAL protocol handler decodes them from wire bytes (types 0..255, days int16)"""
    from geckolib.driver.protocol.reminders import GeckoRemindersProtocolHandler
    rng = ctx.rng
    out = [[], [(t, 0) for t in range(7)], [(1, 32767), (2, -32768), (0, 5)]]
    for _ in range(n):
        k = rng.randrange(0, 9)
        raw = [(rng.choice([0, 1, 2, 3, 4, 5, 6, 6, 7, 200]), rng.choice([0, 1, -1, rng.randrange(-32768, 32768)])) for _ in range(k)]
        try:
            wire = b"RMREQ" + b"".join(pystruct.pack("<BhB", t, d, 1) for t, d in raw)
            h = GeckoRemindersProtocolHandler()
            h.handle(wire, None)
            out.append([(int(t), int(d)) for t, d in h.reminders])
        except Exception as e:  # noqa
            ctx.violation(f"member:reminders.decode:{err_name(e)}", {"wire": wire.hex()}, "a reminder report decodes", f"{err_name(e)}: {e}")
    return out


def run(ctx):
    st = translate.run(["FacadeConsts", "FacadeFacts", "Packs", "Pinned", "C11Combos"])
    ctx.cov["translator"] = st
    for k, v in st.items():
        if v != "ok":
            ctx.obligation_broken(f"translate:{k}", v)
    ctx.lean_obligations("GeckoModel.Properties.C11")
    try:
        mods = packs.load_tables()
        devices_table = dict(importlib.import_module("geckolib.const").GeckoConstants.DEVICES)
    except Exception as e:  # noqa
        ctx.violation("import", {"what": "import of the pack modules / constants"}, "all pack modules import", f"{type(e).__name__}: {e}")
        return
    cs = gen_c11.combos(mods)
    ctx.cov["combinations"] = len(cs)
    rng = ctx.rng
    t0 = time.time()
    flavors = ["a", "s"]
    try:
        enum_read_sweep(ctx, mods)
    except Exception as e:  # noqa
        ctx.notes.append(f"enum read sweep not run: {type(e).__name__}: {e}")
    # ---- watercare and reminders first (their findings are few and distinct)
    watercare_sweep(ctx, cs, flavors)
    R = Run(ctx)
    R.lines.append("ncombos")                 # the generated enumeration has as many combinations as the harness sees
    R.expect.append(("plain", str(len(cs)), None))
    good = [x for x in cs if x[0]["name"] == "InYT"] or cs
    rl = reminder_lists(ctx, 40 if ctx.quick else 400)
    for i, rs in enumerate(rl):
        p, c, l = good[i % len(good)]
        for flavor in flavors:
            z = bytes(1024)
            one_case(R, p, c, l, flavor, z, z, MODES[i % len(MODES)], rs, "zeros")
    ctx.cov["reminder_lists"] = len(rl)
    # ---- all combinations x block set
    snaps = snapshots_by_platform() if not ctx.quick else {}
    zeros, ones = bytes(1024), b"\xff" * 1024
    rnd = [bytes(rng.randrange(256) for _ in range(1024)) for _ in range(3)]
    n = 0
    for ci, (p, c, l) in enumerate(cs):
        w0 = wired_block(c, l, devices_table, 0, rng)
        wg, ngap = gap_block(c, l, w0)
        blocks = [("zeros", zeros), ("wired", w0)]
        if ngap:
            blocks.append(("wired-gap", wg))
        if not ctx.quick:
            blocks += [("ones", ones), ("wired-random", wired_block(c, l, devices_table, 1, rng))]
            blocks += [(f"random{j}", b) for j, b in enumerate(rnd)]
            ss = snaps.get(p["name"].lower(), [])
            blocks += [("snapshot:" + nm, b) for nm, b in ss]
            for j in range(min(5, len(ss)) if ss else 0):
                nm, b = ss[rng.randrange(len(ss))]
                mb = bytearray(b)
                for _ in range(rng.randrange(1, 20)):
                    mb[rng.randrange(1024)] = rng.randrange(256)
                blocks.append((f"mutated:{nm}", bytes(mb)))
        elif ci % 15 == 0:
            blocks += [("ones", ones), ("random0", rnd[0])]
        # quick: the threaded facade on every 4th combination; thorough: always
        fl = flavors if (not ctx.quick or ci % 4 == 0) else ["a"]
        built = {}
        for bdesc, b in blocks:
            for flavor in fl:
                if built.get(flavor) is False:
                    continue                      # this combination cannot build this facade class: one case per class is enough
                n += 1
                built[flavor] = one_case(R, p, c, l, flavor, b, b, MODES[n % len(MODES)], REMS[n % len(REMS)], bdesc)
        # a block that changes after construction (built on zeros, read on another block)
        if (not ctx.quick or ci % 10 == 0) and built.get("a"):
            one_case(R, p, c, l, "a", zeros, rnd[ci % 3] if ci % 2 else w0, None, None, "zeros-then-swapped")
    # ---- update histories: unit flip, a temperature word changed, unit flipped back - through replace_status_block_segment
    hist_n = 0
    for ci, (p, c, l) in enumerate(cs):
        if ctx.quick and ci % 12 != 3:
            continue
        items = merged_items(c, l)
        tu = items.get("TempUnits")
        temps = [it for it in items.values() if it["kind"] == "temp" and it["pos"] + it["len"] <= 1024]
        if tu is None or not temps:
            continue
        w0 = wired_block(c, l, devices_table, 0, rng)
        cur = int.from_bytes(w0[tu["pos"]:tu["pos"] + tu["len"]], "big")
        cur = (cur >> tu["bitpos"]) & (tu["mask"] or 1) if tu["bitpos"] is not None else cur
        b1 = poke(w0, tu, 1 - (cur & 1))
        b2 = b1
        for it in temps[:3]:
            b2 = poke(b2, it, rng.choice([540, 684, 720, 1000]))
        b3 = poke(b2, tu, cur & 1)
        steps = [(0, b1), (0, b2), (0, b3)]
        for k in (1, 2, 3):
            final = steps[k - 1][1]
            if one_case(R, p, c, l, "a", w0, final, None, None, f"wired-then-{k}-updates", patches=steps[:k]) is False:
                break
            hist_n += 1
    ctx.cov["update_history_cases"] = hist_n
    # ---- a second and a third connection in the same process (the real client path)
    try:
        check_sessions(ctx)
    except Exception as e:  # noqa
        ctx.obligation_broken("harness:sessions", f"{type(e).__name__}: {e}")
    ctx.cov["impl_seconds"] = round(time.time() - t0, 1)
    t1 = time.time()
    compare(R)
    ctx.cov["driver_seconds"] = round(time.time() - t1, 1)
    ctx.cov["distinct_nontrivial"] = ctx.cov.get("cases_with_devices", 0)
    ctx.cov["exhaustive"] = True
    ctx.cov["rule"] = ("ALL platform x cfg x log combinations (no sampling of combinations in either tier). quick: async facade on zeros + a "
                       "'wired' block (every output set to a label naming a device) + a 'wired-gap' block (every other labelled item set to the first "
                       "stored value outside its label list) for every combination, every stored value of every distinct labelled item shape read "
                       "through the real accessor, the threaded facade on every "
                       "4th combination, ones + random on every 15th, a post-construction block swap on every 10th; thorough: both "
                       "facade classes x {zeros, ones, wired, wired-over-random, 3 random, every shipped snapshot of the platform, 5 "
                       "mutated snapshots} + block swap, for every combination. Watercare: None + all 256 bytes from two previous modes, "
                       "both classes. Reminders: lists decoded by the real RMREQ handler from random wire bytes. evaluations = member "
                       "evaluations on the real objects; distinct_nontrivial = (combination, block, class) cases whose facade has at "
                       "least one pump / blower / light")
    if R.expect:
        ex = [e for e in R.expect if e[0] == "eval"]
        if ex:
            k = sorted(ex[0][1][0])[:3]
            ctx.sample({"case": {a: b for a, b in ex[0][2].items() if not a.endswith("_hex")}, "members": {x: ex[0][1][0][x] for x in k}})
            ctx.sample({"members_per_case_example": len(ex[-1][1][0])})
    ctx.assumptions += ["the facade is built on a stub spa exposing struct + accessors (as tests/test_snapshots.py does); the threaded GeckoFacade "
                        "through its own _on_connected with a stub spa whose isopen is False (its update thread exits at once)",
                        "members that start I/O or mutate (async_*, set_*, turn_on/off, update, change_*) are not read-only: C13",
                        "float digits / renderings, has_observers, object reprs and timestamps are compared by class only"]


def replay(inp):
    """re-execute one failing input on the real code only"""
    if inp.get("kind") == "sessions":
        from common import Ctx
        c = Ctx("C11", "quick", 0)
        check_sessions(c)
        return bool(c.violations), c.violations[0]["observed"] if c.violations else "later connections read what the first one read"
    if "wire" in inp:
        from geckolib.driver.protocol.reminders import GeckoRemindersProtocolHandler
        try:
            GeckoRemindersProtocolHandler().handle(bytes.fromhex(inp["wire"]), None)
            return False, "decoded"
        except Exception as e:  # noqa
            return True, f"{err_name(e)}: {e}"
    mods = packs.load_tables()
    if "platform" in inp:
        cand = [(p, c, l) for p, c, l in gen_c11.combos(mods) if p["name"] == inp["platform"] and c["version"] == inp["cfg"] and l["version"] == inp["log"]]
    else:
        cand = [x for x in gen_c11.combos(mods) if x[0]["name"] == "InYT"]
    if not cand:
        return False, "combination no longer shipped"
    p, c, l = cand[0]
    flavor = inp.get("flavor", "a")
    b0 = bytes.fromhex(inp["block0_hex"]) if inp.get("block0_hex") else bytes(1024)
    b = bytes.fromhex(inp["block_hex"]) if inp.get("block_hex") else b0
    f, exc = build(c["file"], l["file"], b0, flavor)
    if f is None:
        return True, f"construction: {err_name(exc)}: {exc}"
    if "member" not in inp:
        return False, "constructed"
    notes, raised = [], []
    if inp.get("patches") is not None:
        for off, seg in inp["patches"]:
            try:
                f.spa.struct.replace_status_block_segment(off, bytes.fromhex(seg))
            except Exception as e:  # noqa
                notes.append(("replace_status_block_segment", e))
    elif b != b0:
        f.spa.struct.set_status_block(b)
    if "old_mode" in inp:
        f.water_care.active_mode = inp["old_mode"]
    rems = [tuple(x) for x in inp["rems"]] if inp.get("rems") is not None else None
    set_dyn(f, flavor, inp.get("mode"), rems, notes)
    impl, _, _ = impl_eval(f, flavor, raised, {})
    if flavor == "s":
        try:
            f.complete()
        except Exception:  # noqa
            pass
    want = inp["member"]
    for what, e in notes:
        if what == want:
            return True, f"{err_name(e)}: {e}"
    for cls, member, e, _, oname in raised:
        if oname.startswith("_"):
            continue
        if member == want or f"{cls}.{member}" == want or want.endswith("." + member.replace("__str__", "str")):
            if inp.get("object_class") in (None, cls):
                return True, f"{cls}.{member}: {err_name(e)}: {e}"
    return False, "no exception"
