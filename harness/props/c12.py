"""C12 - device inventory equals the spa's output wiring, with unique keys."""
import importlib
import json
import os
import struct as pystruct
import subprocess
import sys

import packs
import translate
from common import Driver, DriverFailure, REPO, digest

LEVEL = "proof"
MANIFEST = dict(
    text="Lean 4 theorems for EVERY wiring (any outputs / devices / user demands, any assignment of labels to outputs incl. one device on "
         "several outputs, labels that are a prefix of nothing, all 'NA'; any accessor key set): the async facade's actual_user_devices is "
         "the declarative inventory (devices of the table order, each once, wired by the label-prefix relation, with a user demand, in "
         "DEVICES; with the matching demand item) - inventory_eq_spec, inventory_nodup, order_is_table_order, demand_right; pumps / blowers "
         "/ lights are exactly the listed devices of that class with the DEVICES row's name / keypad / state key (pumps: demand item + mode "
         "list) - classes_right; all automation keys and all unique ids are distinct - keys_unique; get_device(key) returns that object - "
         "lookup_returns_it (+ the exact behaviour of a missing eco switch: lookup_absent_and_devices). Hypothesis NoCaseDupDemands and the "
         "other table facts are evaluated by the kernel on every shipped log/config table and on DEVICES/SENSORS/BINARY_SENSORS "
         "(shipped_side_conditions, tables_ok). Threaded twin: the kind of de-duplication of each facade is regenerated from the source; "
         "with the order-preserving de-dup (since fix 7fbeafc, former finding D10) the threaded scan IS the async scan, same order "
         "(sync_same_as_async), and its own composition of all_automation_devices has distinct keys / unique ids and a correct lookup "
         "(sync_keys_unique_and_lookup); the search re-checks on the real code, in subprocesses with different PYTHONHASHSEED values, "
         "that the threaded device order does not depend on string hashing. Tie: "
         "constants, fixed keys, composition order and de-dup kind of both facades regenerated from the source; the hand-transcribed "
         "comprehensions by differential correspondence against the REAL GeckoAsyncFacade and GeckoFacade built on stub spas (assignment "
         "written into the block through the real accessors)."
         ' Since session 3: rescans_are_idempotent (the facade OBJECT scanned any number of times holds the inventory of one scan; whether each list is rebuilt or grown is generated from both scan methods), checked by re-connecting the real blocking facade. A new output wiring reported on a live connection after a facade has read the outputs; the oracle decodes labels from the raw block. The first value past an output\'s label list (byte = number of labels) and the next one, on every byte-wide output, alone and beside an ordinary wiring. Round 14: the inventory of spas of different pack families connected one after the other in one process (inYJ 62/59, crafted inYT 62/62, inYJ again). Round 15: two BLOCKING clients per process, spas of different families and of ONE model set differently, sequential and with overlapping start-up; each inventory is its own spa\'s. Round 16: blocking_declarations_are_made_for_each_connection over the regenerated skeleton of GeckoSpa._on_config_received.',
    note="Trusted: Lean kernel; harness/gen_c12.py (AST evaluation of const.py, syntactic facts); the correspondence harness. 'Wired to an "
         "output' is the label-prefix relation the library itself uses (no other definition exists in the repository). str.upper() is modelled "
         "as ASCII upper: every upper-cased key of the shipped tables is ASCII (checked by the kernel).",
    technique="Lean 4 list-algebra proofs (flatMap/filter/order-preserving dedup, Perm for any admissible threaded order) + decide +kernel over all "
              "shipped tables + differential correspondence with both real facades",
    design="5/C12",
)

# the statement's device table, written down independently of const.py (pumps, waterfall, blower, lights)
STATEMENT_DEVICES = {"P1": "PUMP", "P2": "PUMP", "P3": "PUMP", "P4": "PUMP", "P5": "PUMP", "Waterfall": "PUMP", "BL": "BLOWER", "LI": "LIGHT"}
_VCOUNT = {}


def viol(ctx, key, inp, expected, observed):
    cat = key.split(":")[0]
    _VCOUNT[cat] = _VCOUNT.get(cat, 0) + 1
    ctx.hist("violations_by_category", cat)
    if _VCOUNT[cat] <= 12:
        ctx.violation(key, inp, expected, observed)


# ----------------------------------------------------------------------------------------------------- stub spa
class _Desc:
    name = "stub spa"
    identifier_as_string = "SPA01:02:03:04:05:06"


class StubSpa:
    """what tests/test_snapshots.py builds: a real GeckoStructure with the real accessors of one cfg/log pair"""
    isopen = False          # the threaded facade's update thread ends at once
    descriptor = _Desc()
    is_connected = True

    def __init__(self, cfg, log):
        from geckolib.driver.spastruct import GeckoStructure
        self.cfg, self.log = cfg, log
        self.captured = []
        self.struct = GeckoStructure(lambda p, l, v: self.captured.append((p, l, v)))
        mc = importlib.import_module("geckolib.driver.packs." + cfg)
        ml = importlib.import_module("geckolib.driver.packs." + log)
        self.struct.build_accessors(mc.GeckoConfigStruct(self.struct), ml.GeckoLogStruct(self.struct))

    @property
    def accessors(self):
        return self.struct.accessors

    def wait(self, _t):
        pass


def make_taskman():
    from geckolib.async_tasks import AsyncTasks

    class TM(AsyncTasks):
        unique_id = "uid-async"       # "designed to be overridden" (async_tasks.py)
        spa_name = "stub spa"

        def add_task(self, coroutine, name_, key_):   # no event loop here: the update task is not part of the inventory
            coroutine.close()
    return TM()


def encode_assignment(spa, asg):
    """write the labels into the output items' bytes through the REAL accessors; returns (block, {pos: byte})"""
    block = bytes(1024)
    spa.struct.set_status_block(block)
    for out, lab in asg:
        acc = spa.accessors[out]
        if isinstance(lab, int):              # a raw field value (used for values beyond the label list)
            b = bytearray(block)
            if acc.bitpos is None and acc.length == 1:
                b[acc.pos] = lab & 255
            block = bytes(b)
        elif acc.read_write is None:           # a read-only output item: store the label's index by plain byte arithmetic
            idx = acc.items.index(lab)
            cur = block[acc.pos] if acc.length == 1 else (block[acc.pos] << 8) | block[acc.pos + 1]
            if acc.bitpos is not None:
                cur = (cur & ~(acc.bitmask << acc.bitpos)) | ((idx & acc.bitmask) << acc.bitpos)
            else:
                cur = idx
            block = block[:acc.pos] + pystruct.pack(">B" if acc.length == 1 else ">H", cur) + block[acc.pos + acc.length:]
        else:
            spa.captured.clear()
            acc.value = lab                    # GeckoEnumStructAccessor._set_value -> struct.set_value(pos, len, newvalue)
            pos, ln, val = spa.captured[-1]
            block = block[:pos] + pystruct.pack(">B" if ln == 1 else ">H", val) + block[pos + ln:]
        spa.struct.set_status_block(block)
    return block, {i: block[i] for i in range(1024) if block[i]}


# ----------------------------------------------------------------------------------------------------- dumps of the real facades
def show_modes(m):
    return "None" if m is None else "/".join(m)


def dump_dev(d, is_pump):
    try:
        base = f"{d.key};{d.name};{d._keypad_button};{d._state_sensor.accessor.tag};{d.device_class}"
        if is_pump:
            return base + f";{d._user_demand['demand']};{show_modes(d.modes)}"
        return base + ";-;-"
    except Exception as e:  # noqa
        return f"raised {type(e).__name__}"


def dump_sensor(s):
    return f"{s.key};{s.name};{s.accessor.tag}"


def slot_of(f, d, is_async):
    for name, lst in (("pumps", f.pumps), ("blowers", f.blowers), ("lights", f.lights), ("sensors", f.sensors), ("binary_sensors", f.binary_sensors)):
        if any(d is x for x in lst):
            return name
    for name in ("water_heater", "water_care", "keypad", "eco_mode") + (("reminders_manager",) if is_async else ()):
        if d is getattr(f, name, None):
            return name
    return "?"


def show_get(f, key, is_async):
    try:
        d = f.get_device(key)
    except Exception as e:  # noqa
        return f"err:{type(e).__name__}"
    if d is None:
        return "none"
    return f"{d.key}>{d.name}@{slot_of(f, d, is_async)}"


def dump_facade(f, spa, is_async, full):
    """sections of the canonical dump, as a dict"""
    out = {}
    out["vals"] = ",".join(f"{o}={spa.accessors[o].value}" for o in spa.struct.all_outputs)
    out["aud"] = ",".join(f"{d['device']}:{d['user_demand']['demand']}:{show_modes(d['user_demand']['options'])}" for d in f.actual_user_devices)
    out["pumps"] = ",".join(dump_dev(d, True) for d in f.pumps)
    out["blowers"] = ",".join(dump_dev(d, False) for d in f.blowers)
    out["lights"] = ",".join(dump_dev(d, False) for d in f.lights)
    out["sensors"] = ",".join(dump_sensor(s) for s in f.sensors)
    out["bsensors"] = ",".join(dump_sensor(s) for s in f.binary_sensors)
    out["eco"] = "None" if f.eco_mode is None else dump_dev(f.eco_mode, False)
    if full:
        try:
            keys = f.devices
            out["devices"] = "ok:" + ",".join(keys)
        except Exception as e:  # noqa
            keys = [d.key for d in f.all_automation_devices if d is not None]
            out["devices"] = f"err:{type(e).__name__}"
        out["get"] = ",".join(show_get(f, k, is_async) for k in keys)
        out["absent"] = show_get(f, "NO-SUCH-KEY", is_async)
    return out


def build_async(spa):
    """(facade, mode): the real constructor; when it raises before/after the scan, the scan alone on a bare object"""
    from geckolib.automation.async_facade import GeckoAsyncFacade
    try:
        return GeckoAsyncFacade(spa, make_taskman()), "full", None
    except Exception as e:  # noqa
        err = f"{type(e).__name__}: {e}"
    from geckolib.driver import Observable
    f = GeckoAsyncFacade.__new__(GeckoAsyncFacade)
    Observable.__init__(f)
    f._spa, f._taskman = spa, make_taskman()
    f._sensors, f._binary_sensors, f._pumps, f._blowers, f._lights, f._ecomode = [], [], [], [], [], None
    f._scan_outputs()
    return f, "scan-only", err


def build_sync(spa):
    from geckolib.automation.facade import GeckoFacade
    f = GeckoFacade(spa)
    try:
        f._update_thread.join()
    except Exception:  # noqa
        pass
    try:
        f._on_connected(spa)
        return f, "full", None
    except Exception as e:  # noqa
        err = f"{type(e).__name__}: {e}"
    f._pumps = f._blowers = f._lights = []
    f.scan_outputs()
    return f, "scan-only", err


# ----------------------------------------------------------------------------------------------------- the direct oracle
def oracle(ctx, f, spa, asg_s, which, full):
    """the property statement recomputed from the raw labels, checked on the real facade (no model involved)"""
    st = spa.struct
    # the labels are decoded HERE from the raw bytes of the block and the published layout of each output item (not through the
    # accessor's own value path, which is part of what is being checked)
    blk = st.status_block

    def raw_label(o):
        a = spa.accessors[o]
        raw = blk[a.pos] if a.length == 1 else (blk[a.pos] << 8) | blk[a.pos + 1]
        if a.bitpos is not None:
            raw = (raw >> a.bitpos) & a.bitmask
        return a.items[raw] if raw < len(a.items) else "Unknown"
    vals = [raw_label(o) for o in dict.fromkeys(st.all_outputs)]
    uds = list(st.user_demands)
    want = []
    for d in dict.fromkeys(st.all_devices):
        wired = any(isinstance(v, str) and v != "NA" and v.startswith(d) for v in vals)
        dem = [u for u in uds if ("Ud" + d).upper() == u.upper()]
        if wired and dem and d in STATEMENT_DEVICES:
            want.append((d, dem[0]))
    inp = {"kind": "scan", "cfg": spa.cfg, "log": spa.log, "assignment": asg_s, "facade": which}
    key_tail = f"{spa.cfg}:{spa.log}:{asg_s}"
    got = [(d["device"], d["user_demand"]["demand"]) for d in f.actual_user_devices]
    in_order = which == "async" or SYNC_ORDERED
    exp = want if in_order else sorted(want)
    if (got if in_order else sorted(got)) != exp:
        viol(ctx, f"inventory-{which}:{key_tail}", inp, want, got)
        return
    for cls, lst, tname in (("PUMP", f.pumps, "GeckoPump"), ("BLOWER", f.blowers, "GeckoBlower"), ("LIGHT", f.lights, "GeckoLight")):
        w = [d for d, _ in want if STATEMENT_DEVICES[d] == cls]
        g = [x.key for x in lst]
        if (g if in_order else sorted(g)) != (w if in_order else sorted(w)) or any(type(x).__name__ != tname for x in lst):
            viol(ctx, f"classes-{which}:{cls}:{key_tail}", inp, w, [(x.key, type(x).__name__) for x in lst])
    for p in f.pumps:
        ud = dict(want).get(p.key)
        if ud is not None and (p._user_demand["demand"] != spa.accessors[ud].tag or p.modes != spa.accessors[ud].items):
            viol(ctx, f"demand-{which}:{p.key}:{key_tail}", inp, [ud, spa.accessors[ud].items], [p._user_demand["demand"], p.modes])
    if full:
        objs = [d for d in f.all_automation_devices if d is not None]
        keys = [d.key for d in objs]
        if len(set(keys)) != len(keys):
            viol(ctx, f"keys-{which}:{key_tail}", inp, "distinct automation keys", keys)
        uids = [d.unique_id for d in objs]
        if len(set(uids)) != len(uids) or any(u != f"{f.unique_id}-{k}" for u, k in zip(uids, keys)):
            viol(ctx, f"uids-{which}:{key_tail}", inp, "distinct unique ids = parent-key", uids)
        for d in objs:
            try:
                r = f.get_device(d.key)
            except Exception as e:  # noqa
                r = f"raised {type(e).__name__}"
            if r is not d:
                viol(ctx, f"lookup-{which}:{d.key}:{key_tail}", inp, f"get_device({d.key!r}) is that object", repr(r)[:120])


# ----------------------------------------------------------------------------------------------------- generator of assignments
def labels_of(spa, out):
    a = spa.accessors[out]
    return list(dict.fromkeys(a.items or []))


def assignments(ctx, spa, n_random, exhaustive_single):
    """list of assignments [(output, label | raw int)] for one cfg (the spa's log is irrelevant here)"""
    rng = ctx.rng
    outs = list(dict.fromkeys(spa.struct.all_outputs))
    labs = {o: labels_of(spa, o) for o in outs}
    non_na = {o: [l for l in labs[o] if l not in ("NA",)] for o in outs}
    res = [[]]                                                        # the zero block (first label everywhere)
    res.append([(o, "NA") for o in outs if "NA" in labs[o]])          # everything "NA"
    if not outs:
        return res
    # every label exercising every device prefix, packed onto the outputs that can carry it
    allv = sorted({l for o in outs for l in non_na[o] if l})
    a, used = [], set()
    for l in allv:
        for o in outs:
            if o not in used and l in labs[o]:
                a.append((o, l)); used.add(o); break
        else:
            res.append(a); a, used = [], set()
            for o in outs:
                if l in labs[o]:
                    a.append((o, l)); used.add(o); break
    if a:
        res.append(a)
    # duplicate wiring: one device on several outputs (issue #3)
    for dev in ("P1", "P2", "BL", "LI", "Waterfall"):
        cands = [(o, l) for o in outs for l in non_na[o] if l.startswith(dev)]
        byout = {}
        for o, l in cands:
            byout.setdefault(o, []).append(l)
        if len(byout) >= 2:
            os_ = list(byout)[:4]
            res.append([(o, byout[o][0]) for o in os_])
            res.append([(o, byout[o][-1]) for o in os_[:2]] + [(o, byout[o][0]) for o in os_[2:]])
    # every subset size
    for k in range(0, len(outs) + 1):
        chosen = rng.sample(outs, k)
        res.append([(o, rng.choice(non_na[o] or labs[o])) for o in chosen if labs[o]])
    for _ in range(n_random):
        k = rng.randrange(len(outs) + 1)
        res.append([(o, rng.choice(labs[o])) for o in rng.sample(outs, k) if labs[o]])
    # a raw value beyond the label list -> "Unknown"
    for o in outs[:2]:
        acc = spa.accessors[o]
        if acc.bitpos is None and acc.length == 1 and len(acc.items or []) < 255:
            res.append([(o, 255)])
    # ... in particular the FIRST value past the list (the byte equals the number of labels: a newer firmware's label, an
    # unprogrammed slot) and the one after it, on every output, alone and next to an ordinary wiring
    edge = [o for o in outs if spa.accessors[o].bitpos is None and spa.accessors[o].length == 1 and 0 < len(spa.accessors[o].items or []) < 254]
    for o in (edge if exhaustive_single else edge[:5] + rng.sample(edge, min(3, len(edge)))):
        n_ = len(spa.accessors[o].items)
        res.append([(o, n_)])
        res.append([(o, n_ + 1)])
        other = [x for x in outs if x != o and non_na[x]]
        if other:
            res.append([(other[0], non_na[other[0]][0]), (o, n_)])
    if exhaustive_single:
        for o in outs:
            for l in labs[o]:
                res.append([(o, l)])
    return res


def asg_str(asg):
    return ",".join(f"{o}=#{l}" if isinstance(l, int) else f"{o}={l}" for o, l in asg) or "-"


def parse_dump(line):
    out = {}
    for part in line.split("|"):
        k, _, v = part.partition("=")
        out[k] = v
    return out


SYNC_ORDERED = False      # set in run(): the regenerated Generated/DeviceTable.lean says syncDedup = .orderPreserving


def cmp_sections(model, impl, which, mode):
    """names of the sections in which model and implementation differ"""
    if which == "sync" and SYNC_ORDERED:
        return cmp_sections_ordered(model, impl, mode)
    bad = []
    secs = ["vals", "aud", "pumps", "blowers", "lights", "sensors", "bsensors", "eco"]
    for s in secs:
        m, i = model.get(s, "?"), impl.get(s, "?")
        if which == "sync" and s in ("aud", "pumps", "blowers", "lights"):      # a hash-set de-dup (former D10) fixes no order: compare as multisets
            m, i = sorted(m.split(",")), sorted(i.split(","))
        if m != i:
            bad.append(s)
    if mode == "full":
        pre = "" if which == "async" else "s"
        for s, ms in (("devices", pre + "devices"), ("get", pre + "get")):
            m, i = model.get(ms, "?"), impl.get(s, "?")
            if which == "sync":
                n = sum(len(impl.get(x, "").split(",")) if impl.get(x) else 0 for x in ("pumps", "blowers", "lights"))
                mp, ip = m.removeprefix("ok:").split(","), i.removeprefix("ok:").split(",")
                m, i = (sorted(mp[:n]), mp[n:]), (sorted(ip[:n]), ip[n:])
            if m != i:
                bad.append(s)
        if which == "async" and model.get("absent") != impl.get("absent"):
            bad.append("absent")
    return bad


def cmp_sections_ordered(model, impl, mode):
    bad = [s for s in ("vals", "aud", "pumps", "blowers", "lights", "sensors", "bsensors", "eco") if model.get(s, "?") != impl.get(s, "?")]
    if mode == "full":
        bad += [s for s in ("devices", "get") if model.get("s" + s, "?") != impl.get(s, "?")]
    return bad


# ----------------------------------------------------------------------------------------------------- D10: hash-seed dependence
_D10_SCRIPT = r"""
import sys, json, importlib, struct as pystruct, logging
sys.path.insert(0, sys.argv[1]); logging.disable(logging.CRITICAL)
cfg, log, asg = sys.argv[2], sys.argv[3], json.loads(sys.argv[4])
from geckolib.driver.spastruct import GeckoStructure
from geckolib.automation.facade import GeckoFacade
class D: name = "stub"; identifier_as_string = "SPA01:02"
class Spa:
    isopen = False; descriptor = D()
    def __init__(self):
        self.cap = []
        self.struct = GeckoStructure(lambda p, l, v: self.cap.append((p, l, v)))
        mc = importlib.import_module("geckolib.driver.packs." + cfg); ml = importlib.import_module("geckolib.driver.packs." + log)
        self.struct.build_accessors(mc.GeckoConfigStruct(self.struct), ml.GeckoLogStruct(self.struct))
    accessors = property(lambda s: s.struct.accessors)
    def wait(self, t): pass
spa = Spa(); block = bytes(1024)
for o, l in asg:
    a = spa.accessors[o]
    if a.read_write is None:
        pos, ln, val = a.pos, a.length, a.items.index(l)      # read-only output item (byte-wide enum): store the index
    else:
        spa.cap.clear(); a.value = l
        pos, ln, val = spa.cap[-1]
    block = block[:pos] + pystruct.pack(">B" if ln == 1 else ">H", val) + block[pos + ln:]
    spa.struct.set_status_block(block)
f = GeckoFacade(spa); f._update_thread.join(); f._on_connected(spa)
print(json.dumps({"aud": [d["device"] for d in f.actual_user_devices], "pumps": [p.key for p in f.pumps], "devices": f.devices}))
"""


def d10_orders(cfg, log, asg, seeds):
    res = {}
    for s in seeds:
        env = dict(os.environ, PYTHONHASHSEED=str(s))
        p = subprocess.run([sys.executable, "-c", _D10_SCRIPT, str(REPO / "src"), cfg, log, json.dumps(asg)], env=env,
                           capture_output=True, text=True, timeout=120)
        try:
            res[s] = json.loads(p.stdout.strip().splitlines()[-1])
        except Exception:  # noqa
            res[s] = {"error": (p.stderr or p.stdout)[-300:]}
    return res


D10_INPUT = dict(cfg="inyt-cfg-50", log="inyt-log-50",
                 assignment=[["Out1", "P1H"], ["Out2", "P2H"], ["Out3", "P3H"], ["Out4", "P4H"], ["Out5", "P5"], ["Out6", "BLO"], ["OutLi", "LI"]],
                 expected=["P1", "P2", "P3", "P4", "P5", "BL", "LI"])


def check_d10(ctx):
    seeds = list(range(1, 5 if ctx.quick else 13))
    try:
        res = d10_orders(D10_INPUT["cfg"], D10_INPUT["log"], D10_INPUT["assignment"], seeds)
    except Exception as e:  # noqa
        ctx.notes.append(f"D10 subprocess runs failed: {e}")
        return
    orders = {s: r.get("aud", r) for s, r in res.items()}
    ctx.cov["threaded_order_by_hash_seed"] = {str(s): ("".join(x[:2] + " " for x in o).strip() if isinstance(o, list) else str(o)[:80]) for s, o in orders.items()}
    ctx.count("evaluations", len(seeds))
    bad = [s for s, o in orders.items() if o != D10_INPUT["expected"]]
    if bad:
        viol(ctx, "sync-order:hash-seed-dependent", {"kind": "sync-order", **D10_INPUT, "seeds": seeds},
             f"threaded actual_user_devices in table order {D10_INPUT['expected']} for every PYTHONHASHSEED",
             {str(s): orders[s] for s in bad[:4]})


# ----------------------------------------------------------------------------------------------------- run
def cause_of(err):
    """'AttributeError:_current_temperature_sensor' from "AttributeError: 'X' object has no attribute '_current_temperature_sensor'" """
    import re
    et, _, msg = err.partition(":")
    m = re.search(r"has no attribute '([^']+)'", msg) or re.search(r"'([^']+)'", msg)
    return et + (":" + m.group(1) if m else "")


def check_blocking_clients(ctx, only=None):
    """two BLOCKING clients in one process (real start_connect handshakes, stepped; one after the other and with overlapping start-up),
    their spas wired differently: what each client's output items show - the input of its inventory - is its OWN spa's wiring"""
    import bsessions
    from common import REPO
    s1 = str(REPO / "tests" / "snapshots" / "inYT-Pump1Hi-2020-12-13 11_19_35.snapshot")
    s2 = str(REPO / "tests" / "snapshots" / "inYT-waterfall on-2020-10-23 18_01_30.snapshot")
    for overlapping, same_model in ((False, False), (True, False), (False, True), (True, True)):
        if only is not None and only != [overlapping, same_model]:
            continue
        if same_model:         # two spas of ONE model (same pack, same table versions), set differently
            res, _a, _b = bsessions.two_clients(s1, s1, overlapping, mutate_b=bsessions.differently_set)
        else:
            res, _a, _b = bsessions.two_clients(s1, s2, overlapping)
        ctx.count("evaluations")
        name = ("overlapping" if overlapping else "sequential") + (":same-model" if same_model else "")
        ctx.hist("blocking_clients", name)
        for what, detail in bsessions.judge(res):
            ctx.violation(f"blocking-clients:{name}:{what}", {"kind": "blocking-clients", "case": [overlapping, same_model]},
                          "each client's items (its outputs among them) read its own spa's block through the tables that spa reported", detail)
            break


def check_sessions(ctx):
    """the inventory of a spa connected LATER in the same process, through the real client path: first a spa of one pack family, then
    one of another family whose tables carry a version number the first family also has (inYJ config 62 / log 59, then inYT config
    62 / log 62), then the first again - each facade must show what a facade built directly over that spa's own tables and block shows"""
    import sessions
    from common import REPO
    from geckolib.utils.snapshot import GeckoSnapshot
    yj = str(REPO / "tests" / "snapshots" / "inYJ-All off-2020-12-18 11_24_09.snapshot")
    yt_base = GeckoSnapshot.parse_log_file(str(REPO / "tests" / "snapshots" / "inYT-Pump1Hi-2020-12-13 11_19_35.snapshot"))[0]
    yt = sessions.CraftedSnapshot(yt_base, packtype="inYT", config_version=62, log_version=62)
    plan = [("connect", yj), ("new-manager", yt), ("new-manager", yj)]

    def observe(k, man, sim):
        spa = man.facade.spa
        got = dump_facade(man.facade, spa, True, True)
        plat = spa.pack_class.name.lower() if hasattr(spa.pack_class, "name") else "?"
        ref_spa = StubSpa(f"{sim.snapshot.packtype.lower()}-cfg-{sim.snapshot.config_version}", f"{sim.snapshot.packtype.lower()}-log-{sim.snapshot.log_version}")
        ref_spa.struct.set_status_block(bytes(spa.struct.status_block))
        ref, _, _ = build_async(ref_spa)
        want = dump_facade(ref, ref_spa, True, True)
        return {"got": got, "want": want, "tables": [plat, spa.config_version, spa.log_version]}
    recs = sessions.run_sessions(plan, observe)
    for r in recs:
        ctx.count("evaluations")
        ctx.hist("sessions", "connected" if r["connected"] else "not-connected")
        inp = {"kind": "sessions", "connection": r["step"] + 1}
        if not r["connected"] or r.get("observe_raised"):
            ctx.violation(f"sessions:connection-{r['step'] + 1}:not-usable", inp, "the manager connects and the inventory can be read", r.get("observe_raised") or "not CONNECTED")
            break
        diff = {k: [r["obs"]["want"].get(k), v] for k, v in r["obs"]["got"].items() if r["obs"]["want"].get(k) != v}
        if diff:
            ctx.violation(f"sessions:connection-{r['step'] + 1}:inventory-differs", inp,
                          "the facade shows what a facade built directly over this spa's own tables and block shows",
                          {"tables": r["obs"]["tables"], "sections (own tables, connected facade)": {k: [str(x)[:160] for x in v] for k, v in list(diff.items())[:3]}})
            break


def platform_pairs(mods):
    plat = {}
    for m in mods:
        if m["kind"] in ("cfg", "log"):
            plat.setdefault(m["file"].rsplit("-", 2)[0], {"cfg": [], "log": []})[m["kind"]].append(m)
    return plat


def run(ctx):
    _VCOUNT.clear()
    st = translate.run(["DeviceTable", "AccessorArith", "Packs", "Pinned", "Skeletons"])
    ctx.cov["translator"] = st
    for k, v in st.items():
        if v != "ok":
            ctx.obligation_broken(f"translate:{k}", v)
    ctx.lean_obligations("GeckoModel.Properties.C12")
    global SYNC_ORDERED
    try:
        SYNC_ORDERED = "def syncDedup : DedupKind := .orderPreserving" in (translate.GEN / "DeviceTable.lean").read_text()
    except Exception:  # noqa
        SYNC_ORDERED = False
    ctx.cov["threaded_scan_compared_in_order"] = SYNC_ORDERED
    mods = packs.load_tables()
    plat = platform_pairs(mods)
    rng = ctx.rng
    lines, checks = [], []          # checks[i] = None | (which, mode, impl sections, input)
    nontrivial, build_fail = set(), {}
    nblk = 0
    for pname, d in sorted(plat.items()):
        cfgs, logs = d["cfg"], d["log"]
        if not cfgs or not logs:
            continue
        # logs grouped by what the scan reads from them
        sig = {}
        for l in logs:
            sig.setdefault((tuple(l["deviceKeys"]), tuple(l["userDemandKeys"])), []).append(l["file"])
        seen_csig = set()
        for ci, c in enumerate(cfgs):
            if ctx.quick:
                use_logs = [logs[ci % len(logs)]["file"]] + ([rng.choice(logs)["file"]] if ci % 6 == 0 else [])
                n_random, exh = 2, (ci == 0)
            else:
                use_logs = [l["file"] for l in logs]
                csig = (tuple(c["outputKeys"]), tuple(tuple(i["labels"] or ()) for i in c["items"] if i["key"] in c["outputKeys"]))
                n_random, exh = 12, csig not in seen_csig        # every single output x label once per distinct output layout
                seen_csig.add(csig)
            try:
                spa0 = StubSpa(c["file"], use_logs[0])
                asgs = assignments(ctx, spa0, n_random, exh)
            except Exception as e:  # noqa
                viol(ctx, f"pair-import:{c['file']}", {"kind": "pair", "cfg": c["file"], "log": use_logs[0]}, "the pair builds", f"{type(e).__name__}: {e}")
                continue
            first_of_sig = {v[0] for v in sig.values()}
            for li, lg in enumerate(dict.fromkeys(use_logs)):
                try:
                    spa = StubSpa(c["file"], lg)
                except Exception as e:  # noqa
                    viol(ctx, f"pair-import:{c['file']}:{lg}", {"kind": "pair", "cfg": c["file"], "log": lg}, "the pair builds", f"{type(e).__name__}: {e}")
                    continue
                # thorough: the exhaustive single-output part only once per distinct log signature
                singles = [a for a in asgs if len(a) == 1]
                mine = asgs if (ctx.quick or lg in first_of_sig) else [a for a in asgs if len(a) != 1] + rng.sample(singles, min(8, len(singles)))
                for asg in mine:
                    a_s = asg_str(asg)
                    try:
                        block, changed = encode_assignment(spa, asg)
                    except Exception as e:  # noqa
                        viol(ctx, f"encode:{c['file']}:{a_s}", {"kind": "scan", "cfg": c["file"], "log": lg, "assignment": a_s, "facade": "async"},
                             "labels of an output item can be written", f"{type(e).__name__}: {e}")
                        continue
                    bid = f"b{nblk}"
                    nblk += 1
                    lines.append(f"asg {bid} " + (",".join(f"{p}={v}" for p, v in sorted(changed.items())) or "-"))
                    checks.append(None)
                    both = []
                    for which, builder in (("async", build_async), ("sync", build_sync)):
                        inp = {"kind": "scan", "cfg": c["file"], "log": lg, "assignment": a_s, "facade": which}
                        spa.struct.set_status_block(block)
                        try:
                            f, mode, err = builder(spa)
                            sections = dump_facade(f, spa, which == "async", mode == "full")
                        except Exception as e:  # noqa
                            viol(ctx, f"scan-raises-{which}:{lg}:{type(e).__name__}", inp, "the output scan completes", f"{type(e).__name__}: {e}")
                            continue
                        ctx.count("evaluations")
                        ctx.hist("facades", f"{which}:{mode}")
                        if err is not None and which == "async":
                            build_fail.setdefault((lg, cause_of(err)), (c["file"], a_s, err))
                        oracle(ctx, f, spa, a_s, which, mode == "full")
                        both.append((which, mode, sections, inp))
                        if which == "sync" and mode == "full":
                            # the blocking client calls facade._on_connected again after every reconnect: the SAME facade object
                            # scans again - the inventory must be the one of a single scan (each device once, keys unique, lookup)
                            try:
                                f._on_connected(spa)
                                again = dump_facade(f, spa, False, True)
                            except Exception as e:  # noqa
                                viol(ctx, f"rescan-raises-sync:{lg}:{type(e).__name__}", dict(inp, rescan=True), "a reconnect re-scans", f"{type(e).__name__}: {e}")
                                continue
                            ctx.count("evaluations")
                            ctx.hist("facades", "sync:rescan")
                            diff = [k for k in sections if again.get(k) != sections[k]]
                            if diff:
                                viol(ctx, f"rescan-differs-sync:{diff[0]}:{lg}", dict(inp, rescan=True),
                                     f"{diff[0]} after a reconnect as after the first connect: {sections[diff[0]][:200]}", again.get(diff[0], "?")[:300])
                            else:
                                oracle(ctx, f, spa, a_s + "+reconnect", which, True)
                        if sections["aud"]:
                            nontrivial.add((tuple(l for l in sorted({x.split(":")[0] for x in sections["aud"].split(",")})), pname, which))
                        ctx.hist("user_devices_listed", len(sections["aud"].split(",")) if sections["aud"] else 0)
                    if both:
                        lines.append(f"scan {c['file']} {lg} {bid}")      # one model answer serves both facades
                        checks.append(both)
                # ---- the spa REPORTS a changed output wiring on a live connection (partial updates, 2-byte words), after a facade has
                #      already looked at the outputs; a NEW facade on the same structure must show the new wiring
                enc = []
                for asg in mine[:40]:
                    try:
                        enc.append((asg, encode_assignment(spa, asg)[0]))
                    except Exception:  # noqa
                        pass
                for (asg_a, blk_a), (asg_b, blk_b) in list(zip(enc, enc[1:]))[: (3 if ctx.quick else 25)]:
                    if blk_a == blk_b:
                        continue
                    a_s = asg_str(asg_b) + "+rewired-from:" + asg_str(asg_a)
                    try:
                        spa.struct.set_status_block(blk_a)
                        build_async(spa)                       # somebody has read the outputs under wiring A
                        for pos in sorted({q & ~1 for q in range(1024) if blk_a[q] != blk_b[q]}):
                            spa.struct.replace_status_block_segment(pos, blk_b[pos:pos + 2])
                    except Exception as e:  # noqa
                        viol(ctx, f"rewire-raises:{lg}:{type(e).__name__}", {"kind": "rewire", "cfg": c["file"], "log": lg, "assignment": a_s}, "the update is applied", f"{type(e).__name__}: {e}")
                        continue
                    for which, builder in (("async", build_async), ("sync", build_sync)):
                        try:
                            f, mode, err = builder(spa)
                        except Exception as e:  # noqa
                            viol(ctx, f"scan-raises-{which}:{lg}:{type(e).__name__}", {"kind": "rewire", "cfg": c["file"], "log": lg, "assignment": a_s, "facade": which},
                                 "the output scan completes", f"{type(e).__name__}: {e}")
                            continue
                        ctx.count("evaluations")
                        ctx.hist("facades", f"{which}:rewired")
                        oracle(ctx, f, spa, a_s, which, mode == "full")
    for (lg, et), (cf, a_s, err) in sorted(build_fail.items()):
        viol(ctx, f"facade-build:{lg}:{et}", {"kind": "build", "cfg": cf, "log": lg, "assignment": a_s},
             "GeckoAsyncFacade can be built on a shipped cfg/log pair", err)
    ctx.cov["pairs_without_a_buildable_facade"] = sorted({lg for (lg, _e) in build_fail})
    # ---- correspondence
    try:
        model = Driver("Driver/C12.lean").run(lines)
    except DriverFailure as e:
        ctx.obligation_broken("driver:C12", e)
        model = None
    ndis = 0
    if model is not None:
        for i, (mo, ch) in enumerate(zip(model, checks)):
            if ch is None:
                if mo != "ok":
                    ndis += 1
                    ctx.obligation_broken("correspondence:asg", {"op": lines[i][:100], "model": mo})
                continue
            md = parse_dump(mo)
            for which, mode, sections, inp in ch:
                bad = ["E"] if md.get("E") != "ok" else cmp_sections(md, sections, which, mode)
                if bad:
                    ndis += 1
                    if ndis <= 3:
                        ctx.obligation_broken(f"correspondence:inventory-model-vs-{which}-facade",
                                              {"input": inp, "sections": bad,
                                               "model": {b: md.get(("s" if which == "sync" and b in ("devices", "get") else "") + b, md.get("E"))[:300] for b in bad},
                                               "impl": {b: str(sections.get(b))[:300] for b in bad}})
        ctx.cov["correspondence_ops"] = len(lines)
        ctx.cov["correspondence_disagreements"] = ndis
        shown = 0
        for i, ch in enumerate(checks):
            if ch is not None and ch[0][2]["pumps"] and ch[0][2]["lights"] and shown < 3 and (shown == 0 or i % 7 == 0):
                ctx.sample({"op": lines[i], "assignment": ch[0][3]["assignment"], "model": model[i][model[i].find("|E="):][:300],
                            **{f"impl_{w}_actual_user_devices": sec["aud"][:200] for w, _m, sec, _i in ch}})
                shown += 1
    # ---- D10 on the real code, in subprocesses with fixed hash seeds
    check_d10(ctx)
    try:
        check_sessions(ctx)
    except Exception as e:  # noqa
        ctx.obligation_broken("harness:sessions", f"{type(e).__name__}: {e}")
    try:
        check_blocking_clients(ctx)
    except Exception as e:  # noqa
        ctx.obligation_broken("harness:blocking-clients", f"{type(e).__name__}: {e}")
    ctx.cov["distinct_nontrivial"] = len(nontrivial)
    ctx.cov["blocks"] = nblk
    ctx.cov["rule"] = ("per cfg table: zero block, all-'NA', packings of every label of every output (every device prefix), one device on several "
                       "outputs, one assignment of every subset size, seeded random assignments (quick 2, thorough 12), a raw value beyond the "
                       "label list, and (quick: first cfg of a platform; thorough: every distinct output layout of a platform, on one log per distinct device/demand list) every single output x every label; each written "
                       "through the real accessors and scanned by the real async AND threaded facade on (quick) 1-2 logs of the platform / "
                       "(thorough) every log of the platform. distinct_nontrivial = distinct (set of listed user devices, platform, facade) "
                       "with at least one device listed")
    ctx.assumptions += ["'wired' = the label-prefix relation the library uses", "the statement's device table is pumps P1-P5, Waterfall, blower BL, lights LI"]


# ----------------------------------------------------------------------------------------------------- replay
def _parse_asg(s):
    if s in ("-", ""):
        return []
    out = []
    for kv in s.split(","):
        o, _, l = kv.partition("=")
        out.append((o, int(l[1:]) if l.startswith("#") and l[1:].isdigit() else l))
    return out


class _Collect:
    """minimal ctx for re-running the oracle"""

    def __init__(self):
        self.v = []

    def violation(self, key, inp, expected, observed, kind=None):
        self.v.append((key, expected, observed))

    def hist(self, *a):
        pass


def replay(inp):
    if inp.get("kind") == "blocking-clients":
        from common import Ctx
        c = Ctx("C12", "quick", 0)
        check_blocking_clients(c, only=inp["case"])
        return bool(c.violations), c.violations[0]["observed"] if c.violations else "both clients show their own spa"
    if inp.get("kind") == "sessions":
        from common import Ctx
        c = Ctx("C12", "quick", 0)
        check_sessions(c)
        return bool(c.violations), c.violations[0]["observed"] if c.violations else "every connection shows its own inventory"
    k = inp.get("kind")
    if k == "sync-order":
        res = d10_orders(inp["cfg"], inp["log"], inp["assignment"], inp.get("seeds", [1, 2, 3, 4]))
        orders = {s: r.get("aud", r) for s, r in res.items()}
        return any(o != inp["expected"] for o in orders.values()), orders
    if k == "build":
        from geckolib.automation.async_facade import GeckoAsyncFacade
        try:
            GeckoAsyncFacade(StubSpa(inp["cfg"], inp["log"]), make_taskman())
            return False, "builds"
        except Exception as e:  # noqa
            return True, f"{type(e).__name__}: {e}"
    if k == "pair":
        try:
            StubSpa(inp["cfg"], inp["log"])
            return False, "builds"
        except Exception as e:  # noqa
            return True, f"{type(e).__name__}: {e}"
    if k == "scan" and "+rewired-from:" in inp["assignment"]:
        _VCOUNT.clear()
        spa = StubSpa(inp["cfg"], inp["log"])
        b_s, a_s = inp["assignment"].split("+rewired-from:")
        try:
            blk_a, _ = encode_assignment(spa, _parse_asg(a_s))
            blk_b, _ = encode_assignment(spa, _parse_asg(b_s))
            spa.struct.set_status_block(blk_a)
            build_async(spa)
            for pos in sorted({q & ~1 for q in range(1024) if blk_a[q] != blk_b[q]}):
                spa.struct.replace_status_block_segment(pos, blk_b[pos:pos + 2])
            f, mode, err = (build_async if inp["facade"] == "async" else build_sync)(spa)
        except Exception as e:  # noqa
            return True, f"{type(e).__name__}: {e}"
        c = _Collect()
        oracle(c, f, spa, inp["assignment"], inp["facade"], mode == "full")
        return bool(c.v), c.v[:3] or "inventory equals the rewired outputs"
    if k == "scan":
        _VCOUNT.clear()
        spa = StubSpa(inp["cfg"], inp["log"])
        try:
            block, _ = encode_assignment(spa, _parse_asg(inp["assignment"]))
            spa.struct.set_status_block(block)
            f, mode, err = (build_async if inp["facade"] == "async" else build_sync)(spa)
        except Exception as e:  # noqa
            return True, f"{type(e).__name__}: {e}"
        c = _Collect()
        oracle(c, f, spa, inp["assignment"], inp["facade"], mode == "full")
        if inp.get("rescan") and not c.v:
            first = dump_facade(f, spa, False, True)
            try:
                f._on_connected(spa)
                again = dump_facade(f, spa, False, True)
            except Exception as e:  # noqa
                return True, f"{type(e).__name__}: {e}"
            diff = {k: [first[k][:200], again.get(k, "?")[:300]] for k in first if again.get(k) != first[k]}
            if diff:
                return True, diff
            oracle(c, f, spa, inp["assignment"] + "+reconnect", inp["facade"], True)
        return bool(c.v), c.v[:3] or dump_facade(f, spa, inp["facade"] == "async", mode == "full")
    return True, "unknown replay kind"
