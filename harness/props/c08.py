"""C08 - lifecycle follows the state table; facade-ready / facade-teardown are well-bracketed."""
import asyncio
import contextvars

import translate
import vloop
from common import Driver, DriverFailure

LEVEL = "proof"
MANIFEST = dict(
    text="Lean 4 theorems over histories of ANY length of manager calls (locate with 0/1/2 spas or raising, connect with every event sequence "
         "`_connect` can produce incl. a raise at each await and a raising facade constructor, async_connect, every run-time event of the spa, "
         "ping-miss / RF-error sequences, water-care error, reset, set-spa-info), each enabled as the sequence pump drives it: CONNECTED only with "
         "an announced, not-torn-down facade on a connected spa; facade-ready exactly when CONNECTED is entered; per facade #teardown <= #ready <= 1; "
         "every LOCATING/CONNECTION_STARTED closed by its FINISHED in the same call also when the phase raises; reset lands in IDLE with nothing "
         "left; the status text mirrors the state at every delivery (this one for every interleaving). The `_handle_event` chain, async_reset, "
         "disconnect, both try/finally phases and the `_connect` event sequences are DATA regenerated from the source on every run and executed by a "
         "generic interpreter; the kernel runs it on every (state, enabled call) pair of a closed state set (decide +kernel) and induction lifts "
         "that to all histories. Finding D7 is proved as a theorem about the shipped table (teardown delivered while facade is None) and "
         "reproduced on the real manager. Tie: translator + differential correspondence with the REAL GeckoAsyncSpaMan (locator.discover, "
         "GeckoAsyncSpa._connect, async_get_watercare and the facade constructor scripted) on the virtual loop, including calls parked at any "
         "delivery/await while other calls run; direct monitors on the real manager. Session 4: every error scenario x reset origin is run on the real stack with a suspending client handler and the reset must land in IDLE; the guard `self._spa is not None` is part of the translated vocabulary (.spaSome). The order inside GeckoAsyncSpa.disconnect() is a theorem over its regenerated suspension skeleton (disconnect_order: announced before the spa cancels its own tasks, nothing suspends between that cancellation and the last clean-up step). every_started_phase_is_closed: over the regenerated skeletons, the FINISHED announcement is awaited on every exit of the locate / connect phase, cancellation at any await included (resource monitor, sound by releasedOnEveryExit_sound). A reset from another task while the sequence pump is suspended in the client`s facade-ready handler: phases closed, manager reconnects. Round 14: a user reset with a client whose disconnection handlers are slower than a discovery (genuine defect D16, fix 124e61a) - real stack. Round 15: a monitor for the 'needs attention' row of the state table that does not go through the model (terminal errors delivered while a spa object exists). Round 16: the client's handler raises, or the caller is cancelled, at each delivery of a locate / connect call in turn (explore_handler_faults) - every phase whose started event was delivered is closed. Round 17: the lifecycle tables of the audited commit are pinned (pins/c08-lifecycle-ref); when the table of the tree under test cannot be generated or differs, the model runs on the pinned table and a disagreement with the real manager is a failing history; an error from another task while the connect call is parked in every one of its deliveries.",
    note="Trusted: Lean kernel, translator (an unknown statement refuses), correspondence harness. The content of locate/connect is abstracted to its "
         "event sequence (C01/C06/C15). Theorems other than the delivery/status one are about calls that are not interleaved; interleavings are "
         "covered by correspondence + search to bounded depth. Locate/connect are assumed to be issued as the sequence pump does (one at a time, "
         "locate when IDLE without descriptors, connect when LOCATED_SPAS without facade); what `_connect` does after a concurrent disconnect is a "
         "scripted input (continuing and raising are both explored).",
    technique="source-extracted transition table + generic Lean interpreter; closed-set certificate checked by decide +kernel, induction over histories; "
              "differential correspondence on a virtual event loop",
    design="5/C08")


# ------------------------------------------------------------------------------------------------ op language (shared with Driver/C08.lean)
def connect_paths():
    """(ok, fails, raises) as lists of step names - mirrors what gen_c08 extracts, but read from the generated table text"""
    txt = (translate.GEN / "LifecycleTable.lean").read_text()

    def steps(seg):
        out = []
        for tok in seg.split(","):
            tok = tok.strip()
            if tok.startswith(".ev ."):
                out.append(tok[5:])
            elif tok == ".setConnected":
                out.append("SET")
            elif tok == ".openProtocol":
                out.append("OPEN")
            elif tok == ".useProtocol":
                out.append("USE")
        return out
    import re
    ok = steps(re.search(r"connectOk := \[(.*?)\]\n", txt).group(1))
    fails = [steps(m) for m in re.findall(r"^    \[(.*?)\],?$", re.search(r"connectFail := \[\n(.*?)\]\n  runtimeEvents", txt, re.S).group(1) + "\n", re.M)]
    raises = [ok[:i] + ["RAISE"] for i in range(len(ok))]
    rt = [e.strip()[1:] for e in re.search(r"runtimeEvents := \[(.*?)\]", txt).group(1).split(",")]
    return ok, fails, raises, rt


def path_str(p):
    return ",".join(p) if p else "-"


STATS = {"status_text_stale_at_rest": 0, "rest_samples": 0}
ALIAS = {}     # short name -> path string (for readable, stable schedule strings: connect:ok:0, connect:fail2:0, connect:raise3:0)


def short(op):
    k = op.split(":")
    i = {"connect": 1, "aconnect": 2}.get(k[0])
    if i is not None:
        for a, p in ALIAS.items():
            if k[i] == p:
                k[i] = a
                break
    return ":".join(k)


def expand(op):
    k = op.split(":")
    i = {"connect": 1, "aconnect": 2}.get(k[0])
    if i is not None and k[i] in ALIAS:
        k[i] = ALIAS[k[i]]
    return ":".join(k)


def alphabet():
    ok, fails, raises, rt = connect_paths()
    locs = ["f1", "f0", "f2", "r0", "r1"]
    paths = [ok] + fails + raises
    ALIAS.clear()
    ALIAS["ok"] = path_str(ok)
    ALIAS.update({f"fail{i}": path_str(p) for i, p in enumerate(fails)})
    ALIAS.update({f"raise{i}": path_str(p) for i, p in enumerate(raises)})
    a = ["enter", "exit"] + [f"locate:{o}" for o in locs]
    a += [f"connect:{path_str(p)}:0" for p in paths] + [f"connect:{path_str(ok)}:1"]
    a += [f"aconnect:f1:{path_str(p)}:0" for p in paths] + [f"aconnect:f1:{path_str(ok)}:1"]
    a += [f"aconnect:{o}:{path_str(ok)}:0" for o in ("f0", "f2", "r0", "r1")]
    a += [f"ev:{e}" for e in rt]
    a += ["pingmiss:0", "pingmiss:1", "rferr:0", "rferr:1", "wcerr:1", "wcerr:0", "reset", "info:11", "info:10", "info:01", "info:00"]
    return a


def is_phase(op):
    return op.split(":")[0] in ("locate", "connect", "aconnect")


def is_runtime(op):
    return op.split(":")[0] in ("ev", "pingmiss", "rferr", "wcerr")


def enabled(st, op):
    """the policy of Model/Lifecycle.lean `enabled`, evaluated on the sampled state of the REAL manager"""
    k = op.split(":")[0]
    if k == "locate":
        return st["state"] == "IDLE" and not st["desc"]
    if k == "connect":
        return st["state"] == "LOCATED_SPAS" and not st["facade"]
    if k == "aconnect":
        return st["state"] == "LOCATED_SPAS" and not st["facade"] and st["ident"]
    if is_runtime(op):
        return st["spa"]
    return True


# ------------------------------------------------------------------------------------------------ the real manager with scripted stubs
ENV = contextvars.ContextVar("c08_env")      # {"found","loc_raises","path","facade_raises","wc_ok","ctl"}


class Ctl:
    """suspension control of one task: `budget` suspension points are passed, the next one parks (None = never park)"""

    def __init__(self, budget, fault_at=None):
        self.budget = budget
        self.gate = None
        self.settled = asyncio.get_running_loop().create_future()
        self.fault_at, self.points = fault_at, 0      # the client's handler FAILS at its `fault_at`-th delivery (0-based)

    async def point(self):
        self.points += 1
        if self.fault_at is not None and self.points - 1 == self.fault_at:
            raise StubError("the client's event handler failed")
        if self.budget is None:
            await asyncio.sleep(0)
            return
        if self.budget > 0:
            self.budget -= 1
            await asyncio.sleep(0)
            return
        self.gate = asyncio.get_running_loop().create_future()
        if not self.settled.done():
            self.settled.set_result("parked")
        self.budget = await self.gate
        self.gate = None


class StubError(Exception):
    pass


async def stub_discover(self):
    from geckolib.spa_events import GeckoSpaEvent
    from geckolib.async_spa_descriptor import GeckoAsyncSpaDescriptor
    env = ENV.get()
    self._spas = []
    await env["ctl"].point()
    for i in range(env["found"]):
        d = GeckoAsyncSpaDescriptor(b"SPA%02d" % i, "Spa %d" % i, ("10.0.0.%d" % (i + 1), 10022))
        self._spas.append(d)
        await self._event_handler(GeckoSpaEvent.LOCATING_DISCOVERED_SPA, spa_descriptor=d)
    if env["loc_raises"]:
        raise StubError("discover")


async def stub_connect(self):
    from geckolib.spa_events import GeckoSpaEvent
    env = ENV.get()
    for s in env["path"]:
        if s == "SET":
            self._is_connected = True
            continue
        await env["ctl"].point()
        if s == "RAISE":
            raise StubError("_connect")
        elif s == "OPEN":
            self._protocol = StubProtocol()
        elif s == "USE":
            self._protocol.get       # what `await self._protocol.get(..)` does first: AttributeError once disconnect() cleared it
        else:
            await self._event_handler(GeckoSpaEvent[s])


async def stub_get_watercare(self):
    from geckolib.spa_events import GeckoSpaEvent
    if not self.is_connected:
        return 0
    env = ENV.get()
    await env["ctl"].point()
    if env["wc_ok"]:
        return 1
    await self._event_handler(GeckoSpaEvent.ERROR_PROTOCOL_RETRY_COUNT_EXCEEDED)
    return None


class StubProtocol:
    def get(self, *a, **k):
        raise NotImplementedError

    def disconnect(self):
        pass


class StubWaterCare:
    def __init__(self):
        self.modes = []

    def change_watercare_mode(self, m):
        self.modes.append(m)


class StubFacade:
    def __init__(self, spa, taskman, **kw):
        if ENV.get()["facade_raises"]:
            raise StubError("facade")
        self._spa, self._taskman = spa, taskman
        self._water_care = StubWaterCare()
        self.disconnected = 0

    async def disconnect(self):
        self.disconnected += 1


class patched:
    """tests/test_spaman.py's pattern: discover / _connect replaced by scripts; additionally the facade class and async_get_watercare"""

    def __enter__(self):
        import geckolib.async_spa_manager as man
        from geckolib.async_locator import GeckoAsyncLocator
        from geckolib.async_spa import GeckoAsyncSpa
        real_init = GeckoAsyncSpa.__init__

        def spa_init(spa, *a, **k):
            real_init(spa, *a, **k)
            ENV.get()["rig"].last_spa = spa     # the object `_connect` will run on (the manager may drop its reference meanwhile)
        self.saved = [(GeckoAsyncSpa, "__init__", real_init),
                      (GeckoAsyncLocator, "discover", GeckoAsyncLocator.discover), (GeckoAsyncSpa, "_connect", GeckoAsyncSpa._connect),
                      (GeckoAsyncSpa, "async_get_watercare", GeckoAsyncSpa.async_get_watercare), (man, "GeckoAsyncFacade", man.GeckoAsyncFacade)]
        GeckoAsyncSpa.__init__ = spa_init
        GeckoAsyncLocator.discover = stub_discover
        GeckoAsyncSpa._connect = stub_connect
        GeckoAsyncSpa.async_get_watercare = stub_get_watercare
        man.GeckoAsyncFacade = StubFacade
        return self

    def __exit__(self, *a):
        for obj, name, val in self.saved:
            setattr(obj, name, val)


def parse_loc(o):
    return int(o[1:]), o[0] == "r"


def env_of(op):
    k = op.split(":")
    env = {"found": 0, "loc_raises": False, "path": [], "facade_raises": False, "wc_ok": True}
    if k[0] == "locate":
        env["found"], env["loc_raises"] = parse_loc(k[1])
    elif k[0] == "connect":
        env["path"], env["facade_raises"] = ([] if k[1] == "-" else k[1].split(",")), k[2] == "1"
    elif k[0] == "aconnect":
        env["found"], env["loc_raises"] = parse_loc(k[1])
        env["path"], env["facade_raises"] = ([] if k[2] == "-" else k[2].split(",")), k[3] == "1"
    elif k[0] == "wcerr":
        env["wc_ok"] = k[1] == "1"
    return env


class Rig:
    """one real GeckoAsyncSpaMan driven call by call; every delivery is sampled inside the client's handle_event"""

    def __init__(self, ident, name):
        from geckolib.async_spa_manager import GeckoAsyncSpaMan
        rig = self

        class Man(GeckoAsyncSpaMan):
            async def handle_event(self, event, **kwargs):
                await rig.on_delivery(event)

        kw = {}
        if ident:
            kw["spa_identifier"] = "SPA00"
        if name:
            kw["spa_name"] = "Spa 0"
        self.man = Man("c08-client", **kw)
        self.last_spa = None      # the most recently constructed GeckoAsyncSpa
        self.pool = []            # parked tasks: (task, ctl, record)
        self.cur = None           # record of the running input
        self.facades = {}         # id -> {"ready": n, "teardown": n}  (direct monitor)
        self.keep = []            # keep facade objects alive so ids stay unique
        self.problems = []        # (kind, detail)

    # ---- sampling
    def text(self):
        s = self.man.status_sensor
        return "-" if s is None else str(s.state).replace(" ", "_")

    def state(self):
        m = self.man
        spa = m._spa
        return {"state": m.spa_state.name, "facade": m.facade is not None, "spa": spa is not None,
                "conn": bool(spa is not None and spa.is_connected), "proto": bool(self.last_spa is not None and self.last_spa._protocol is not None),
                "desc": m.spa_descriptors is not None,
                "sensor": m.status_sensor is not None, "radio": m.radio_sensor is not None, "chan": m.channel_sensor is not None,
                "ident": m._spa_identifier is not None, "name": m._spa_name is not None, "text": self.text(),
                "mon": tuple(sorted(self.facades.get(getattr(self, "last_facade", None), {}).items()))}

    def show_state(self, outcome):
        s = self.state()
        b = lambda x: "1" if x else "0"  # noqa
        return (f"S={s['state']} f{b(s['facade'])} s{b(s['spa'])} c{b(s['conn'])} p{b(s['proto'])} d{b(s['desc'])} n{b(s['sensor'])} r{b(s['radio'])} "
                f"h{b(s['chan'])} t={s['text']}|O={outcome}|P={len(self.pool)}")

    async def on_delivery(self, event):
        from geckolib.spa_state import GeckoSpaState
        m = self.man
        env = ENV.get()
        rec = env["rec"]
        fnone = m.facade is None
        self.cur["deliveries"].append(f"{event.name},{m.spa_state.name},{'1' if fnone else '0'},{self.text()}")
        rec["events"].append(event.name)
        # ---------------- direct monitors on the implementation (no model involved)
        if m.status_sensor is not None and m.status_sensor.state != GeckoSpaState.to_string(m.spa_state):
            self.problems.append(("status-text-differs-from-state", f"{event.name}: text {m.status_sensor.state!r} state {m.spa_state.name}"))
        if event.name == "CLIENT_FACADE_IS_READY":
            if fnone or m.spa_state.name != "CONNECTED":
                self.problems.append(("ready-without-connected-facade", f"state {m.spa_state.name} facade None={fnone}"))
            else:
                f = self.facades.setdefault(id(m.facade), {"ready": 0, "teardown": 0})
                self.keep.append(m.facade)
                f["ready"] += 1
                self.last_facade = id(m.facade)
                if f["ready"] > 1:
                    self.problems.append(("ready-twice-for-one-facade", ""))
            rec["ready"] = True
        if event.name == "CLIENT_FACADE_TEARDOWN":
            fid = id(m.facade) if not fnone else getattr(self, "last_facade", None)
            f = self.facades.get(fid)
            if f is None or f["ready"] < 1 or f["teardown"] >= f["ready"]:
                self.problems.append(("teardown-not-bracketed", f"facade record {f}"))
            if f is not None:
                f["teardown"] += 1
            if fnone:
                self.problems.append(("teardown-without-facade", f"delivered (CLIENT_FACADE_TEARDOWN, {m.spa_state.name}, facade=None)"))
        await env["ctl"].point()

    # ---- running
    async def _call(self, op):
        from geckolib.spa_events import GeckoSpaEvent as E
        from geckolib.async_spa_descriptor import GeckoAsyncSpaDescriptor
        m = self.man
        k = op.split(":")
        if k[0] == "enter":
            await m._handle_event(E.SPA_MAN_ENTER)
        elif k[0] == "exit":
            await m._handle_event(E.SPA_MAN_EXIT, exc_info=None)
        elif k[0] == "reset":
            await m.async_reset()
        elif k[0] == "locate":
            await m.async_locate_spas()
        elif k[0] == "connect":
            await m.async_connect_to_spa(GeckoAsyncSpaDescriptor(b"SPA00", "Spa 0", ("10.0.0.1", 10022)))
        elif k[0] == "aconnect":
            await m.async_connect("SPA00", None)
        elif k[0] == "ev":
            await m._handle_event(E[k[1]])
        elif k[0] == "pingmiss":
            await m._handle_event(E.RUNNING_PING_MISSED, last_ping_at=None)
            if k[1] == "1":
                await m._handle_event(E.RUNNING_PING_NO_RESPONSE, last_ping_at=None)
        elif k[0] == "rferr":
            await m._handle_event(E.ERROR_RF_ERROR)
            if k[1] == "1":
                await m._handle_event(E.ERROR_TOO_MANY_RF_ERRORS)
        elif k[0] == "wcerr":
            await m._handle_event(E.RUNNING_SPA_WATER_CARE_ERROR)
        elif k[0] == "info":
            await m.async_set_spa_info(None, "SPA00" if k[1][0] == "1" else None, "Spa 0" if k[1][1] == "1" else None)
        else:
            raise ValueError(op)

    async def _task(self, op, env):
        ENV.set(env)
        rec, ctl = env["rec"], env["ctl"]
        try:
            await self._call(op)
            rec["outcome"] = "done"
        except asyncio.CancelledError:
            rec["outcome"] = "cancelled"
            raise
        except BaseException as e:  # noqa - an exception of the implementation is an observation
            rec["outcome"] = "raised"
            rec["exc"] = f"{type(e).__name__}: {e}"[:120]
        if not ctl.settled.done():
            ctl.settled.set_result("finished")

    def _check_call_end(self, rec):
        """per-call monitors, evaluated when a call returns or raises"""
        ev = rec["events"]
        for st, fi in (("LOCATING_STARTED", "LOCATING_FINISHED"), ("CONNECTION_STARTED", "CONNECTION_FINISHED")):
            depth = 0
            for e in ev:
                if e == st:
                    if depth:
                        self.problems.append(("phase-nested", st))
                    depth = 1
                elif e == fi:
                    depth = 0
            if depth:
                self.problems.append(("phase-not-closed", f"{st} without {fi} in a call that {rec['outcome']}"))
        if not rec["interleaved"]:
            post = self.man.spa_state.name
            entered = rec["pre_state"] != "CONNECTED" and post == "CONNECTED"
            if entered != rec.get("ready", False):
                self.problems.append(("ready-iff-enter-connected", f"pre {rec['pre_state']} post {post} ready delivered {rec.get('ready', False)}"))
            # the terminal errors of a connection (the state table's "needs attention" row), stated here independently of the model
            if rec["op"] in ("rferr:1", "ev:ERROR_TOO_MANY_RF_ERRORS", "ev:ERROR_PROTOCOL_RETRY_COUNT_EXCEEDED", "ev:CONNECTION_PROTOCOL_RETRY_COUNT_EXCEEDED") \
                    and rec["outcome"] == "done" and rec.get("pre_spa") and self.man._spa is not None and post != "ERROR_NEEDS_ATTENTION":
                self.problems.append(("terminal-error-not-flagged", f"{rec['op']}: pre {rec['pre_state']} post {post}"))
            if rec["op"] == "reset" or rec["op"].startswith("info:"):
                s = self.state()
                if rec["outcome"] != "done" or s["state"] != "IDLE" or s["facade"] or s["spa"] or s["desc"]:
                    self.problems.append(("reset-does-not-land-idle", f"{rec['outcome']} {s}"))

    def _check_rest(self):
        from geckolib.spa_state import GeckoSpaState
        s = self.state()
        if self.man.status_sensor is not None and not self.pool and self.man.status_sensor.state != GeckoSpaState.to_string(self.man.spa_state):
            STATS["status_text_stale_at_rest"] += 1
            STATS.setdefault("status_text_stale_example", f"state {s['state']} text {self.man.status_sensor.state!r} after {self.cur.get('op')}")
        STATS["rest_samples"] += 1
        if s["state"] == "CONNECTED" and not (s["facade"] and s["spa"] and s["conn"] and self.man._spa._protocol is not None):
            self.problems.append(("connected-without-live-facade", f"{s}"))

    async def _settle(self, task, ctl, rec):
        how = await ctl.settled
        if how == "parked" and not task.done():
            self.pool.append((task, ctl, rec))
            for _, _, r in self.pool:
                r["interleaved"] = True
            out = "parked"
        else:
            await asyncio.sleep(0)
            out = rec.get("outcome", "raised")
            self._check_call_end(rec)
        self._check_rest()
        return out

    async def start(self, op, stop):
        self.cur = {"deliveries": [], "op": short(op)}
        ctl = Ctl(stop)
        rec = {"op": op, "events": [], "pre_state": self.man.spa_state.name, "interleaved": bool(self.pool), "pre_spa": self.man._spa is not None}
        env = env_of(op)
        env.update(ctl=ctl, rec=rec, rig=self)
        task = asyncio.ensure_future(self._task(op, env))
        out = await self._settle(task, ctl, rec)
        return "D=" + ";".join(self.cur["deliveries"]) + "|" + self.show_state(out)

    async def resume(self, t, stop):
        self.cur = {"deliveries": []}
        if t >= len(self.pool):
            return "D=|" + self.show_state("noop")
        task, ctl, rec = self.pool.pop(t)
        ctl.settled = asyncio.get_running_loop().create_future()
        ctl.gate.set_result(stop)
        out = await self._settle(task, ctl, rec)
        return "D=" + ";".join(self.cur["deliveries"]) + "|" + self.show_state(out)

    def close(self):
        for task, _, _ in self.pool:
            task.cancel()


def fmt_stop(s):
    return "-" if s is None else str(s)


async def run_schedule(sched, ident, name):
    """sched: list of ('start', op, stop) | ('resume', t, stop).  Returns (op lines, impl answers, problems per step)"""
    rig = Rig(ident, name)
    lines, ans, probs = [f"new {int(ident)} {int(name)}"], [], []
    ans.append("D=|" + rig.show_state("done"))
    try:
        for i, st in enumerate(sched):
            n0 = len(rig.problems)
            try:
                if st[0] == "start":
                    lines.append(f"start {st[1]} {fmt_stop(st[2])}")
                    ans.append(await rig.start(st[1], st[2]))
                else:
                    lines.append(f"resume {st[1]} {fmt_stop(st[2])}")
                    ans.append(await rig.resume(st[1], st[2]))
            except Exception as e:  # noqa - harness-level trouble with a mutated implementation becomes an observation
                ans.append(f"harness-exception {type(e).__name__}: {e}"[:200])
                rig.problems.append(("implementation-broke-the-rig", f"{type(e).__name__}: {e}"[:200]))
            for p in rig.problems[n0:]:
                probs.append((i, p[0], p[1]))
    finally:
        rig.close()
    return lines, ans, probs, rig


def run_schedules(scheds, seed=0):
    """runs many schedules on one virtual loop (fresh manager each)"""
    async def body(loop):
        out = []
        with patched():
            for sched, ident, name in scheds:
                lines, ans, probs, _ = await run_schedule(sched, ident, name)
                out.append((lines, ans, probs))
        return out
    return vloop.run_virtual(body, seed=seed)


# ------------------------------------------------------------------------------------------------ generation
def sched_str(sched):
    return ";".join((f"{short(s[1])}" + ("" if s[2] is None else f"@{s[2]}")) if s[0] == "start" else f"resume{s[1]}" + ("" if s[2] is None else f"@{s[2]}")
                    for s in sched)


def parse_sched(txt):
    out = []
    for tok in txt.split(";"):
        stop = None
        if "@" in tok:
            tok, s = tok.rsplit("@", 1)
            stop = int(s)
        if tok.startswith("resume"):
            out.append(("resume", int(tok[6:]), stop))
        else:
            out.append(("start", expand(tok), stop))
    return out


async def explore_states(alpha, configs, max_states, depth_cap):
    """breadth-first over the sampled state of the REAL manager: from every new state every enabled single input.
    A state is re-reached by replaying its shortest history on a fresh manager."""
    seen, order, results = {}, [], []
    frontier = []
    for ident, name in configs:
        rig = Rig(ident, name)
        key = tuple(sorted(rig.state().items()))
        rig.close()
        if key not in seen:
            seen[key] = ([], ident, name)
            frontier.append(key)
    while frontier and len(seen) <= max_states:
        nxt = []
        for key in frontier:
            hist, ident, name = seen[key]
            if len(hist) >= depth_cap:
                continue
            for op in alpha:
                rig0 = dict(key)
                if not enabled(rig0, op):
                    continue
                sched = [("start", h, None) for h in hist] + [("start", op, None)]
                lines, ans, probs, rig = await run_schedule(sched, ident, name)
                results.append((sched, ident, name, lines, ans, probs))
                k2 = tuple(sorted(rig.state().items()))
                if k2 not in seen:
                    seen[k2] = (hist + [op], ident, name)
                    nxt.append(k2)
        frontier = nxt
    return results, seen


async def explore_pairs(alpha, seen, all_states, stops):
    """systematic two-call interleavings on the REAL manager: from each (representative) reachable state, every enabled
    non-phase input parked at its k-th suspension point (a client handler that is suspended), every enabled non-phase
    input run to completion meanwhile, then the parked call resumed to its end"""
    reps = {}
    for key, (hist, ident, name) in seen.items():
        d = dict(key)
        proj = key if all_states else (d["state"], d["facade"], d["spa"], d["conn"], d["desc"], d["proto"])
        if proj not in reps or len(hist) < len(reps[proj][1]):
            reps[proj] = (d, hist, ident, name)
    others = [a for a in alpha if not is_phase(a) and a not in ("enter", "exit")]
    results = []
    for proj, (d, hist, ident, name) in sorted(reps.items(), key=lambda kv: (len(kv[1][1]), str(kv[0]))):
        base = [("start", h, None) for h in hist]
        for op1 in others:
            if not enabled(d, op1):
                continue
            for k in stops:
                # does op1 park at its k-th point at all?
                lines, ans, probs, rig = await run_schedule(base + [("start", op1, k)], ident, name)
                if not ans[-1].endswith("|P=1"):
                    break
                d1 = rig.state()
                for op2 in others:
                    if not enabled(d1, op2):
                        continue
                    sched = base + [("start", op1, k), ("start", op2, None), ("resume", 0, None)]
                    lines, ans, probs, rig = await run_schedule(sched, ident, name)
                    results.append((sched, ident, name, lines, ans, probs))
    return results, len(reps)


async def random_run(rng, alpha, length, concurrent, ident, name):
    """one seeded schedule, generated online against the real manager's state (so that `enabled` is respected)"""
    rig = Rig(ident, name)
    sched, lines, ans, probs = [], [f"new {int(ident)} {int(name)}"], ["D=|" + rig.show_state("done")], []
    interrupts = [a for a in alpha if not is_phase(a) and a not in ("enter", "exit")]
    try:
        for _ in range(length):
            st = rig.state()
            n0 = len(rig.problems)
            phase_parked = any(is_phase(r["op"]) for _, _, r in rig.pool)
            if rig.pool and (rng.random() < 0.45 or len(rig.pool) >= 3):
                step = ("resume", rng.randrange(len(rig.pool)), rng.choice([None, None, 0, 1, 2]) if concurrent else None)
            else:
                cands = [a for a in (interrupts if (rig.pool and phase_parked) else alpha) if enabled(st, a)]
                if rig.pool and not phase_parked:
                    cands = [a for a in cands if not is_phase(a) or rng.random() < 0.3]
                op = rng.choice(cands)
                if is_phase(op) and rng.random() < 0.5:
                    op = rng.choice([a for a in cands if is_phase(a)])
                stop = rng.choice([None, 0, 1, 2, 3, 5, 8]) if (concurrent and rng.random() < 0.6) else None
                step = ("start", op, stop)
            sched.append(step)
            try:
                if step[0] == "start":
                    lines.append(f"start {step[1]} {fmt_stop(step[2])}")
                    ans.append(await rig.start(step[1], step[2]))
                else:
                    lines.append(f"resume {step[1]} {fmt_stop(step[2])}")
                    ans.append(await rig.resume(step[1], step[2]))
            except Exception as e:  # noqa
                ans.append(f"harness-exception {type(e).__name__}: {e}"[:200])
                rig.problems.append(("implementation-broke-the-rig", f"{type(e).__name__}: {e}"[:200]))
            for p in rig.problems[n0:]:
                probs.append((len(sched) - 1, p[0], p[1]))
        # let every parked task finish (phases must close)
        while rig.pool:
            n0 = len(rig.problems)
            sched.append(("resume", 0, None))
            lines.append("resume 0 -")
            ans.append(await rig.resume(0, None))
            for p in rig.problems[n0:]:
                probs.append((len(sched) - 1, p[0], p[1]))
    finally:
        rig.close()
    return sched, lines, ans, probs


# ------------------------------------------------------------------------------------------------ the check
def report(ctx, sched, ident, name, probs, shortest, rank):
    """turn monitor failures into violations with stable keys: per (kind, class of the failing input) the FIRST schedule in the
    deterministic breadth-first order of part A (rank 0), else the shortest seeded schedule (rank 1)"""
    for i, kind, detail in probs:
        prefix = sched[:i + 1]
        last = prefix[-1]
        cls = (last[1].split(":")[0] if last[0] == "start" else "resume")
        txt = sched_str(prefix)
        r = rank + (len(prefix), txt)
        cur = shortest.get((kind, cls))
        if cur is None or r < cur[0]:
            shortest[(kind, cls)] = (r, txt, ident, name, detail)


EXPECT = {"teardown-without-facade": "every CLIENT_FACADE_TEARDOWN is delivered while manager.facade is not None",
          "teardown-not-bracketed": "at most one teardown per facade-ready, and only after it",
          "ready-twice-for-one-facade": "facade-ready at most once per facade",
          "ready-without-connected-facade": "facade-ready delivered in CONNECTED with a facade",
          "ready-iff-enter-connected": "facade-ready announced exactly when CONNECTED is entered",
          "phase-not-closed": "every LOCATING/CONNECTION_STARTED is followed by its FINISHED in the same call",
          "phase-nested": "phases do not nest",
          "reset-does-not-land-idle": "reset lands in IDLE with no facade, spa or descriptors",
          "connected-without-live-facade": "CONNECTED only with a live facade on a connected spa",
          "status-text-differs-from-state": "status sensor text is to_string(spa_state) at every delivery",
          "implementation-broke-the-rig": "the manager can be driven through its public calls"}


def explore_handler_faults():
    """the client's own event handler FAILS (raises) or the calling task is CANCELLED while one particular delivery of a locate /
    connect call is being handled - every delivery of the call in turn, the opening *_STARTED event included. Whatever happens to the
    call: every phase whose started event was delivered is closed by its finished event. Returns the list of problems."""
    out = []

    async def body(loop):
        try:
            ok, fails, raises, rt = connect_paths()
            ops = ["locate:f1", "locate:f0", f"connect:{path_str(ok)}:0", f"aconnect:f1:{path_str(ok)}:0"] + [f"connect:{path_str(p)}:0" for p in (fails[:1] + raises[:1])]
        except Exception:  # noqa - the table of this tree could not be translated: the calls of the audited commit
            okp = [a for a in FALLBACK_ALPHABET if a.startswith("connect:") and "SPA_COMPLETE" in a][0].split(":")[1]
            ops = ["locate:f1", "locate:f0", f"connect:{okp}:0", f"aconnect:f1:{okp}:0", "connect:OPEN,USE,CONNECTION_PROTOCOL_RETRY_COUNT_EXCEEDED:0", "connect:RAISE:0"]
        with patched():
            for op in ops:
                for how in ("raise", "cancel"):
                    for k in range(0, 14):
                        rig = Rig(True, True)
                        await rig.start("enter", None)
                        rig.cur = {"deliveries": [], "op": short(op)}
                        ctl = Ctl(None if how == "raise" else k, fault_at=k if how == "raise" else None)
                        rec = {"op": op, "events": [], "pre_state": rig.man.spa_state.name, "interleaved": False, "pre_spa": rig.man._spa is not None}
                        env = env_of(op)
                        env.update(ctl=ctl, rec=rec, rig=rig)
                        task = asyncio.ensure_future(rig._task(op, env))
                        how_settled = await ctl.settled
                        if how == "cancel":
                            if how_settled != "parked":
                                break               # the call has fewer deliveries than k
                            ctl.budget = None       # (the handlers of the events delivered on the way out return at once)
                            task.cancel()
                        try:
                            await task
                        except BaseException:  # noqa
                            pass
                        await asyncio.sleep(0)
                        if how == "raise" and ctl.points <= k:
                            break                   # the call has fewer deliveries than k
                        n0 = len(rig.problems)
                        rec["interleaved"] = True    # (only the bracket monitors are meant here)
                        rig._check_call_end(rec)
                        for pr in rig.problems[n0:]:
                            if pr[0].startswith("phase-"):
                                out.append({"call": short(op), "fault": how, "at delivery": k, "delivered": rec["events"][:k + 1][-3:], "problem": list(pr),
                                            "state afterwards": rig.man.spa_state.name})
                        rig.close()
    vloop.run_virtual(body)
    return out


def explore_events_inside_connect():
    """a terminal error of the connection (too many RF errors, retry budget exhausted) reported from another task while the connect call is
    suspended in the client's handler of its k-th delivery - every delivery in turn: what the manager shows once the call has completed.
    Returns [(k, delivery the call was parked in, intruder, state afterwards, ready announced after the error)]."""
    out = []

    async def body(loop):
        try:
            ok, _f, _r, _rt = connect_paths()
            okp = path_str(ok)
        except Exception:  # noqa
            okp = [a for a in FALLBACK_ALPHABET if a.startswith("connect:") and "SPA_COMPLETE" in a][0].split(":")[1]
        with patched():
            for intruder in ("rferr:1", "ev:ERROR_PROTOCOL_RETRY_COUNT_EXCEEDED"):
                for k in range(0, 14):
                    rig = Rig(True, True)
                    await rig.start("enter", None)
                    await rig.start("locate:f1", None)
                    r = await rig.start(f"connect:{okp}:0", k)
                    if not r.endswith("|P=1"):
                        rig.close()
                        break
                    parked_in = rig.cur["deliveries"][-1].split(",")[0] if rig.cur["deliveries"] else "-"
                    had_spa = rig.man._spa is not None
                    await rig.start(intruder, None)
                    mid = rig.man.spa_state.name
                    n_ready = sum(f["ready"] for f in rig.facades.values())
                    await rig.resume(0, None)
                    end = rig.man.spa_state.name
                    out.append({"parked in": parked_in, "k": k, "error reported": intruder, "spa existed": had_spa, "state after the error": mid,
                                "state after the call completed": end, "ready announced afterwards": sum(f["ready"] for f in rig.facades.values()) - n_ready})
                    rig.close()
    vloop.run_virtual(body)
    return out


def explore_reset_in_ready_handler():
    """REAL stack: the sequence pump is suspended inside the client's handler of CLIENT_FACADE_IS_READY (delivered while the
    connect phase is being closed) when a reset arrives from ANOTHER task (a Reconnect press); the handler is then released.
    Every started phase must still be closed by its finished event, and the manager must go on to connect again."""
    import fakenet
    from geckolib import GeckoAsyncSpaMan
    from props import c10
    res = {"events": []}

    async def body(loop):
        gate = asyncio.Event()
        held = {"n": 0}

        class Man(GeckoAsyncSpaMan):
            async def handle_event(self, event, **kw):
                name = str(event).split(".")[-1]
                res["events"].append(name)
                if name == "CLIENT_FACADE_IS_READY" and held["n"] == 0:
                    held["n"] = 1
                    await gate.wait()
        sim = fakenet.make_sim(c10.SNAP)
        net = fakenet.Network(loop, sim, phases=[], seed=1)
        loop.network = net
        m = Man("uuid-1", spa_identifier=c10.IDENT, spa_address="10.0.0.9", spa_name="Spa")
        await m.__aenter__()
        pump = [t for t in asyncio.all_tasks() if t.get_name() == "SPAMAN:Sequence Pump"][0]
        for _ in range(400):
            await asyncio.sleep(0.05)
            if held["n"]:
                break
        res["held"] = bool(held["n"])
        r = asyncio.ensure_future(m.async_reset())
        await asyncio.sleep(0.5)
        gate.set()
        try:
            await asyncio.wait_for(r, 20)
            res["reset"] = "returned"
        except Exception as e:  # noqa
            res["reset"] = f"{type(e).__name__}"
        for _ in range(800):
            await asyncio.sleep(0.05)
            if m.facade is not None and str(m.spa_state).endswith("CONNECTED"):
                break
        res["pump_alive"] = not pump.done()
        res["final"] = str(m.spa_state).split(".")[-1]
        res["facade"] = m.facade is not None
        await m.__aexit__(None, None, None)
    vloop.run_virtual(body, stable=True)
    ev = res["events"]
    res["brackets"] = {"LOCATING": (ev.count("LOCATING_STARTED"), ev.count("LOCATING_FINISHED")),
                       "CONNECTION": (ev.count("CONNECTION_STARTED"), ev.count("CONNECTION_FINISHED"))}
    return res


def explore_reset_with_slow_client(slow):
    """REAL stack: the client's handlers of the disconnection events (facade teardown, spa disconnected) are SLOW - longer than a
    discovery takes - when the user resets: the sequence pump, another task, runs a whole discovery inside the reset. Where does the
    reset land, and does the manager connect again?"""
    import fakenet
    from geckolib import GeckoAsyncSpaMan
    from props import c10
    res = {"events": []}

    async def body(loop):
        class Man(GeckoAsyncSpaMan):
            async def handle_event(self, event, **kw):
                name = str(event).split(".")[-1]
                res["events"].append(name)
                if "TEARDOWN" in name or "DISCONNECTED" in name:
                    await asyncio.sleep(slow)
        sim = fakenet.make_sim(c10.SNAP)
        loop.network = fakenet.Network(loop, sim, phases=[], seed=1)
        m = Man("uuid-1", spa_identifier=c10.IDENT, spa_address="10.0.0.9", spa_name="Spa")
        await m.__aenter__()
        for _ in range(800):
            await asyncio.sleep(0.05)
            if m.facade is not None and str(m.spa_state).endswith("CONNECTED"):
                break
        res["connected_first"] = m.facade is not None
        n0 = len(res["events"])
        await m.async_reset()
        res["landed"] = {"state": str(m.spa_state).split(".")[-1], "facade": m.facade is not None, "spa": m._spa is not None,
                         "descriptors": m._spa_descriptors is not None}
        res["during_reset"] = res["events"][n0:]
        for _ in range(1200):
            await asyncio.sleep(0.05)
            if m.facade is not None and str(m.spa_state).endswith("CONNECTED"):
                break
        res["final"] = str(m.spa_state).split(".")[-1]
        res["facade"] = m.facade is not None
        await m.__aexit__(None, None, None)
    vloop.run_virtual(body, stable=True)
    return res


REF_TABLES = ("LifecycleEnums", "LifecycleTable", "LifecycleReach")


def use_reference_tables(st):
    """the lifecycle table IS the specification of this property. When the table of the tree under test cannot be generated, or differs from
    the one pinned at the audited commit (pins/c08-lifecycle-ref), the search for a failing input goes on against the PINNED table: the
    model driver is run on it and every disagreement with the real manager is a history on which the manager no longer follows the table.
    Returns "untranslatable" | "differs" | None (the generated table is the pinned one)."""
    import shutil
    from common import VERIF
    ref = VERIF / "pins" / "c08-lifecycle-ref"
    if not ref.is_dir():
        return None
    why = None
    for k in REF_TABLES:
        if st.get(k) != "ok":
            why = "untranslatable"
        elif why is None and (translate.GEN / f"{k}.lean").read_text() != (ref / f"{k}.lean").read_text():
            why = "differs"
    if why:
        for k in REF_TABLES:
            shutil.copy(ref / f"{k}.lean", translate.GEN / f"{k}.lean")
    return why


def run(ctx):
    st = translate.run(["LifecycleEnums", "LifecycleTable", "LifecycleReach", "Skeletons"])
    ctx.cov["translator"] = st
    for k, v in st.items():
        if v != "ok":
            ctx.obligation_broken(f"translate:{k}", v)
    ctx.lean_obligations("GeckoModel.Properties.C08")
    ref_mode = use_reference_tables(st)
    if ref_mode == "differs":
        ctx.obligation_broken("pin:lifecycle-table", "the lifecycle table generated from this tree differs from the one pinned at the audited commit")
    ctx.cov["searching_against_the_pinned_table"] = ref_mode
    try:
        alpha = alphabet()
    except Exception as e:  # noqa - untranslatable table: fall back to the alphabet of the audited commit
        alpha = FALLBACK_ALPHABET
        ctx.notes.append(f"alphabet taken from the audited commit ({type(e).__name__})")
    rng = ctx.rng
    STATS.clear()
    STATS.update({"status_text_stale_at_rest": 0, "rest_samples": 0})
    all_lines, all_ans, where = [], [], []
    shortest = {}
    configs = [(True, False), (True, True), (False, False), (False, True)]

    # ---- A: every enabled single input from every state of the real manager reachable without interleaving
    async def body_a(loop):
        with patched():
            return await explore_states(alpha, configs, 600, 6 if ctx.quick else 9)
    results, seen = vloop.run_virtual(body_a, seed=ctx.seed)
    for n_a, (sched, ident, name, lines, ans, probs) in enumerate(results):
        where.append((len(all_lines), sched, ident, name))
        all_lines += lines
        all_ans += ans
        report(ctx, sched, ident, name, probs, shortest, (0, n_a))
        ctx.count("evaluations")
        ctx.hist("inputs", sched[-1][1].split(":")[0])
    ctx.cov["real_manager_states_reached"] = len(seen)
    ctx.cov["single_input_runs"] = len(results)

    # ---- B: seeded sequences, sequential and with calls parked at deliveries / awaits while others run
    nseq = 600 if ctx.quick else 8000
    maxlen = 6 if ctx.quick else 9
    conc_shapes = set()

    async def body_b(loop):
        out = []
        with patched():
            for j in range(nseq):
                ident, name = configs[j % 4] if j % 3 == 0 else (True, rng.random() < 0.5)
                out.append((ident, name) + tuple(await random_run(rng, alpha, rng.randrange(2, maxlen + 1), j % 4 != 0, ident, name)))
        return out
    for ident, name, sched, lines, ans, probs in vloop.run_virtual(body_b, seed=ctx.seed, shuffle=True):
        where.append((len(all_lines), sched, ident, name))
        all_lines += lines
        all_ans += ans
        report(ctx, sched, ident, name, probs, shortest, (1, 0))
        ctx.count("evaluations", len(sched))
        parked = sum(1 for a in ans if a.endswith("|O=parked|P=1") or "|O=parked|" in a)
        ctx.hist("sequence_kind", "interleaved" if parked else "sequential")
        if parked:
            conc_shapes.add(tuple((s[0], s[1].split(":")[0] if s[0] == "start" else "", s[2] is not None) for s in sched))
    ctx.cov["seeded_sequences"] = nseq
    ctx.cov["distinct_interleaving_shapes"] = len(conc_shapes)

    # ---- C: systematic two-call interleavings (one call suspended in the client's handler while another runs to completion)
    async def body_c(loop):
        with patched():
            return await explore_pairs(alpha, seen, not ctx.quick, (0, 1) if ctx.quick else (0, 1, 2, 3))
    pair_results, nreps = vloop.run_virtual(body_c, seed=ctx.seed)
    for n_c, (sched, ident, name, lines, ans, probs) in enumerate(pair_results):
        where.append((len(all_lines), sched, ident, name))
        all_lines += lines
        all_ans += ans
        report(ctx, sched, ident, name, probs, shortest, (0, 10 ** 6 + n_c))
        ctx.count("evaluations", 3)
        conc_shapes.add(tuple((s[0], s[1].split(":")[0] if s[0] == "start" else "", s[2] is not None) for s in sched))
    # ---- C2: an error of the connection (or a reset) reported from another task while the connect call is suspended in the client's handler
    #      of its k-th delivery - EVERY delivery of the call in turn, the last ones (connection complete, facade ready) included
    async def body_c2(loop):
        out = []
        try:
            okp = path_str(connect_paths()[0])
        except Exception:  # noqa
            okp = [a for a in FALLBACK_ALPHABET if a.startswith("connect:") and "SPA_COMPLETE" in a][0].split(":")[1]
        with patched():
            # (a RESET is not in this list: the stubbed connect - like the lifecycle model - has a step between the last use of the protocol and
            #  the mark "connected"; a reset parked there (`enter;locate:f1;connect:ok:0@16;reset;resume0`) ends CONNECTED without a spa on the
            #  stub. The real `_connect` has no suspension point there: C08.connected_mark_follows_the_last_exchange_without_suspension.
            #  Resets at the real await points of the real `_connect` are C10's crash-point sweep and the D blocks below.)
            for intruder in ("rferr:1", "ev:ERROR_PROTOCOL_RETRY_COUNT_EXCEEDED", "pingmiss:1"):
                for k in range(0, 24):
                    sched = [("start", "enter", None), ("start", "locate:f1", None), ("start", f"connect:{okp}:0", k), ("start", intruder, None), ("resume", 0, None)]
                    lines, ans, probs, _ = await run_schedule(sched, True, True)
                    if not ans[3].endswith("|P=1"):
                        break              # the call has fewer deliveries than k: it was not parked (nothing to resume)
                    out.append((sched, True, True, lines, ans, probs))
        return out
    try:
        inside = vloop.run_virtual(body_c2, seed=ctx.seed)
    except Exception as e:  # noqa
        inside = []
        ctx.obligation_broken("harness:events-inside-connect", f"{type(e).__name__}: {e}")
    for n_c, (sched, ident, name, lines, ans, probs) in enumerate(inside):
        where.append((len(all_lines), sched, ident, name))
        all_lines += lines
        all_ans += ans
        report(ctx, sched, ident, name, probs, shortest, (0, 2 * 10 ** 6 + n_c))
        ctx.count("evaluations", 5)
    ctx.cov["events_inside_a_parked_connect"] = len(inside)
    ctx.cov["pair_interleavings"] = len(pair_results)
    ctx.cov["pair_interleaving_start_states"] = nreps

    # ---- D: resets in error states on the REAL stack (real spa, real tasks): the manager's own reset runs INSIDE the spa's ping-loop
    #      task, which disconnect() cancels - with a client handler that really suspends it must still land in IDLE with nothing left
    try:
        from props import c10
        for sc in c10.ERROR_SCENARIOS:
            for origin in ("self", "user"):
                e = c10.explore_error(sc, origin, True)
                ctx.count("evaluations")
                ctx.hist("real_stack_error_resets", f"{sc}:{origin}:{','.join(e.get('reset_outcomes', ['none'])[:2])}")
                if origin == "self" and not e.get("reset_outcomes"):
                    # the audited lifecycle table: an answered ping in ERROR_PING_MISSED / ERROR_RF_FAULT / ERROR_NEEDS_ATTENTION resets
                    ctx.violation(f"no-reset-on-answered-ping:real-stack:{sc}", {"kind": "real-stack-reset", "scenario": sc, "origin": origin},
                                  "an answered ping in an error state resets the manager (lifecycle table of the audited commit)",
                                  {"resets_issued": 0, "state_at_the_end_of_a_long_healthy_period": e.get("state_at_end")})
                for outc, landed, frm in zip(e.get("reset_outcomes", []), e.get("reset_landed", []), e.get("reset_from", [])):
                    good = outc == "returned" and landed == {"state": "IDLE", "facade": False, "spa": False, "descriptors": False}
                    if not good:
                        ctx.violation(f"reset-not-in-idle:real-stack:{sc}:{origin}", {"kind": "real-stack-reset", "scenario": sc, "origin": origin},
                                      "a reset always lands in IDLE with no facade, spa or descriptors",
                                      {"outcome": outc, "landed": landed, "issued_from_task": frm})
                        break
    except Exception as e:  # noqa
        ctx.obligation_broken("harness:real-stack-resets", f"{type(e).__name__}: {e}")

    # ---- a client handler that fails, or a caller that is cancelled, at each delivery of a locate / connect call
    try:
        hf = explore_handler_faults()
        ctx.count("evaluations", 6 * 2 * 8)
        ctx.cov["handler_faults_problems"] = len(hf)
        if hf:
            ctx.violation("phase-not-closed:handler-fault:" + hf[0]["fault"], {"kind": "handler-fault"},
                          "every locate / connect phase whose started event was delivered is closed by its finished event, also when the client's handler of an event "
                          "of the phase fails or the caller is cancelled there", hf[:3])
    except Exception as e:  # noqa
        ctx.obligation_broken("harness:handler-faults", f"{type(e).__name__}: {e}")

    # ---- D2: a reset from another task while the pump is suspended in the client's facade-ready handler (real stack)
    try:
        rr = explore_reset_in_ready_handler()
        ctx.count("evaluations")
        ctx.cov["reset_in_ready_handler"] = {k: rr.get(k) for k in ("held", "reset", "pump_alive", "final", "facade", "brackets")}
        bad = [k for k, (a, b) in rr["brackets"].items() if a != b]
        if rr.get("held") and (bad or not rr["pump_alive"] or rr["final"] != "CONNECTED" or not rr["facade"]):
            ctx.violation("phase-not-closed:real-stack:reset-in-ready-handler" if bad else "no-reconnect:real-stack:reset-in-ready-handler",
                          {"kind": "reset-in-ready-handler"},
                          "every started locate / connect phase is closed by its finished event, and the manager connects again after the reset",
                          {"started_vs_finished": rr["brackets"], "pump_alive": rr["pump_alive"], "final_state": rr["final"], "facade": rr["facade"]})
    except Exception as e:  # noqa
        ctx.obligation_broken("harness:reset-in-ready-handler", f"{type(e).__name__}: {e}")

    # ---- D3: a user reset with a client whose disconnection handlers are slow (the pump runs a discovery inside the reset)
    for slow in (0.3, 1.0):
        try:
            rs = explore_reset_with_slow_client(slow)
            ctx.count("evaluations")
            ctx.cov[f"reset_with_slow_client_{slow}"] = {k: rs.get(k) for k in ("landed", "final", "facade")} | {"discovery_inside": "LOCATING_FINISHED" in rs.get("during_reset", [])}
            if rs.get("connected_first") and (rs["landed"] != {"state": "IDLE", "facade": False, "spa": False, "descriptors": False} or rs["final"] != "CONNECTED"):
                ctx.violation("reset-does-not-land-idle:real-stack:slow-client", {"kind": "reset-with-slow-client", "handler_takes_s": slow},
                              "the reset lands in IDLE with no facade, spa or descriptors, and the manager connects again",
                              {"landed": rs["landed"], "events_during_reset": rs["during_reset"][:8], "final_state": rs["final"]})
        except Exception as e:  # noqa
            ctx.obligation_broken("harness:reset-with-slow-client", f"{type(e).__name__}: {e}")

    # ---- correspondence with the Lean model
    try:
        model = Driver("Driver/C08.lean").run(all_lines)
    except DriverFailure as e:
        ctx.obligation_broken("driver:C08", e)
        model = None
    if model is not None:
        nd = 0
        starts = [w[0] for w in where]
        import bisect
        for i, (mo, im) in enumerate(zip(model, all_ans)):
            if mo != im:
                nd += 1
                if nd <= 3:
                    w = where[bisect.bisect_right(starts, i) - 1]
                    if ref_mode:
                        if nd == 1:
                            ctx.violation("differs-from-the-audited-lifecycle-table", {"kind": "differs-from-the-audited-lifecycle-table", "schedule": sched_str(w[1][:i - w[0]]),
                                                                                         "ident": w[2], "name": w[3]},
                                          {"the pinned table gives (deliveries | state, facade, spa ... | outcome)": mo}, {"the real manager": im, "step": all_lines[i]})
                    else:
                        ctx.obligation_broken("correspondence:lifecycle-model-vs-real-manager",
                                              {"schedule": sched_str(w[1][:i - w[0]]), "ident": w[2], "name": w[3], "op": all_lines[i], "model": mo, "impl": im})
        ctx.cov["correspondence_ops"] = len(all_lines)
        ctx.cov["correspondence_disagreements"] = nd
    for (kind, cls), (_, txt, ident, name, detail) in sorted(shortest.items()):
        ctx.violation(f"{kind}:{txt}", {"schedule": txt, "ident": ident, "name": name, "kind": kind}, EXPECT.get(kind, kind), detail)
    if where:
        ctx.sample({"schedule": sched_str(where[0][1]), "answers": all_ans[1:3]})
        ctx.sample({"schedule": sched_str(where[-1][1]), "answers": all_ans[where[-1][0] + 1: where[-1][0] + 3]})
    try:
        import re
        rp = re.search(r"resetProg := \[(.*?)\]\n  disconnectProg", (translate.GEN / "LifecycleTable.lean").read_text(), re.S).group(1)
        ctx.cov["table_has_D7_shape"] = 0 <= rp.find(".clearFacade") < rp.find(".spaDisconnect")
    except Exception:  # noqa
        ctx.cov["table_has_D7_shape"] = "unknown"
    ctx.cov["observations"] = dict(STATS)
    ctx.cov["distinct_nontrivial"] = len(seen) + len(conc_shapes)
    ctx.cov["rule"] = ("A: breadth-first over the sampled state of the real manager (state, facade, spa, connected, descriptors, sensors, identifier, name, "
                       "status text): from every state reached every enabled input of the alphabet (all connect paths, raises, events...), each run on a "
                       "fresh manager by replaying the shortest history; B: seeded schedules of 2..6 (thorough 2..9) inputs, three quarters of them with "
                       "calls parked at a delivery or await while other calls run and resumed in random order; C: from one representative (thorough: every) reached "
                       "state per (state, facade, spa, connected, descriptors, protocol), every enabled non-phase input parked at its 1st/2nd (thorough: 1st..4th) suspension "
                       "point x every enabled non-phase input run to completion meanwhile, then the parked call resumed. evaluations = inputs executed; distinct "
                       "non-trivial = distinct manager states reached + distinct interleaving shapes (sequence of input kinds and park decisions)")
    ctx.assumptions += ["locate/connect issued one at a time as the sequence pump does; run-time events only while a spa object exists",
                        "locator.discover, GeckoAsyncSpa._connect, async_get_watercare and the facade class are scripted stubs (tests/test_spaman.py pattern)"]


def replay(inp):
    if inp.get("kind") == "differs-from-the-audited-lifecycle-table":
        st = translate.run(["LifecycleEnums", "LifecycleTable", "LifecycleReach", "Skeletons"])
        use_reference_tables(st)
        try:
            alphabet()
        except Exception:  # noqa
            ALIAS.setdefault("ok", FALLBACK_ALPHABET[5].split(":")[1])
        sched = parse_sched(inp["schedule"])

        async def body(loop):
            with patched():
                return await run_schedule(sched, inp.get("ident", True), inp.get("name", False))
        lines, ans, probs, _ = vloop.run_virtual(body, seed=0)
        try:
            model = Driver("Driver/C08.lean").run(lines)
        except DriverFailure as e:
            return True, f"the model of the pinned table could not be run: {e}"[:300]
        bad = [(l, m, a) for l, m, a in zip(lines, model, ans) if m != a]
        return bool(bad), ({"step": bad[0][0], "pinned table": bad[0][1], "real manager": bad[0][2]} if bad else "the manager follows the pinned table on this schedule")
    if inp.get("kind") == "handler-fault":
        hf = explore_handler_faults()
        return bool(hf), hf[:3] or "every started phase is closed"
    if inp.get("kind") == "reset-in-ready-handler":
        rr = explore_reset_in_ready_handler()
        bad = [k for k, (a, b) in rr["brackets"].items() if a != b]
        return bool(bad or not rr["pump_alive"] or rr["final"] != "CONNECTED"), {k: rr.get(k) for k in ("brackets", "pump_alive", "final")}
    if inp.get("kind") == "reset-with-slow-client":
        rs = explore_reset_with_slow_client(inp["handler_takes_s"])
        return (rs["landed"] != {"state": "IDLE", "facade": False, "spa": False, "descriptors": False} or rs["final"] != "CONNECTED"), {"landed": rs["landed"], "final": rs["final"]}
    if inp.get("kind") == "real-stack-reset":
        from props import c10
        e = c10.explore_error(inp["scenario"], inp["origin"], True)
        bad = [(o, l) for o, l in zip(e.get("reset_outcomes", []), e.get("reset_landed", []))
               if not (o == "returned" and l == {"state": "IDLE", "facade": False, "spa": False, "descriptors": False})]
        return bool(bad), bad[:2] or "every reset landed in IDLE with nothing left"
    try:
        alphabet()      # fills the path aliases from the regenerated table
    except Exception:  # noqa
        ALIAS.setdefault("ok", FALLBACK_ALPHABET[5].split(":")[1])
    sched = parse_sched(inp["schedule"])

    async def body(loop):
        with patched():
            return await run_schedule(sched, inp.get("ident", True), inp.get("name", False))
    lines, ans, probs, _ = vloop.run_virtual(body, seed=0)
    hits = [p for p in probs if p[1] == inp.get("kind")] if inp.get("kind") else probs
    return bool(hits), (f"{hits[0][1]}: {hits[0][2]}" if hits else "no monitor fails on this schedule")


FALLBACK_ALPHABET = ["enter", "exit", "locate:f0", "locate:f1", "locate:r0",
                     "connect:OPEN,USE,CONNECTION_GOT_FIRMWARE_VERSION,USE,CONNECTION_GOT_CHANNEL,USE,CONNECTION_GOT_CONFIG_FILES,CONNECTION_INITIAL_DATA_BLOCK_REQUEST,USE,SET,CONNECTION_SPA_COMPLETE:0",
                     "connect:OPEN,USE,CONNECTION_PROTOCOL_RETRY_COUNT_EXCEEDED:0", "connect:RAISE:0",
                     "ev:RUNNING_PING_RECEIVED", "ev:ERROR_RF_ERROR", "ev:RUNNING_SPA_PACK_REFRESHED", "ev:ERROR_PROTOCOL_RETRY_COUNT_EXCEEDED",
                     "pingmiss:1", "rferr:1", "wcerr:1", "wcerr:0", "reset", "info:11", "info:00"]
