"""C02 - pack-table items: write-then-read returns the value, no other bit changes."""
import importlib
import struct as pystruct

import packs
import random

import translate
from common import Driver, DriverFailure, hx

LEVEL = "proof"
MANIFEST = dict(
    text="Lean 4 theorems for every item satisfying the decidable Item.WF (all shipped items except the 3 of finding D9, by C18's whole-table evaluation), every 1024-byte block and every domain value: write-then-read returns the value (read_after_write + per-kind corollaries), only bits of the item's own field change (write_touches_only_own_field), items with a disjoint field keep their value (other_items_unchanged), read-only items refuse, string forms, and the blocking/awaitable paths emit identical writes. The shift/mask/merge arithmetic is translated from accessor.py on every run; type dispatch / labels / time format are a hand model tied by a differential correspondence on the real accessors (thorough: all 20 505 items)."
         ' Since session 3: adversarial prior contents for bit fields (the whole field equals the integer about to be merged in, and its complement) and a no-write oracle. Session 4: every stored word of a window (0..1099 plus a seeded sample of the rest) of the writable temperature items of two shipped pairs is presented in both units and written back through the blocking and the awaitable path: the device write must carry that word. Items whose labels are unusual as text (blank, padded, case twins, numeric-looking) are always chosen; an error on an in-domain write to a writable item is a violation. Session 5: write_paths_are_the_same_code (the awaitable write methods of an item and of the structure, with their one await turned into a call, ARE the blocking ones, as skeletons regenerated from the source), write_paths_keep_no_state, every_write_is_handed_over; histories of writes on one long-lived structure whose hand-off fails or is cancelled, then the same write again (twice), two under way together: every call emits the blocking path\'s write. blocking_write_refines_awaitable / blocking_temperature_write_refines_awaitable: every trace of the blocking write is the image of a trace of the awaitable one (twin_refines, rassoc_equiv in Proofs/CoopEquiv.lean). Round 14: the same writes through the real client path (c13.pending_report_scenarios: two writes behind a slow exchange, a change of mind before the spa\'s report). Round 15: two BLOCKING clients per process (real start_connect hand-shakes stepped without threads, harness/bsessions.py), sequential and with overlapping start-up; a write through one client\'s item reaches its own spa only. Round 16: Session.blocking_declarations_are_made_for_each_connection and Session.every_blocking_set_value_is_sent over the regenerated skeletons of GeckoSpa._on_config_received / _on_set_value (the check now regenerates Skeletons itself). Round 17: re-entrancy - the observer of one item writes two bit-field items sharing a byte on a structure whose writes take effect at once; both hold.',
    note="Trusted: Lean kernel; translator for the three arithmetic expressions; the correspondence harness; 'applied to the block' = the spa stores struct.pack of the value at pos (as the bundled simulator does). Temperature items' unit conversion is C14.",
    technique='Lean 4 bit-level proofs (Nat.testBit) over source-translated merge arithmetic + differential correspondence of the hand model on all shipped items',
    design='5/C02',
)


def run_coro(coro):
    try:
        coro.send(None)
    except StopIteration as e:
        return e.value
    raise RuntimeError("coroutine suspended unexpectedly")


class Impl:
    """real accessors of one table module, bound to a real GeckoStructure / GeckoAsyncStructure"""

    def __init__(self, file):
        from geckolib.driver.spastruct import GeckoStructure
        from geckolib.driver.async_spastruct import GeckoAsyncStructure
        m = importlib.import_module("geckolib.driver.packs." + file)
        cls = getattr(m, "GeckoConfigStruct", None) or getattr(m, "GeckoLogStruct")
        self.captured = []
        self.s = GeckoStructure(lambda p, l, v: self.captured.append((p, l, v)))
        self.acc = cls(self.s).accessors
        self.s.accessors = self.acc
        self.acaptured = []

        async def acap(p, l, v):
            self.acaptured.append((p, l, v))
        self.a = GeckoAsyncStructure(lambda p, l, v: None, acap)
        self.aacc = cls(self.a).accessors
        self.a.accessors = self.aacc


class _Suspend:
    """an awaitable that suspends its caller once (driven by hand: no event loop is needed)"""

    def __await__(self):
        yield self


class HistImpl:
    """one real GeckoAsyncStructure + accessors whose device hand-off can fail: it records the write, then completes / raises /
    suspends (the caller then cancels it, or lets it finish later) - what a protocol layer does when the spa is silent"""

    def __init__(self, file):
        from geckolib.driver.spastruct import GeckoStructure
        from geckolib.driver.async_spastruct import GeckoAsyncStructure
        m = importlib.import_module("geckolib.driver.packs." + file)
        cls = getattr(m, "GeckoConfigStruct", None) or getattr(m, "GeckoLogStruct")
        self.captured, self.acaptured = [], []
        self.mode = "ok"
        self.s = GeckoStructure(lambda p, l, v: self.captured.append((p, l, v)))
        self.acc = cls(self.s).accessors
        self.s.accessors = self.acc

        async def handoff(p, l, v):
            self.acaptured.append((p, l, v))
            if self.mode == "raise":
                raise OSError("link down")
            if self.mode == "suspend":
                await _Suspend()
        self.a = GeckoAsyncStructure(lambda p, l, v: None, handoff)
        self.aacc = cls(self.a).accessors
        self.a.accessors = self.aacc


def write_histories(ctx, rng, chosen, illformed):
    """the awaitable path over a HISTORY of writes on one long-lived structure: an attempt that fails in the hand-off (raises, or is
    cancelled while it waits for the spa), the same write again, the same write once more, two of them under way together - every
    call emits exactly the write the blocking path emits for the same input, whatever happened to earlier calls"""
    import asyncio
    impls = {}
    n = 0
    picks = [(m, it) for m, it in chosen if it["rw"] is not None and it["kind"] != "temp" and it["pos"] + it["len"] <= 1024 and (m["file"], it["key"]) not in illformed]
    rng.shuffle(picks)
    seen_kinds = {}
    todo = []
    for m, it in picks:
        k = (it["kind"], it["bitpos"] is None)
        if seen_kinds.get(k, 0) < (3 if ctx.quick else 12):
            seen_kinds[k] = seen_kinds.get(k, 0) + 1
            todo.append((m, it))
    block = bytes(rng.randrange(256) for _ in range(1024))
    for m, it in todo:
        f, tag = m["file"], it["key"]
        if f not in impls:
            try:
                impls[f] = HistImpl(f)
            except Exception as e:  # noqa
                ctx.violation(f"import:{f}", {"module": f}, "module builds its accessors", f"{type(e).__name__}: {e}")
                continue
        h = impls[f]
        vals = [v for v in values_for(it, rng, True) if in_domain_of(it, v)][:2]
        for v in vals:
            h.s.set_status_block(block)
            h.a.set_status_block(block)
            h.captured.clear()
            try:
                h.acc[tag].value = v
            except Exception:  # noqa - refusals are the main section's subject
                continue
            ref = list(h.captured)
            if not ref:
                continue
            trace = []
            for step in rng.choice([["raise", "ok", "ok"], ["cancel", "ok", "ok"], ["ok", "ok"], ["overlap", "ok"], ["cancel", "overlap"], ["raise", "cancel", "ok"]]):
                h.acaptured.clear()
                out = None
                try:
                    if step == "ok":
                        h.mode = "ok"
                        run_coro(h.aacc[tag].async_set_value(v))
                        want = ref
                    elif step == "raise":
                        h.mode = "raise"
                        try:
                            run_coro(h.aacc[tag].async_set_value(v))
                            out = "no error reached the caller"
                        except OSError:
                            pass
                        want = ref
                    elif step == "cancel":
                        h.mode = "suspend"
                        c = h.aacc[tag].async_set_value(v)
                        c.send(None)                       # suspended inside the hand-off, waiting for the spa
                        try:
                            c.throw(asyncio.CancelledError())
                            out = "cancellation swallowed"
                        except asyncio.CancelledError:
                            pass
                        except StopIteration:
                            out = "cancellation swallowed"
                        want = ref
                    else:
                        h.mode = "suspend"
                        c1, c2 = h.aacc[tag].async_set_value(v), h.aacc[tag].async_set_value(v)
                        for c in (c1, c2):
                            try:
                                c.send(None)
                            except StopIteration:
                                pass
                        for c in (c1, c2):
                            try:
                                c.send(None)
                            except StopIteration:
                                pass
                        want = ref + ref
                except Exception as e:  # noqa
                    out = f"{type(e).__name__}: {e}"
                h.mode = "ok"
                got = list(h.acaptured)
                trace.append(step)
                n += 1
                ctx.hist("write_history_steps", step)
                if out is not None or got != want:
                    ctx.violation(f"paths-history:{it['kind']}:{step}", {"kind": "write-history", "module": f, "tag": tag, "value": repr(v), "block_hex": block.hex(), "steps": list(trace)},
                                  {"awaitable path emits": want}, {"awaitable path emitted": got, "note": out})
                    break
    ctx.cov["write_history_steps"] = n
    ctx.count("evaluations", n)


def replay_write_history(inp):
    import ast as _ast
    import asyncio
    h = HistImpl(inp["module"])
    block = bytes.fromhex(inp["block_hex"])
    v = _ast.literal_eval(inp["value"])
    tag = inp["tag"]
    h.s.set_status_block(block)
    h.a.set_status_block(block)
    h.acc[tag].value = v
    ref = list(h.captured)
    got = want = None
    for step in inp["steps"]:
        h.acaptured.clear()
        want = ref
        if step == "ok":
            h.mode = "ok"
            run_coro(h.aacc[tag].async_set_value(v))
        elif step == "raise":
            h.mode = "raise"
            try:
                run_coro(h.aacc[tag].async_set_value(v))
            except OSError:
                pass
        elif step == "cancel":
            h.mode = "suspend"
            c = h.aacc[tag].async_set_value(v)
            c.send(None)
            try:
                c.throw(asyncio.CancelledError())
            except (asyncio.CancelledError, StopIteration):
                pass
        else:
            h.mode = "suspend"
            cs = [h.aacc[tag].async_set_value(v), h.aacc[tag].async_set_value(v)]
            for _ in range(2):
                for c in cs:
                    try:
                        c.send(None)
                    except StopIteration:
                        pass
            want = ref + ref
        got = list(h.acaptured)
    return got != want, {"emitted": got, "blocking path": want}


def writes_from_a_change_handler(ctx, only=None):
    """re-entrancy: a structure whose writes take effect at once (the simulator's, a client that mirrors optimistically); the observer of
    one item reacts to its change by WRITING two bit-field items that share a byte. Both writes must hold afterwards and no other bit move."""
    import importlib
    from geckolib.driver.spastruct import GeckoStructure
    for cfg, log in (("inyt-cfg-61", "inyt-log-61"), ("inyt-cfg-50", "inyt-log-50"), ("inxm-cfg-9", "inxm-log-9")):
        if only is not None and only != [cfg, log]:
            continue
        try:
            cm = importlib.import_module("geckolib.driver.packs." + cfg)
            lm = importlib.import_module("geckolib.driver.packs." + log)
        except Exception:  # noqa
            continue
        holder = {}

        def on_set_value(pos, length, newvalue):
            holder["st"].replace_status_block_segment(pos, int(newvalue).to_bytes(length, "big"))
        st = GeckoStructure(on_set_value)
        holder["st"] = st
        st.set_status_block(bytes(1024))
        st.build_accessors(cm.GeckoConfigStruct(st), lm.GeckoLogStruct(st))
        enums = [a for a in st.accessors.values() if a.read_write is not None and a.type == "Enum" and a.bitpos is not None and a.items and len([x for x in a.items if x]) >= 2 and a.pos + a.length <= 1024]
        pair = next(((y, z) for y in enums for z in enums if y is not z and y.pos == z.pos and y.length == z.length and y.bitpos != z.bitpos), None)
        trig = next((a for a in st.accessors.values() if a.type == "Byte" and a.bitpos is None and a.pos + 1 <= 1024 and (pair is None or a.pos not in range(pair[0].pos, pair[0].pos + pair[0].length))), None)
        if pair is None or trig is None:
            continue
        y, z = pair
        laby, labz = [x for x in y.items if x][-1], [x for x in z.items if x][-1]
        errs = []

        def handler(sender, old, new):
            try:
                y.value = laby
                z.value = labz
            except Exception as e:  # noqa
                errs.append(f"{type(e).__name__}: {e}")
        trig.watch(handler)
        before = bytes(st.status_block)
        st.replace_status_block_segment(trig.pos, bytes([5]))
        after = bytes(st.status_block)
        ctx.count("evaluations")
        ctx.hist("writes_from_a_change_handler", cfg)
        allowed = set(range(y.pos, y.pos + y.length)) | {trig.pos}
        foreign = [i for i in range(1024) if before[i] != after[i] and i not in allowed]
        got = [str(y.value), str(z.value)]
        if errs or got != [laby, labz] or foreign:
            ctx.violation("write-from-a-change-handler:lost", {"kind": "writes-from-a-change-handler", "case": [cfg, log]},
                          {f"{y.tag}, {z.tag} (byte {y.pos}) read": [laby, labz], "other bytes": "unchanged"},
                          {"read": got, "raised": errs, "other bytes changed": foreign[:4]})
            return


def blocking_clients(ctx, only=None):
    import bsessions
    from common import REPO
    s1 = str(REPO / "tests" / "snapshots" / "inYT-Pump1Hi-2020-12-13 11_19_35.snapshot")
    s2 = str(REPO / "tests" / "snapshots" / "inYT-Pump2Hi-2020-12-13 11_19_35.snapshot")
    for overlapping in (False, True):
        if only is not None and only != overlapping:
            continue
        res, _a, _b = bsessions.two_clients(s1, s2, overlapping)
        ctx.count("evaluations")
        ctx.hist("blocking_clients", "overlapping" if overlapping else "sequential")
        for what, detail in bsessions.judge(res):
            ctx.violation(f"blocking-clients:{'overlapping' if overlapping else 'sequential'}:{what}", {"kind": "blocking-clients", "overlapping": overlapping},
                          "each client's items read its own block (tables its spa reported) and a write reaches its own spa only", detail)
            break


def canon_err(e):
    import struct as st
    if isinstance(e, st.error):
        return "err:E_STRUCT"
    if isinstance(e, ValueError):
        return "err:E_VALUE"
    if isinstance(e, IndexError):
        return "err:E_INDEX"
    if isinstance(e, (TypeError, AttributeError)):
        return "err:E_TYPE"
    if isinstance(e, KeyError):
        return "err:E_KEY"
    if "Cannot set value" in str(e):
        return "err:E_NOTWRITABLE"
    return f"err:{type(e).__name__}"


def show_value(v):
    if isinstance(v, bool):
        return f"bool:{1 if v else 0}"
    if isinstance(v, int):
        return f"int:{v}"
    if isinstance(v, str):
        return "str:" + hx(v.encode("utf8"))
    return f"other:{type(v).__name__}"


def impl_decode(acc, kind):
    try:
        if kind == "temp":
            return show_value(acc.raw_value)
        return show_value(acc.value)
    except Exception as e:  # noqa
        return canon_err(e)


def impl_write(impl, tag, block, v):
    """returns (answer line, new block or None)"""
    impl.s.set_status_block(block)
    impl.a.set_status_block(block)
    impl.captured.clear()
    impl.acaptured.clear()
    try:
        impl.acc[tag].value = v
        w1 = "w:%d:%d:%d" % impl.captured[-1] if impl.captured else "nowrite"
    except Exception as e:  # noqa
        w1 = canon_err(e)
    try:
        run_coro(impl.aacc[tag].async_set_value(v))
        w2 = "w:%d:%d:%d" % impl.acaptured[-1] if impl.acaptured else "nowrite"
    except Exception as e:  # noqa
        w2 = canon_err(e)
    if not w1.startswith("w:"):
        return f"{w1} {w2}", None
    pos, ln, val = impl.captured[-1]
    try:
        data = pystruct.pack(">B" if ln == 1 else ">H", val) if ln in (1, 2) else None
        if data is None:
            raise pystruct.error("width")
    except Exception:  # noqa
        return f"{w1} {w2} apply-err:E_STRUCT", None
    try:
        impl.s.replace_status_block_segment(pos, data)
    except Exception as e:  # noqa - an exception of the implementation (change notification reads every intersecting item) is an observation
        return f"{w1} {w2} apply-raised:{type(e).__name__}", None
    nb = impl.s.status_block
    ch = ",".join(f"{i}={nb[i]:02x}" for i in range(min(len(block), len(nb))) if nb[i] != block[i]) or "none"
    return f"{w1} {w2} applied {ch} " + impl_decode(impl.acc[tag], None), nb


def enc_value(v):
    if isinstance(v, bool):
        return f"bool {1 if v else 0}"
    if isinstance(v, int):
        return f"int {v}"
    return "str " + hx(v.encode("utf8"))


def values_for(it, rng, quick):
    k = it["kind"]
    if k == "enum":
        labs = list(dict.fromkeys(it["labels"] or []))
        if quick and len(labs) > 6:
            odd = [l for l in labs if isinstance(l, str) and l != "" and (l != l.strip() or l.strip() == "")]
            labs = list(dict.fromkeys(labs[:3] + rng.sample(labs[3:], 3) + odd))
        return labs + ["zz-not-a-label"]
    if k == "bool":
        return [True, False, "true", "True", "TRUE", "false", "x"]
    if k == "byte":
        return [0, 1, 255, rng.randrange(256), str(rng.randrange(256)), 256]
    if k == "word":
        return [0, 255, 256, 65535, rng.randrange(65536), str(rng.randrange(65536)), 65536]
    if k == "time":
        return ["00:00", "7:5", "23:59", "255:255", f"{rng.randrange(256)}:{rng.randrange(256)}", "12"]
    return []


def want_of(it, v):
    if it["kind"] == "enum":
        return v
    if it["kind"] == "bool":
        return v if isinstance(v, bool) else (v.lower() == "true")
    if it["kind"] in ("byte", "word"):
        return int(v)
    return "%02d:%02d" % tuple(int(x) for x in v.split(":"))


def in_domain_of(it, v):
    try:
        return (it["kind"] == "enum" and v in (it["labels"] or [])) or \
            (it["kind"] == "bool" and (isinstance(v, bool) or v.lower() in ("true", "false"))) or \
            (it["kind"] == "byte" and isinstance(v, (int, str)) and int(v) < 256) or \
            (it["kind"] == "word" and int(v) < 65536) or \
            (it["kind"] == "time" and v.count(":") == 1 and all(int(x) < 256 for x in v.split(":")))
    except Exception:  # noqa
        return False


def raw_index(it, v):
    """the integer the accessor merges into the field for value v (None when not a small integer)"""
    if it["kind"] == "enum" and v in (it["labels"] or []):
        return (it["labels"] or []).index(v)
    if it["kind"] == "bool" and (isinstance(v, bool) or str(v).lower() in ("true", "false")):
        return 1 if (v if isinstance(v, bool) else v.lower() == "true") else 0
    return None


def field_bits(it):
    """independent Python reading of the item's own field as a set of (byte, bit)"""
    n = 8 * it["len"]
    if it["bitpos"] is None:
        ts = range(n)
    else:
        k = it["mask"].bit_length()
        ts = range(it["bitpos"], it["bitpos"] + k)
    out = set()
    for t in ts:
        if it["len"] == 1:
            out.add((it["pos"], t))
        else:
            out.add((it["pos"] + (0 if t >= 8 else 1), t % 8))
    return out


def shape(it):
    return (it["kind"], it["len"], it["bitpos"], it["mask"], it["rw"] is not None, len(it["labels"] or []))


def temp_roundtrips(ctx, only=None):
    """every stored word of a window (and a seeded sample of the rest) of the writable temperature items of two shipped pairs:
    present it, write the presented value back through the blocking and the awaitable path, the device write must carry that word"""
    from props import c14
    import struct as _st
    n = 0
    for cfg, log in (("inyt-cfg-61", "inyt-log-59"), ("inxm-cfg-9", "inxm-log-9")):
        try:
            spa = c14.Spa(cfg, log)
            tag = c14.find_writable_temp(spa)
        except Exception as e:  # noqa
            ctx.violation(f"temp:build:{cfg}", {"kind": "temp", "cfg": cfg, "log": log}, "the pair builds", f"{type(e).__name__}: {e}")
            continue
        if tag is None:
            continue
        acc = spa.accessors[tag]
        raws = list(range(0, 1100)) + [ctx.rng.randrange(1100, 65536) for _ in range(150 if ctx.quick else 5000)] + [65535, 32767, 32768]
        if only is not None:
            raws = [only[1]]
        for units in ("C", "F") if only is None else (only[0],):
            ub = c14.units_block(spa, units)
            if ub is None:
                continue
            bad = 0
            for raw in raws:
                blk = ub[:acc.pos] + _st.pack(">H", raw) + ub[acc.pos + 2:]
                v = c14.impl_read(spa, tag, blk)
                if not isinstance(v, float):
                    continue
                w1, w2 = c14.impl_write(spa, tag, blk, v)
                n += 1
                if w1 != raw or w2 != raw:
                    bad += 1
                    if bad <= 2:
                        ctx.violation(f"readback:temp:{units}", {"kind": "temp", "cfg": cfg, "log": log, "tag": tag, "units": units, "raw": raw},
                                      f"writing the presented value {v!r} stores the word {raw}", {"blocking": w1, "awaitable": w2})
    ctx.count("evaluations", n)
    ctx.cov["temperature_roundtrips"] = n


def run(ctx):
    st = translate.run(["AccessorArith", "Packs", "Pinned", "Skeletons"])
    ctx.cov["translator"] = st
    for k, v in st.items():
        if v != "ok":
            ctx.obligation_broken(f"translate:{k}", v)
    ctx.lean_obligations("GeckoModel.Properties.C02")
    mods = [m for m in packs.load_tables() if m["kind"] in ("cfg", "log")]
    illformed = {("mrsteam-log-1", "WaterDetected"), ("mas-ibc-32k-log-1", "UserDryingDelay"), ("mas-ibc-32k-log-1", "PurgeDelayTimer")}
    rng = ctx.rng
    # choose items: every distinct shape once + seeded sample (quick) / all items (thorough)
    chosen, seen = [], set()
    allitems = [(m, it) for m in mods for it in m["items"]]
    for m, it in allitems:
        s = shape(it)
        if s not in seen:
            seen.add(s)
            chosen.append((m, it))
    # items whose LABELS are unusual as text (blank, surrounded by whitespace, differing only in case, numeric-looking) are always in:
    # anything that normalises a value before looking it up shows on them and nowhere else
    def odd_labels(it):
        labs = [l for l in (it.get("labels") or []) if isinstance(l, str)]
        real = [l for l in labs if l != ""]
        return any(l != l.strip() or l.strip() == "" for l in real) or len({l.lower() for l in real}) < len(set(real)) or \
            any(l.strip().lstrip("-").isdigit() for l in real)
    special = [x for x in allitems if x[1]["kind"] == "enum" and odd_labels(x[1]) and x not in chosen]
    chosen += special
    ctx.cov["items_with_unusual_labels"] = len(special)
    rest = [x for x in allitems if x not in chosen] if not ctx.quick else rng.sample(allitems, 1200)
    chosen += rest
    ctx.cov["distinct_shapes"] = len(seen)
    blocks = {"z": bytes(1024), "o": b"\xff" * 1024, "r": bytes(rng.randrange(256) for _ in range(1024))}
    lines, impl_ans, meta = [], [], []
    for bid, b in blocks.items():
        lines.append(f"blk {bid} {b.hex()}")
        impl_ans.append("ok")
        meta.append(None)
    impls = {}
    nontrivial = set()
    for m, it in chosen:
        f = m["file"]
        if f not in impls:
            try:
                impls[f] = Impl(f)
            except Exception as e:  # noqa
                ctx.violation(f"import:{f}", {"module": f}, "module builds its accessors", f"{type(e).__name__}: {e}")
                continue
        impl = impls[f]
        tag = it["key"]
        others = [o for o in m["items"] if o["key"] != tag]
        bids = ["z", "o", "r"] if not ctx.quick else [rng.choice(["z", "o", "r"]), "r"]
        # adversarial prior contents for bit-field items: the WHOLE 1/2-byte field equals the small integer about to be merged
        # in (while the item's own bits say something else), and the complement of that
        if it["bitpos"] is not None and it["kind"] in ("enum", "bool") and it["pos"] + it["len"] <= 1024 and it["rw"] is not None:
            idxs = sorted({raw_index(it, v) for v in values_for(it, random.Random(1), ctx.quick)} - {None})
            for ix in (idxs if not ctx.quick else idxs[:3]):
                for word in (ix, ix ^ ((1 << (8 * it["len"])) - 1)):
                    if 0 <= word < (1 << (8 * it["len"])):
                        cb = bytearray(blocks["r"])
                        cb[it["pos"]:it["pos"] + it["len"]] = word.to_bytes(it["len"], "big")
                        cid = "c%d" % len(blocks)
                        blocks[cid] = bytes(cb)
                        lines.append(f"blk {cid} {blocks[cid].hex()}")
                        impl_ans.append("ok")
                        meta.append(None)
                        bids.append(cid)
        for bid in dict.fromkeys(bids):
            blk = blocks[bid]
            impl.s.set_status_block(blk)
            lines.append(f"dec {f} {tag} {bid}")
            impl_ans.append(impl_decode(impl.acc[tag], it["kind"]))
            meta.append(None)
            ctx.hist("ops", "dec")
            if it["kind"] == "temp":
                continue
            for v in values_for(it, rng, ctx.quick):
                impl.s.set_status_block(blk)
                before_others = None
                ans, nb = impl_write(impl, tag, blk, v)
                lines.append(f"wr {f} {tag} {bid} {enc_value(v)} n")
                impl_ans.append(ans)
                meta.append((f, tag, bid, v))
                ctx.hist("ops", "wr:" + it["kind"])
                ctx.hist("outcomes", "write-applied" if nb is not None else ("write-then-pack-error" if ans.startswith("w:") else ans.split(" ")[0]))
                ctx.count("evaluations")
                # ---------- direct oracle on the implementation (failing-input search) ----------
                if nb is None:
                    if ans.startswith("err:E_NOTWRITABLE") != (it["rw"] is None):
                        ctx.violation(f"rw:{f}:{tag}", {"module": f, "tag": tag, "value": repr(v)},
                                      "refuses exactly when not writable", ans)
                    if ans.startswith("err:") and not ans.startswith("err:E_NOTWRITABLE") and it["rw"] is not None and in_domain_of(it, v) \
                            and (f, tag) not in illformed:
                        ctx.violation(f"write-refused:{it['kind']}:{ans.split(' ')[0]}", {"module": f, "tag": tag, "block": bid, "value": repr(v)},
                                      "a value of the item's domain written to a writable item produces a device write", ans)
                    if "nowrite" in ans.split(" ")[:2] and it["rw"] is not None and in_domain_of(it, v) and (f, tag) not in illformed:
                        # no device write at all: the item must at least already read the requested value
                        impl.s.set_status_block(blk)
                        try:
                            got = impl.acc[tag].value
                        except Exception as e:  # noqa
                            got = f"raised {type(e).__name__}"
                        if got != want_of(it, v):
                            ctx.violation(f"readback:{f}:{tag}", {"module": f, "tag": tag, "block": bid, "block_hex": (blk.hex() if bid[0] == "c" else None),
                                                                 "value": repr(v)}, want_of(it, v), f"no device write emitted; item still reads {got!r}")
                    continue
                if (f, tag) in illformed:
                    # known-ill-formed items are reported through their own finding keys only
                    wfbad = True
                else:
                    wfbad = False
                w1, w2 = ans.split(" ")[0], ans.split(" ")[1]
                if w1 != w2:
                    ctx.violation(f"paths:{f}:{tag}", {"module": f, "tag": tag, "block": bid, "block_hex": (blk.hex() if bid[0] == "c" else None), "value": repr(v)},
                                  "blocking and awaitable paths emit the same write", [w1, w2])
                changed = {(i, j) for i in range(1024) if nb[i] != blk[i] for j in range(8) if (nb[i] ^ blk[i]) >> j & 1}
                own = field_bits(it)
                if not changed <= own:
                    ctx.violation(f"frame:{f}:{tag}" if not wfbad else f"illformed-frame:{f}:{tag}",
                                  {"module": f, "tag": tag, "block": bid, "block_hex": (blk.hex() if bid[0] == "c" else None), "value": repr(v)},
                                  "only bits of the item's own field change", sorted(changed - own)[:8])
                in_domain = (it["kind"] == "enum" and v in (it["labels"] or [])) or \
                    (it["kind"] == "bool") or (it["kind"] == "byte" and isinstance(v, (int, str)) and int(v) < 256) or \
                    (it["kind"] == "word" and int(v) < 65536) or (it["kind"] == "time" and v.count(":") == 1 and all(int(x) < 256 for x in v.split(":")))
                if in_domain:
                    impl.s.set_status_block(nb)
                    try:
                        got = impl.acc[tag].value
                    except Exception as e:  # noqa
                        got = f"raised {type(e).__name__}"
                    if it["kind"] == "enum":
                        want = v
                    elif it["kind"] == "bool":
                        want = v if isinstance(v, bool) else (v.lower() == "true")
                    elif it["kind"] in ("byte", "word"):
                        want = int(v)
                    else:
                        want = "%02d:%02d" % tuple(int(x) for x in v.split(":"))
                    if got != want:
                        ctx.violation(f"readback:{f}:{tag}" if not wfbad else f"illformed-readback:{f}:{tag}",
                                      {"module": f, "tag": tag, "block": bid, "block_hex": (blk.hex() if bid[0] == "c" else None), "value": repr(v)}, want, got)
                    if changed:
                        nontrivial.add((shape(it), bid, repr(v) if it["kind"] != "enum" else (it["labels"] or []).index(v)))
                    # no other item changes (items whose own field is disjoint)
                    for o in others:
                        if o["pos"] + o["len"] > 1024 or field_bits(o) & own:
                            continue
                        oa = impl.acc[o["key"]]
                        impl.s.set_status_block(blk)
                        a0 = oa.raw_value
                        impl.s.set_status_block(nb)
                        if oa.raw_value != a0:
                            ctx.violation(f"other:{f}:{tag}:{o['key']}", {"module": f, "tag": tag, "other": o["key"], "block": bid, "block_hex": (blk.hex() if bid[0] == "c" else None), "value": repr(v)},
                                          "items with a disjoint field keep their value", [a0, oa.raw_value])
                            break
    # ---------- temperature items: write what the item presents, in both units, on both paths (the conversion itself is C14's
    #            subject; here only the property's own clause: a value from the item's domain reads back the same) ----------
    temp_roundtrips(ctx)
    try:
        write_histories(ctx, rng, chosen, illformed)
    except Exception as e:  # noqa
        ctx.obligation_broken("harness:write-histories", f"{type(e).__name__}: {e}")
    # ---------- the same writes through the REAL client path (manager -> `_connect` -> accessor -> the spa's set-value callback -> protocol):
    #            two writes under way together, a write back to what the mirror still shows - the spa must receive what the items computed
    try:
        from props import c13
        from common import REPO as _REPO
        c13.pending_report_scenarios(ctx, str(_REPO / "tests" / "snapshots" / "inYT-Pump1Hi-2020-12-13 11_19_35.snapshot"), "real-path", with_shared_word=False)
    except Exception as e:  # noqa
        ctx.violation(f"real-path:raised:{type(e).__name__}", {"kind": "pending-report", "snapshot": "inYT-Pump1Hi-2020-12-13 11_19_35.snapshot"}, "the scenario runs", f"{type(e).__name__}: {e}")
    # ---------- two BLOCKING clients in one process (real start_connect handshakes, stepped): one after the other, and with overlapping
    #            start-up - every item reads its own client's block and a write reaches its own client's spa
    try:
        blocking_clients(ctx)
        writes_from_a_change_handler(ctx)
    except Exception as e:  # noqa
        ctx.obligation_broken("harness:blocking-clients", f"{type(e).__name__}: {e}")
    # ---------- correspondence: the Lean model must predict every answer ----------
    try:
        model = Driver("Driver/C02.lean").run(lines)
    except DriverFailure as e:
        ctx.obligation_broken("driver:C02", e)
        model = None
    ndis = 0
    if model is not None:
        for i, (mo, im) in enumerate(zip(model, impl_ans)):
            if mo != im and "E_OUTOFMODEL" not in mo:
                ndis += 1
                if ndis <= 3:
                    ctx.obligation_broken("correspondence:accessor-model-vs-implementation",
                                          {"op": lines[i][:200], "model": mo[:300], "impl": im[:300], "meta": str(meta[i])})
        ctx.cov["correspondence_ops"] = len(lines)
        ctx.cov["correspondence_disagreements"] = ndis
        ctx.cov["out_of_model_skipped"] = sum(1 for mo in model if "E_OUTOFMODEL" in mo)
    for i in (5, 6, 7):
        if i < len(lines):
            ctx.sample({"op": lines[i][:160], "impl": impl_ans[i][:160]})
    ctx.cov["items_exercised"] = len(chosen)
    ctx.cov["distinct_nontrivial"] = len(nontrivial)
    ctx.cov["exhaustive"] = not ctx.quick
    ctx.cov["rule"] = ("items = one of every distinct (kind,width,bitpos,mask,writable,#labels) shape + " +
                       ("1200 seeded items" if ctx.quick else "ALL items of all modules") +
                       "; blocks = zeros / ones / seeded random; values = every label (quick: 6) + a non-label, both booleans and string forms, "
                       "boundary and random numbers incl. one out of range, times incl. a malformed one. non-trivial = in-domain write that changes "
                       "at least one bit; distinct by (shape, block, value)")
    ctx.assumptions += ["'once applied to the block' = the spa stores struct.pack('>B'|'>H', value) at pos (what GeckoSimulator._on_set_value does)",
                        "temperature items: only the stored word is compared here; the unit conversion is C14"]


def replay(inp):
    if inp.get("kind") == "writes-from-a-change-handler":
        from common import Ctx
        c = Ctx("C02", "quick", 0)
        writes_from_a_change_handler(c, only=inp["case"])
        return bool(c.violations), c.violations[0]["observed"] if c.violations else "both writes hold"
    if inp.get("kind") == "blocking-clients":
        from common import Ctx
        c = Ctx("C02", "quick", 0)
        blocking_clients(c, only=inp["overlapping"])
        return bool(c.violations), c.violations[0]["observed"] if c.violations else "both clients read and write their own spa"
    if inp.get("kind") == "pending-report":
        from props import c13
        from common import Ctx, REPO as _REPO
        c = Ctx("C02", "quick", 0)
        c13.pending_report_scenarios(c, str(_REPO / "tests" / "snapshots" / inp["snapshot"]), "real-path", with_shared_word=False)
        return bool(c.violations), c.violations[0]["observed"] if c.violations else "the spa received what the items computed"
    if inp.get("kind") == "write-history":
        return replay_write_history(inp)
    if inp.get("kind") == "temp":
        from common import Ctx
        c = Ctx("C02", "quick", 0)
        temp_roundtrips(c, only=(inp["units"], inp["raw"]))
        v = [x for x in c.violations if x["input"].get("cfg") == inp["cfg"]]
        return bool(v), v[0]["observed"] if v else "reads back"
    impl = Impl(inp["module"])
    it = [i for m in packs.load_tables() if m["file"] == inp["module"] for i in m["items"] if i["key"] == inp["tag"]][0]
    blk = {"z": bytes(1024), "o": b"\xff" * 1024}.get(inp.get("block"), bytes(1024))
    if inp.get("block_hex"):
        blk = bytes.fromhex(inp["block_hex"])
    v = eval(inp["value"])
    ans, nb = impl_write(impl, inp["tag"], blk, v)
    if nb is None:
        if "nowrite" in ans.split(" ")[:2] and in_domain_of(it, v):
            impl.s.set_status_block(blk)
            return impl.acc[inp["tag"]].value != want_of(it, v), {"answer": ans, "item_reads": impl.acc[inp["tag"]].value}
        return True, ans
    changed = {(i, j) for i in range(1024) if nb[i] != blk[i] for j in range(8) if (nb[i] ^ blk[i]) >> j & 1}
    impl.s.set_status_block(nb)
    return (not changed <= field_bits(it)) or impl.acc[inp["tag"]].value != v, {"answer": ans, "readback": impl.acc[inp["tag"]].value}
