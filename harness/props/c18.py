"""C18 - pack tables are well-formed, consistent, and published layouts never change."""
import translate
import packs
from translate import PIN

LEVEL = "proof"
MANIFEST = dict(
    text='The quantifier is a finite table (164 modules, ~20 500 items): the kernel evaluates the decidable predicate PackModule.OK (item addressability Item.WF, key resolution, module naming, refresh window) over the WHOLE table regenerated from the working tree (decide +kernel, one obligation per module, assembled into `all_modules_ok`), proves the three known ill-formed items really are ill-formed, and proves every module pinned at the audited commit is present field-for-field (`layout_immutable`). Search: independent Python re-computation of well-formedness, pin diff item by item, FILES-reply naming for all 895 combinations.'
         ' Since session 3: the EFFECTIVE read footprint of every pinned item is probed through the real read path (all ones / only the pinned field / everything but it). Session 4: the real GeckoAsyncSpa._connect is driven with a scripted FILES reply for every shipped (platform, cfg, log) and must import exactly the shipped modules. Session 5: the layout of a CONNECTED spa - tables instantiated over a block, both facades built and read on several wirings (single-speed / two-speed pumps, nothing, everything) - every live item must still have the layout its module publishes (live-layout). Round 15: layout of the live items of blocking sessions (second session per process) against the published layout. Round 16: blocking_declarations_are_made_for_each_connection (where the tables are turned into objects) over the regenerated skeleton. Round 17: the published layout (writability included) of live items before, during and after a suspended / failing / cancelled write.',
    note='Trusted: Lean kernel; harness/packs.py extraction by import (what the library sees after accessor __init__) + ast check for duplicate dict keys; pins/layout-236b7b1.json.gz is the layout at the audited commit. The generator input SpaPackStruct.xml is absent: well-formedness is judged on the shipped Python only.',
    technique='Lean 4 kernel evaluation (decide +kernel) of decidable predicates over the complete regenerated tables',
    design='5/C18',
)
ITEM_FIELDS = ["key", "tag", "pos", "kind", "len", "bitpos", "mask", "labels", "maxitems", "rw"]
MOD_FIELDS = ["kind", "declPlatform", "declVersion", "name", "type", "revision", "version", "begin", "end",
              "outputKeys", "deviceKeys", "userDemandKeys", "errorKeys"]


def item_wf(it):
    """independent Python reading of Item.WF; returns a list of reasons (empty = well-formed)"""
    bad = []
    if it["key"] != it["tag"]:
        bad.append("dict key differs from tag")
    if it["len"] not in (1, 2):
        bad.append(f"width {it['len']}")
    if it["pos"] + it["len"] > 1024:
        bad.append(f"bytes {it['pos']}..{it['pos']+it['len']-1} outside the 1024-byte block")
    cap = 256 ** it["len"]
    if it["bitpos"] is not None:
        m = it["mask"]
        if m not in (1, 3, 7, 15):
            bad.append(f"mask {m} is not a contiguous low mask")
        else:
            k = m.bit_length()
            if it["bitpos"] + k > 8 * it["len"]:
                bad.append(f"bit field {it['bitpos']}+{k} outside {8*it['len']} bits")
            cap = m + 1
    if it["kind"] == "enum":
        if it["labels"] is None:
            bad.append("enum without labels")
        elif len(it["labels"]) > cap:
            bad.append(f"{len(it['labels'])} labels in a field holding {cap} values")
    if it["kind"] in ("word", "time", "temp") and (it["len"] != 2 or it["bitpos"] is not None):
        bad.append("word-like item not a plain 2-byte field")
    if it["kind"] == "byte" and (it["len"] != 1 or it["bitpos"] is not None):
        bad.append("byte item not a plain 1-byte field")
    if it["kind"] == "bool" and it["len"] != 1:
        bad.append("bool item wider than a byte")
    return bad


def search(ctx, mods):
    names = {m["file"] for m in mods}
    platforms = {m["name"]: m for m in mods if m["kind"] == "pack"}
    n_items = 0
    for m in mods:
        f = m["file"]
        if m["kind"] == "pack":
            if f != m["name"].lower() or m["declPlatform"] != m["name"]:
                ctx.violation(f"name:{f}", {"module": f}, "file name = lower(platform name)", [m["name"], m["declPlatform"]])
            continue
        if m["kind"] not in ("cfg", "log"):
            ctx.violation(f"kind:{f}", {"module": f}, "a pack / config / log module", m["kind"])
            continue
        want = f"{m['declPlatform'].lower()}-{m['kind']}-{m['version']}"
        if f != want or m["declVersion"] != m["version"]:
            ctx.violation(f"name:{f}", {"module": f}, want, {"file": f, "declared": [m["declPlatform"], m["declVersion"]], "version": m["version"]})
        if m["declPlatform"] not in platforms:
            ctx.violation(f"platform:{f}", {"module": f}, "declared platform is a shipped platform module", m["declPlatform"])
        tags = {it["tag"] for it in m["items"]}
        for lst in ("outputKeys", "userDemandKeys", "errorKeys"):
            for k in m.get(lst, []):
                if k not in tags:
                    ctx.violation(f"key:{f}:{k}", {"module": f, "list": lst, "key": k}, "advertised key names an item", "no such item")
        if m["kind"] == "log" and not (m["begin"] + m["end"] <= 1024 and m["end"] > 0):
            ctx.violation(f"window:{f}", {"module": f}, "refresh window inside the block", [m["begin"], m["end"]])
        for it in m["items"]:
            n_items += 1
            bad = item_wf(it)
            if bad:
                ctx.violation(f"wf:{f}:{it['tag']}", {"module": f, "tag": it["tag"], "item": it}, "addressable item (Item.WF)", bad)
    ctx.cov["modules"] = len(mods)
    ctx.cov["items"] = n_items
    return names


def search_pin(ctx, mods):
    pin = packs.load_pin(PIN)
    cur = {m["file"]: m for m in mods}
    n = 0
    for p in pin:
        f = p["file"]
        c = cur.get(f)
        if c is None:
            ctx.violation(f"pin:{f}:missing", {"module": f}, "pinned module still shipped", "module missing")
            continue
        for fld in MOD_FIELDS:
            if p.get(fld) != c.get(fld):
                ctx.violation(f"pin:{f}:{fld}", {"module": f, "field": fld}, p.get(fld), c.get(fld))
        pi = {it["key"]: it for it in p.get("items", [])}
        ci = {it["key"]: it for it in c.get("items", [])}
        if list(pi) != list(ci):
            gone = [k for k in pi if k not in ci]
            new = [k for k in ci if k not in pi]
            if gone or new:
                ctx.violation(f"pin:{f}:items", {"module": f}, "same item set as pinned", {"removed": gone[:10], "added": new[:10]})
            else:
                ctx.violation(f"pin:{f}:order", {"module": f}, "same item order as pinned", "reordered")
        for k, a in pi.items():
            b = ci.get(k)
            if b is None:
                continue
            n += 1
            for fld in ITEM_FIELDS:
                if a.get(fld) != b.get(fld):
                    ctx.violation(f"pin:{f}:{k}:{fld}", {"module": f, "tag": k, "field": fld}, a.get(fld), b.get(fld))
    ctx.cov["pinned_items_compared"] = n


def search_effective_layout(ctx):
    """the EFFECTIVE layout (which bits of the block an item's read really depends on) against the PINNED layout: for every
    item of every pinned module the real accessor's raw read on three probe blocks - every bit set, only the pinned field's
    bits set, every bit but those - must be the all-ones of the pinned field, the same, and zero. Public attributes alone
    (what the pin diff compares) do not settle this: the read path may derive its mask / shift otherwise."""
    import importlib
    import struct as pystruct
    pin = {p["file"]: p for p in packs.load_pin(PIN)}
    n = 0

    class S:
        status_block = bytes(1024)
        accessors = {}
    for f, p in pin.items():
        if not p.get("items"):
            continue
        try:
            m = importlib.import_module("geckolib.driver.packs." + f)
            st = S()
            o = (getattr(m, "GeckoConfigStruct", None) or getattr(m, "GeckoLogStruct"))(st)
        except Exception:  # noqa  (reported by the pin diff / import search)
            continue
        for it in p["items"]:
            a = o.accessors.get(it["key"])
            if a is None or it["pos"] + it["len"] > 1024:
                continue
            width = 8 * it["len"]
            if it["bitpos"] is not None:
                fieldmask = (it["mask"] or 1) << it["bitpos"]
                want = it["mask"] or 1
            else:
                fieldmask = (1 << width) - 1
                want = fieldmask
            probes = []
            ones = b"\xff" * 1024
            only = bytearray(1024)
            only[it["pos"]:it["pos"] + it["len"]] = fieldmask.to_bytes(it["len"], "big")
            rest = bytearray(ones)
            rest[it["pos"]:it["pos"] + it["len"]] = (((1 << width) - 1) ^ fieldmask).to_bytes(it["len"], "big")
            got = []
            for blk in (ones, bytes(only), bytes(rest)):
                st.status_block = blk
                try:
                    v = a.raw_value
                    if v < 0 and it["kind"] not in ("byte", "word"):
                        v += 1 << width
                    got.append(v)
                except Exception as e:  # noqa
                    got.append(f"raised {type(e).__name__}")
            n += 1
            exp = [want, want, 0]
            # signed word formats read all-ones as -1: compare modulo the field width
            norm = [(g % (1 << width)) if isinstance(g, int) and it["bitpos"] is None else g for g in got]
            if norm != exp:
                ctx.violation(f"effective-layout:{f}:{it['key']}", {"module": f, "tag": it["key"], "probe": "ones / field-only / all-but-field"},
                              f"raw reads {exp} (pinned pos {it['pos']} len {it['len']} bitpos {it['bitpos']} mask {it['mask']})", got)
    ctx.cov["effective_layout_items_probed"] = n


def search_files_reply(ctx, mods, names):
    """the module a client would import after the spa's FILES reply exists: real encoder -> real decoder -> naming rule"""
    from geckolib.driver.protocol.configfile import GeckoConfigFileProtocolHandler
    plats = [m for m in mods if m["kind"] == "pack"]
    n = 0
    for p in plats:
        low = p["name"].lower()
        cfgs = [m["version"] for m in mods if m["kind"] == "cfg" and m["declPlatform"] == p["name"]]
        logs = [m["version"] for m in mods if m["kind"] == "log" and m["declPlatform"] == p["name"]]
        for c in cfgs:
            for l in logs:
                n += 1
                try:
                    sb = GeckoConfigFileProtocolHandler.response(p["name"], c, l, parms=("1", 1, b"a", b"b"))._content
                    h = GeckoConfigFileProtocolHandler()
                    h.handle(sb, None)
                    got = (h.plateform_key.lower(), f"{h.plateform_key.lower()}-cfg-{h.config_version}", f"{h.plateform_key.lower()}-log-{h.log_version}")
                except Exception as e:  # noqa
                    got = f"raised {type(e).__name__}: {e}"
                want = (low, f"{low}-cfg-{c}", f"{low}-log-{l}")
                if got != want or any(x not in names for x in want):
                    ctx.violation(f"files:{p['name']}:{c}:{l}", {"platform": p["name"], "cfg": c, "log": l}, want, got)
    ctx.cov["files_reply_combinations"] = n
    return n


def search_connect_lookup(ctx, mods):
    """the module lookup as the client really does it: the REAL GeckoAsyncSpa._connect, on the virtual loop, fed the spa's answers
    (version, channel, and the FILES reply built and decoded by the real config-file handler) for every shipped cfg version and
    every shipped log version of every platform; the tables it instantiates must be the shipped modules of exactly that
    platform / version (the status block transfer is refused, so _connect stops right after the lookup)"""
    import asyncio
    import vloop
    from geckolib.async_spa import GeckoAsyncSpa
    from geckolib.async_tasks import AsyncTasks
    from geckolib.driver import async_udp_protocol as aup
    from geckolib.driver.protocol.configfile import GeckoConfigFileProtocolHandler
    from geckolib.driver.protocol.version import GeckoVersionProtocolHandler
    from geckolib.driver.protocol.getchannel import GeckoGetChannelProtocolHandler
    import rig
    plats = [m for m in mods if m["kind"] == "pack"]
    jobs = []
    for p in plats:
        cfgs = [m["version"] for m in mods if m["kind"] == "cfg" and m["declPlatform"] == p["name"]]
        logs = [m["version"] for m in mods if m["kind"] == "log" and m["declPlatform"] == p["name"]]
        if not cfgs or not logs:
            continue
        for i in range(max(len(cfgs), len(logs))):
            jobs.append((p["name"], cfgs[i % len(cfgs)], logs[i % len(logs)]))

    async def body(loop):
        out = []
        orig_get = aup.GeckoAsyncUdpProtocol.get
        sender = ("10.0.0.1", 10022, b"SPA01:02:03:04:05:06", b"IOSclient")
        for name, c, l in jobs:
            async def get(self, create_func, destination=None, retry_count=10, _j=(name, c, l)):
                h = create_func()
                if isinstance(h, GeckoVersionProtocolHandler):
                    h.handle(GeckoVersionProtocolHandler.response((70, 14, 0), (69, 11, 0), parms=sender)._content, sender)
                elif isinstance(h, GeckoGetChannelProtocolHandler):
                    h.handle(GeckoGetChannelProtocolHandler.response(10, 33, parms=sender)._content, sender)
                elif isinstance(h, GeckoConfigFileProtocolHandler):
                    h.handle(GeckoConfigFileProtocolHandler.response(_j[0], _j[1], _j[2], parms=sender)._content, sender)
                else:
                    return None                      # pings, the status block: no answer
                return h
            events = []

            async def on_event(ev, **kw):
                events.append(str(ev).split(".")[-1])
            tm = AsyncTasks()
            spa = GeckoAsyncSpa(b"IOSclient", rig.Desc(), tm, on_event)
            aup.GeckoAsyncUdpProtocol.get = get
            rec = {"job": (name, c, l)}
            try:
                async def no_struct(*a, **k):
                    return False
                spa.struct.get = no_struct
                await asyncio.wait_for(spa._connect(), 60)
                rec["events"] = [e for e in events if e.startswith("CONNECTION_CANNOT") or e == "CONNECTION_INITIAL_DATA_BLOCK_REQUEST"]
                rec["cfg"] = type(getattr(spa, "config_class", None)).__module__ if getattr(spa, "config_class", None) is not None else None
                rec["log"] = type(getattr(spa, "log_class", None)).__module__ if getattr(spa, "log_class", None) is not None else None
                rec["pack"] = type(getattr(spa, "pack_class", None)).__module__ if getattr(spa, "pack_class", None) is not None else None
            except Exception as e:  # noqa
                rec["raised"] = f"{type(e).__name__}: {e}"
            finally:
                aup.GeckoAsyncUdpProtocol.get = orig_get
                for t in tm._tasks:
                    t.cancel()
                await asyncio.sleep(0)
                try:
                    await spa.disconnect()
                except Exception:  # noqa
                    pass
            out.append(rec)
        return out
    try:
        recs = vloop.run_virtual(body, seed=1)
    except Exception as e:  # noqa
        ctx.obligation_broken("harness:connect-lookup", f"{type(e).__name__}: {e}")
        return 0
    for r in recs:
        name, c, l = r["job"]
        low = name.lower()
        want = {"pack": f"geckolib.driver.packs.{low}", "cfg": f"geckolib.driver.packs.{low}-cfg-{c}", "log": f"geckolib.driver.packs.{low}-log-{l}"}
        got = {k: r.get(k) for k in ("pack", "cfg", "log")}
        if r.get("raised") or got != want or r.get("events") != ["CONNECTION_INITIAL_DATA_BLOCK_REQUEST"]:
            ctx.violation(f"connect-lookup:{name}:{c}:{l}", {"platform": name, "cfg": c, "log": l, "kind": "connect-lookup"},
                          want, r.get("raised") or {"modules": got, "events": r.get("events")})
    ctx.cov["connect_lookups"] = len(recs)
    return len(recs)


def _layout_of(acc):
    return {"pos": acc.pos, "len": acc.length, "bitpos": acc.bitpos, "mask": getattr(acc, "bitmask", None), "type": acc.type,
            "labels": None if acc.items is None else list(acc.items), "rw": acc.read_write}


def search_live_layout(ctx, mods):
    """the layout of a CONNECTED spa: the tables are instantiated over a block, both facades are built on them (they hand the items'
    label lists on as device options) and read - afterwards every live item must still have the layout its module publishes
    (position, width, bit field, labels in order, write permission), for wirings with single-speed pumps, two-speed pumps,
    nothing wired, everything wired"""
    from props import c12
    rng = ctx.rng
    plat = c12.platform_pairs(mods)
    pairs = []
    for name, d in sorted(plat.items()):
        if d["cfg"] and d["log"]:
            cs = sorted(d["cfg"], key=lambda m: m["file"])
            ls = sorted(d["log"], key=lambda m: m["file"])
            pairs.append((cs[-1]["file"], ls[-1]["file"]))
            if not ctx.quick:
                pairs += [(c["file"], ls[len(ls) // 2]["file"]) for c in cs[:-1]]
    n = 0
    for cfg, log in pairs:
        try:
            fresh = c12.StubSpa(cfg, log)
        except Exception:  # noqa  (reported by the import search)
            continue
        published = {k: _layout_of(a) for k, a in fresh.accessors.items()}
        outs = list(dict.fromkeys(fresh.struct.all_outputs))
        labs = {o: list(fresh.accessors[o].items or []) for o in outs}

        def wiring(pred):
            asg, used = [], set()
            for o in outs:
                for l in labs[o]:
                    if l and l not in used and pred(l):
                        asg.append((o, l)); used.add(l); break
            return asg
        wirings = [[], wiring(lambda l: l.endswith("H") and l[:1] == "P"), wiring(lambda l: l.endswith("L") and l[:1] == "P"),
                   wiring(lambda l: l not in ("NA",)), wiring(lambda l: l[:1] == "P") + wiring(lambda l: l in ("BLO", "LI", "Waterfall"))]
        for asg in wirings:
            try:
                spa = c12.StubSpa(cfg, log)
                block, _ = c12.encode_assignment(spa, asg)
                spa.struct.set_status_block(block)
                for build in (c12.build_async, c12.build_sync):
                    try:
                        f, _, _ = build(spa)
                        for d in list(getattr(f, "pumps", [])) + list(getattr(f, "blowers", [])) + list(getattr(f, "lights", [])):
                            getattr(d, "modes", None); str(d)
                    except Exception:  # noqa  (C11 / C12 report facades that cannot be built)
                        pass
            except Exception as e:  # noqa
                ctx.violation(f"live-layout:raised:{cfg}", {"kind": "live-layout", "cfg": cfg, "log": log, "wiring": c12.asg_str(asg)}, "the tables are instantiated and wired",
                              f"{type(e).__name__}: {e}")
                continue
            n += 1
            live = {k: _layout_of(a) for k, a in spa.accessors.items()}
            diff = [k for k in published if live.get(k) != published[k]]
            if diff:
                k = diff[0]
                ctx.violation(f"live-layout:{cfg}:{log}:{k}", {"kind": "live-layout", "cfg": cfg, "log": log, "wiring": c12.asg_str(asg)},
                              {"item": k, "published": published[k]}, {"after the facades were built": live.get(k), "items_changed": len(diff)})
                break
    ctx.cov["live_layout_spas"] = n
    return n


def search_blocking_sessions(ctx):
    """the layout a BLOCKING client ends up with, for a second connection in the same process to a spa of the same platform that reports
    OTHER table versions (real start_connect handshakes, stepped): the live items are those of the modules the FILES answer names"""
    import bsessions
    import glob
    import os
    from common import REPO
    from geckolib.utils.snapshot import GeckoSnapshot
    by = {}
    for f in sorted(glob.glob(str(REPO / "tests" / "snapshots" / "*.snapshot"))):
        try:
            sn = GeckoSnapshot.parse_log_file(f)
        except Exception:  # noqa
            continue
        if len(sn) == 1:
            by.setdefault(sn[0].packtype, {}).setdefault((sn[0].config_version, sn[0].log_version), f)
    n = 0
    for plat, vers in sorted(by.items()):
        if len(vers) < 2:
            continue
        files = [vers[k] for k in sorted(vers)][:3]
        for f1, f2 in zip(files, files[1:] + files[:1]):
            res, _a, _b = bsessions.two_clients(f1, f2, False)
            n += 1
            ctx.hist("blocking_sessions", plat)
            for what, detail in bsessions.judge(res):
                if what.endswith(":write"):
                    continue
                ctx.violation(f"blocking-sessions:{plat}:{what}", {"kind": "blocking-sessions", "first": os.path.basename(f1), "second": os.path.basename(f2)},
                              "each client's live items are those of the table modules its spa's FILES answer names", detail)
                return n
    ctx.cov["blocking_session_pairs"] = n
    return n


def search_layout_during_writes(ctx):
    """the published layout of a LIVE item (position, size, bit field, labels, writability) is the same at every moment a client can
    look at it: while a write through the item is under way (the connection's exchange suspended), after a write that failed, and
    after one that was cancelled - on the real awaitable structure with the real accessors of a few table pairs"""
    import asyncio
    import importlib
    import vloop
    from geckolib.driver.async_spastruct import GeckoAsyncStructure
    n = 0
    pairs = [("inyt-cfg-61", "inyt-log-61"), ("inxm-cfg-9", "inxm-log-9")]
    for cfg, log in pairs:
        try:
            cm = importlib.import_module("geckolib.driver.packs." + cfg)
            lm = importlib.import_module("geckolib.driver.packs." + log)
        except Exception:  # noqa
            continue
        seen = {}

        async def body(loop):
            mode = {"how": "suspend"}
            gate = {}

            async def on_async_set_value(pos, length, newvalue):
                if mode["how"] == "raise":
                    raise RuntimeError("the exchange failed")
                gate["f"] = loop.create_future()
                await gate["f"]
            st = GeckoAsyncStructure(lambda *a: None, on_async_set_value)
            st.set_status_block(bytes(1024))
            st.build_accessors(cm.GeckoConfigStruct(st), lm.GeckoLogStruct(st))
            items = [a for a in st.accessors.values() if a.read_write is not None and a.type in ("Enum", "Bool", "Byte", "Word") and a.pos + a.length <= 1024][:40]
            for a in items:
                before = _layout_of(a)
                v = (a.items[1] if a.type == "Enum" and a.items and len(a.items) > 1 and a.items[1] else (True if a.type == "Bool" else 1))
                for how in ("suspend", "raise", "cancel"):
                    mode["how"] = "suspend" if how == "cancel" else how
                    t = asyncio.ensure_future(a.async_set_value(v))
                    await asyncio.sleep(0)
                    await asyncio.sleep(0)
                    during = _layout_of(a)
                    if how == "suspend" and "f" in gate and not gate["f"].done():
                        gate["f"].set_result(None)
                    if how == "cancel":
                        t.cancel()
                    try:
                        await t
                    except BaseException:  # noqa
                        pass
                    after = _layout_of(a)
                    if during != before or after != before:
                        seen.setdefault(how, {"item": a.tag, "published": before, "while the write is under way": during, "afterwards": after})
        try:
            vloop.run_virtual(body)
        except Exception as e:  # noqa
            ctx.violation("layout-during-writes:raised", {"kind": "layout-during-writes", "tables": [cfg, log]}, "the writes run", f"{type(e).__name__}: {e}")
            continue
        n += 1
        ctx.count("evaluations", 120)
        for how, obs in seen.items():
            ctx.violation(f"layout-during-writes:{how}", {"kind": "layout-during-writes", "tables": [cfg, log], "write": how},
                          "the item's published layout (writability included) is what the table says, before, during and after a write", {k: str(v) for k, v in obs.items()})
            break
    return n


def run(ctx):
    st = translate.run(["Packs", "Pinned", "Skeletons"])
    ctx.cov["translator"] = st
    for k, v in st.items():
        if v != "ok":
            ctx.obligation_broken(f"translate:{k}", v)
    ctx.lean_obligations("GeckoModel.Properties.C18")
    try:
        mods = packs.load_tables()
    except Exception as e:  # noqa
        ctx.violation("import", {"what": "import of the pack modules"}, "all pack modules import", f"{type(e).__name__}: {e}")
        return
    names = search(ctx, mods)
    search_pin(ctx, mods)
    search_effective_layout(ctx)
    n = search_files_reply(ctx, mods, names)
    n += search_connect_lookup(ctx, mods)
    try:
        n += search_blocking_sessions(ctx)
    except Exception as e:  # noqa
        ctx.obligation_broken("harness:blocking-sessions", f"{type(e).__name__}: {e}")
    try:
        n += search_layout_during_writes(ctx)
    except Exception as e:  # noqa
        ctx.obligation_broken("harness:layout-during-writes", f"{type(e).__name__}: {e}")
    try:
        n += search_live_layout(ctx, mods)
    except Exception as e:  # noqa
        ctx.obligation_broken("harness:live-layout", f"{type(e).__name__}: {e}")
    # the kernel evaluated one obligation per module (+ one pin equality per pinned module) on top of the property theorems
    per_module = len([m for m in mods if m["kind"] in ("cfg", "log", "pack")]) + len(packs.load_pin(PIN))
    if not ctx.broken:
        ctx.obligations += per_module
        ctx.discharged += per_module
    ctx.cov["evaluations"] = ctx.cov["items"] + ctx.cov["pinned_items_compared"] + n
    ctx.cov["distinct_nontrivial"] = ctx.cov["items"]
    ctx.cov["exhaustive"] = True
    ctx.cov["rule"] = ("the whole finite table: every item of every shipped module (Python re-computation of Item.WF, key resolution, naming, "
                       "pin diff) and every platform x cfg x log FILES-reply combination; distinct = items")
    ctx.sample({"module": mods[0]["file"], "item": (mods[0].get("items") or [None])[0]})
    ctx.sample({"pin": str(PIN.name), "pinned_modules": len(packs.load_pin(PIN))})
    ctx.assumptions += ["tables are read by importing the modules (what the library sees after GeckoStructAccessor.__init__); duplicate literal dict keys are refused by an ast check",
                        "the generator input SpaPackStruct.xml is absent; well-formedness is judged on the shipped Python only"]


def replay(inp):
    from common import Ctx
    ctx = Ctx("C18", "quick", 0)
    mods = packs.load_tables()
    names = search(ctx, mods)
    search_pin(ctx, mods)
    search_effective_layout(ctx)
    search_files_reply(ctx, mods, names)
    search_connect_lookup(ctx, mods)
    if inp.get("kind") == "live-layout":
        search_live_layout(ctx, mods)
    if inp.get("kind") == "blocking-sessions":
        search_blocking_sessions(ctx)
    if inp.get("kind") == "layout-during-writes":
        search_layout_during_writes(ctx)
    for v in ctx.violations:
        if v["input"] == inp:
            return True, v["observed"]
    return False, "not reproduced"
