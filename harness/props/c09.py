"""C09 - self-healing: the manager returns to CONNECTED once the spa is reachable again."""
import asyncio

import fakenet
import translate
import vloop
from common import Driver, DriverFailure, REPO
from props.c10 import stack_sig, IDENT, SNAP

LEVEL = "proof"
MANIFEST = dict(
    text="Lean 4: a macro-step machine of the manager over facts regenerated from the source (the sequence pump's locate / connect / retry-after-not-found rules, the "
         "ping-received reset rule, where failure events land, the LOCATING_FINISHED guard, whether the pump survives exceptions). Its record space is finite: one-step "
         "facts are kernel evaluations over the WHOLE space, lifted by induction to fault scripts of any length: coherence of every reachable record; the FULL "
         "statement recovery_after_every_script (after ANY fault script - loss, blackouts, RF-error periods, resets at any moment incl. inside a discovery or inside "
         "_connect - a healthy network leads to CONNECTED with a facade; it holds since the fix: commits for D8a and D8b), never_stuck, pump_immortal, "
         "reset_in_locate_recovers, an unanswered ping takes the manager out of CONNECTED; time bounds are sums of bounds proved in C06/C15/C01 over the generated "
         "timing tables. Tie: translator facts + trace validation on the FULL real stack (manager + locator + spa + facade + real simulator, virtual time) under seeded "
         "fault scripts (blackouts around each timeout, lossy and RF-error phases, selective loss, trigger phases, resets swept over the discovery / reconnect windows, "
         "a lost partial update under continuing traffic): the observed event stream is mapped to macro inputs, the model must reproduce the manager's record after "
         "each, the recovery time must respect the bound, the facade must mirror the spa, every blackout that begins in CONNECTED must be reported in time. Session 4: the guard of the retry-exceeded branch is a generated fact (retryExceededNeedsSpa), abandoned_attempt_is_ignored is a theorem (the late failure report of a connection attempt abandoned by a reset cannot move a manager without a spa; genuine defect D8c, fix 4611c09), and the script reset-in-last-retry (resets during the last retry of a failing handshake request) is part of every run. Also: only_disconnect_closes_the_protocol over all 58 regenerated coroutine skeletons (reporting an error never silences the ping loop) and a script with an RF-error period long enough for one connection to count more than 50 reports. Also a network mode in which everything but pings gets RFERR (an error state reached without missing a ping) and every_answered_ping_is_announced over the ping loop skeleton. Resets tied to the handshake traffic (1 ms / 30 ms after each request was transmitted). Session 5: one segment of the status block answer lost (first / middle / last; once, for a while, during the periodic refresh, after a reset): the answer that arrived is not the spa's block and must not be taken for it (mirror oracle). pump_survives_every_exception / pump_contains_every_exception: over the regenerated skeleton of _sequence_pump with Python's handler-matching rule (Model/Cancel.lean, Thrown), whatever async_locate_spas / async_connect / async_reset raise is swallowed by a handler of the loop and the pump goes on; only a cancellation ends it. Round 14: reset-with-slow-client scripts (the pump runs a whole discovery inside the reset; genuine defect D16, fix 124e61a); model input locateInReset over the regenerated fact resetForgetsDescriptorsLast, reset_with_a_discovery_inside_recovers; a reset-landing oracle on every script.",
    note="partial: the timed model abstracts discovery / request / transfer phases to the bounds proved for them elsewhere, so a delay INSIDE a phase that those properties "
         "allow is seen only by the traces; real timer skew is outside.",
    technique="Lean 4 kernel evaluation over a finite macro-step machine built from source-extracted facts, lifted by induction; trace validation of the whole real stack",
    design="5/C09")


def gen_script(rng):
    """a fault script: phases + user resets; returns (phases, resets[(t, label)])"""
    kind = rng.choice(["healthy", "blackout-start", "blackout-mid", "blackout-mid-long", "rferr-mid", "handshake-loss", "reset-steady",
                       "reset-in-connect", "reset-in-discovery", "reset-twice", "reset-in-last-retry", "lossy-mid", "double-blackout", "slow-handshake-then-blackout",
                       "rferr-long", "rferr-nonping"])
    P, R = [], []
    if kind == "healthy":
        pass
    elif kind == "blackout-start":
        P = [(rng.choice([3, 12, 30]), "blackout")]
    elif kind == "blackout-mid":
        P = [(20, "healthy"), (rng.choice([5, 30, 100]), "blackout")]
    elif kind == "blackout-mid-long":
        P = [(20, "healthy"), (rng.choice([260, 400]), "blackout")]
    elif kind == "double-blackout":
        P = [(20, "healthy"), (270, "blackout"), (90, "healthy"), (270, "blackout")]
    elif kind == "rferr-mid":
        P = [(20, "healthy"), (rng.choice([70, 150]), "rferr")]
    elif kind == "rferr-nonping":
        # the RF link behind the in.touch2 module is down for a while: pings keep being ANSWERED, every other request gets RFERR;
        # the manager reaches ERROR_RF_FAULT without ever missing a ping, and the next answered ping must take it out again
        P = [(rng.choice([100, 200]), "healthy"), (rng.choice([150, 400, 900]), "rferr-nonping")]
    elif kind == "rferr-long":
        # an RF-error period long enough for ONE connection to count more than MAX_RF_ERRORS_BEFORE_HALT (50) reports (the spa answers
        # about one request in forty seconds with RFERR under the idle timing table): ERROR_TOO_MANY_RF_ERRORS, then the fault clears
        P = [(20, "healthy"), (rng.choice([3000, 3600]), "rferr")]
    elif kind == "lossy-mid":
        P = [(20, "healthy"), (rng.choice([60, 200]), f"lossy:{rng.choice([0.2, 0.5])}")]
    elif kind == "handshake-loss":
        P = [(0.45 + rng.choice([0.0, 0.2, 0.4]), "healthy"), (70, "blackout")]
    elif kind == "slow-handshake-then-blackout":
        # every ping is lost and the first transmissions of each handshake request are lost too, so that the not-responding
        # threshold is crossed while the manager is still CONNECTING; the handshake completes all the same; the spa goes
        # dark the moment the manager says CONNECTED
        P = [("until:CONNECTED", f"noping+first:{rng.choice([7, 8, 9])}"), (rng.choice([300, 420]), "blackout")]
    elif kind == "reset-in-last-retry":
        # the handshake's first request gets no answer (blackout right after discovery); a user reset lands while its LAST retry is
        # in flight: the abandoned attempt then reports "retry count exceeded" to a manager that has already dropped that spa
        P = [(0.45, "healthy"), (75, "blackout")]
        R = [(rng.choice([55.5, 57.0, 58.0, 59.5]), "last-retry")]
    elif kind == "reset-steady":
        R = [(rng.choice([10, 15.3, 22]), "steady")]
    elif kind == "reset-in-connect":
        R = [(rng.choice([0.45, 0.62, 0.75, 0.85]), "connect")]
    elif kind == "reset-in-discovery":
        R = [(rng.choice([0.02, 0.05, 0.1, 0.15, 0.3]), "discovery")]
    elif kind == "reset-twice":
        # two resets in quick succession (a second Reconnect press): the second lands in the locate phase started after the first
        t0 = rng.choice([5.0, 12.0])
        R = [(t0, "steady"), (t0 + rng.choice([0.05, 0.1, 0.15, 0.25, 0.4, 0.6]), "again")]
    return kind, P, R


def run_script(kind, phases, resets, bound_s, yielding=False, traffic=None, verb_resets=None):
    """traffic = {"lost_at": t, "tick_every": dt}: at t the spa changes a value inside its log section and the partial update that
    reports it is LOST; every dt seconds the spa changes another value and that partial update is delivered"""
    from geckolib import GeckoAsyncSpaMan
    res = {"events": [], "inputs": [], "samples": []}

    async def body(loop):
        sim = fakenet.make_sim(SNAP)
        net = fakenet.Network(loop, sim, phases=phases, seed=1)
        loop.network = net

        class Man(GeckoAsyncSpaMan):
            async def handle_event(self, event, **kw):
                name = str(event).split(".")[-1]
                res["events"].append((round(loop.time(), 2), name, str(self.spa_state).split(".")[-1]))
                if isinstance(yielding, float):
                    # a client whose handler is SLOW when the connection goes away (it saves state, tells its own users): longer than a discovery takes
                    if "TEARDOWN" in name or "DISCONNECTED" in name:
                        await asyncio.sleep(yielding)
                elif yielding:
                    await asyncio.sleep(0)      # a client whose handler really suspends (an automation system's does)
        m = Man("uuid-1", spa_identifier=IDENT, spa_address="10.0.0.9", spa_name="Spa")
        await m.__aenter__()
        pump = [t for t in asyncio.all_tasks() if t.get_name() == "SPAMAN:Sequence Pump"][0]

        def record():
            return {"st": str(m.spa_state).split(".")[-1], "descriptors": m._spa_descriptors is not None, "facade": m.facade is not None,
                    "spa": m._spa is not None, "pump": not pump.done()}
        net.state_fn = lambda: str(m.spa_state).split(".")[-1]
        # resets tied to the TRAFFIC, not to the clock: "<delay> s after the client transmitted its n-th datagram with this verb" - they land
        # while that request is in flight however fast or slow the handshake runs
        vdone = []
        vleft = [list(v) for v in (verb_resets or [])]

        def on_client_datagram(data):
            for v in vleft:
                if v[0].encode() in data and v[2] > 0:
                    v[2] -= 1
                    if v[2] == 0:
                        async def do_reset():
                            sig = stack_sig(pump)
                            in_connect = any(fn == "_connect" for fn, _ in sig)
                            in_locate = any(fn in ("discover", "async_locate_spas") for fn, _ in sig)
                            res["inputs"].append((round(loop.time(), 2), "reset!" if in_connect else ("resetL" if in_locate else "reset")))
                            vdone.append(loop.time())
                            await m.async_reset()
                            res["samples"].append((round(loop.time(), 2), "after-reset", record()))
                        loop.call_later(v[1], lambda: asyncio.ensure_future(do_reset()))
        net.on_client_datagram = on_client_datagram
        tstate = {"lost": False, "next_tick": (traffic or {}).get("lost_at", 0) + 5}
        pending = sorted(resets)
        left_connected_at = None
        was_connected = False
        dark = []               # [start, state at start, first time the state was not CONNECTED (or None), end (or None)]
        prev_mode = "healthy"
        cap = max(3000, sum(d for d, _ in phases if not isinstance(d, str)) + bound_s + 200)
        while True:
            await asyncio.sleep(0.05)
            now = loop.time()
            hf = net.healthy_from()
            if now > cap or (hf is not None and not any(v[2] > 0 for v in vleft) and now >= max([hf] + [t for t, _ in resets] + vdone) + bound_s + 5):
                break
            if traffic is not None and m.facade is not None:
                from geckolib.driver import GeckoPartialStatusBlockProtocolHandler as _PS
                lc = sim.structure
                begin = m.facade.spa.log_class.begin
                if not tstate["lost"] and now >= traffic["lost_at"]:
                    tstate["lost"] = True
                    p_ = begin + 7
                    lc.replace_status_block_segment(p_, bytes([lc.status_block[p_] ^ 0x5A]))        # reported by a STATP that never arrives
                if tstate["lost"] and now >= tstate["next_tick"]:
                    tstate["next_tick"] = now + traffic["tick_every"]
                    q_ = begin + 40
                    data = bytes([(lc.status_block[q_] + 1) % 256, lc.status_block[q_ + 1]])
                    lc.replace_status_block_segment(q_, data)
                    live = [t_ for t_ in net.transports if not t_.closed]
                    for client in list(sim._clients):
                        if live:
                            net.push(live[-1], _PS.report_changes(sim._socket, [(q_, data)], parms=client).send_bytes)
                    # the client's acknowledgement comes back through the network as usual
            mode_now = net.mode()
            st_now = str(m.spa_state).split(".")[-1]
            if mode_now == "blackout" and prev_mode != "blackout":
                dark.append([now, st_now, None, None])
            if mode_now != "blackout" and prev_mode == "blackout" and dark:
                dark[-1][3] = now
            if dark and dark[-1][3] is None and dark[-1][2] is None and st_now != "CONNECTED":
                dark[-1][2] = now
            prev_mode = mode_now
            if pending and now >= pending[0][0]:
                _, label = pending.pop(0)
                sig = stack_sig(pump)
                in_connect = any(fn == "_connect" for fn, _ in sig)
                in_locate = any(fn in ("discover", "async_locate_spas") for fn, _ in sig)
                res["inputs"].append((round(now, 2), "reset!" if in_connect else ("resetL" if in_locate else "reset")))
                n_ev = len(res["events"])
                await m.async_reset()
                res["samples"].append((round(loop.time(), 2), "after-reset", record()))
                inside = [e[1] for e in res["events"][n_ev:]]
                if "LOCATING_STARTED" in inside and "LOCATING_FINISHED" in inside and not in_connect and not in_locate:
                    # the pump ran a whole discovery while the reset was announcing the disconnection to a slow client
                    res["inputs"][-1] = (res["inputs"][-1][0], "resetP")
                    res["discovery_inside_reset"] = True
            st = str(m.spa_state).split(".")[-1]
            if st == "CONNECTED":
                was_connected = True
            elif was_connected and left_connected_at is None:
                left_connected_at = now
        healthy_from = net.healthy_from() or 0.0
        res["dark"] = dark
        res["final"] = record()
        res["healthy_from"] = healthy_from
        res["t_end"] = loop.time()
        res["mirror_ok"] = (m.facade is not None and m.facade.spa.struct.status_block == sim.structure.status_block)
        res["left_connected_at"] = left_connected_at
        # first CONNECTED after the last fault
        last_fault = max([healthy_from] + [t for t, _ in resets] + vdone)
        rec = [t for (t, ev, st) in res["events"] if ev == "CLIENT_FACADE_IS_READY" and t >= last_fault]
        res["recovered_at"] = rec[0] if rec else (0.0 if (res["final"]["st"] == "CONNECTED" and not [e for e in res["events"] if e[0] >= last_fault and e[1] != "RUNNING_PING_RECEIVED" and not e[1].startswith("RUNNING_SPA_PACK")]) else None)
        res["last_fault"] = last_fault
        try:
            await m.__aexit__(None, None, None)
        except BaseException:  # noqa
            pass
    vloop.run_virtual(body, seed=1, stable=True)
    return res


def to_inputs(res):
    """observed event stream (+ injected resets) -> macro inputs with the time they complete"""
    out = []
    evs = res["events"]
    resets = list(res["inputs"])
    for (t, ev, st) in evs:
        while resets and resets[0][0] <= t:
            out.append(resets.pop(0))
        if ev == "SPA_NOT_FOUND":
            out.append((t, "pump-"))
        elif ev == "CLIENT_FACADE_IS_READY":
            out.append((t, "pump+"))
        elif ev == "CONNECTION_PROTOCOL_RETRY_COUNT_EXCEEDED" and st == "ERROR_NEEDS_ATTENTION":
            # (reported by an ABANDONED attempt - the manager was reset meanwhile - it moves nothing and is no macro input)
            out.append((t, "pump~"))
        elif ev == "RUNNING_PING_NO_RESPONSE" and st == "ERROR_PING_MISSED":
            # delivered after the state was set: count it once, when the state flips
            if not out or out[-1][1] != "ping-" or out[-1][2:] != ():
                pass
            out.append((t, "ping-"))
        elif ev == "ERROR_RF_ERROR" and st == "ERROR_RF_FAULT":
            out.append((t, "rferr"))
        elif ev == "ERROR_PROTOCOL_RETRY_COUNT_EXCEEDED":
            out.append((t, "retryx"))
        elif ev == "RUNNING_PING_RECEIVED" and st == "IDLE":
            out.append((t, "ping+"))
    out += resets
    # collapse repeats that the model treats as idempotent
    ded = []
    for x in out:
        if ded and ded[-1][1] == x[1] and x[1] in ("ping-", "rferr", "retryx"):
            continue
        ded.append(x)
    return ded


def run(ctx):
    st = translate.run(["RecoveryFacts", "ConfigTables", "Skeletons"])
    ctx.cov["translator"] = st
    for k, v in st.items():
        if v != "ok":
            ctx.obligation_broken(f"translate:{k}", v)
    ctx.lean_obligations("GeckoModel.Properties.C09")
    try:
        b = Driver("Driver/C09.lean").run(["bounds"])[0].split()
        bound_idle, unreach_idle = int(b[0]), int(b[2])
    except DriverFailure as e:
        ctx.obligation_broken("driver:C09", e)
        bound_idle, unreach_idle = 369, 247
    rng = ctx.rng
    n = 14 if ctx.quick else 120
    kinds_seen = set()
    lines, impl = [], []
    nontrivial = set()
    scripts = []
    base_kinds = ["blackout-start", "blackout-mid-long", "reset-in-connect", "rferr-mid", "handshake-loss", "reset-steady",
                  "slow-handshake-then-blackout", "reset-in-discovery", "reset-twice", "reset-in-last-retry", "rferr-long", "rferr-nonping"]
    for i in range(n):
        k, P, R = gen_script(rng)
        scripts.append((k, P, R))
    # make sure the corpus kinds are always present
    import random as _r
    for bk in base_kinds:
        if not any(k == bk for k, _, _ in scripts):
            import zlib
            rr = _r.Random(zlib.crc32(bk.encode()) & 0xffff)      # stable across processes (str hashes are salted)
            while True:
                k, P, R = gen_script(rr)
                if k == bk:
                    scripts.append((k, P, R))
                    break
    # the narrow windows are swept completely: a reset at each offset into the first discovery, a second reset at each distance
    for t in (0.02, 0.05, 0.1, 0.15, 0.2, 0.3):
        scripts.append(("reset-in-discovery", [], [(t, "discovery")]))
    for dt in (0.05, 0.1, 0.15, 0.25, 0.4, 0.6):
        scripts.append(("reset-twice", [], [(5.0, "steady"), (5.0 + dt, "again")]))
    # resets that land while each handshake request is IN FLIGHT (tied to the traffic: 1 ms / 30 ms after the client transmitted it)
    for verb in ("AVERS", "CURCH", "SFILE", "STATU"):
        for dly in (0.001, 0.03):
            scripts.append((f"reset-on-verb", [], [], [(verb, dly, 1)]))
    # ONE segment of the status block answer is lost (the first, a middle one, the last) - once, or every time for a while - during the
    # handshake and during the periodic refresh: the answer that arrived is not the spa's block, so it must not be taken for it
    for k_ in (0, 1, 3):
        scripts.append(("segment-lost-once", [("until:CONNECTED", f"segonce:{k_}")], []))
    scripts.append(("segment-lost-for-a-while", [(6, "seg:0")], []))
    scripts.append(("segment-lost-in-refresh", [("until:CONNECTED", "healthy"), (100, "seg:0")], []))
    scripts.append(("segment-lost-after-reset", [("until:CONNECTED", "healthy"), (8, "seg:0")], [(3.0, "steady")]))
    # a client whose handlers of the disconnection events are SLOW (they save state, tell their own users): a user reset then takes
    # long enough for the sequence pump to run a whole discovery inside it
    for slow_ in (0.3, 1.0):
        scripts.append(("reset-with-slow-client", [], [(10.0, "steady")], None, slow_))
    scripts.append(("reset-with-slow-client", [], [(10.0, "steady"), (30.0, "steady")], None, 0.5))
    # a healthy network on which ONE partial update is lost while the spa keeps reporting other changes: only the periodic refresh
    # can repair the mirror, and it must (within a few refresh periods)
    scripts.append(("lost-update-under-traffic", [], []))
    for n_s, sc_ in enumerate(scripts):
        k, P, R = sc_[:3]
        VR = sc_[3] if len(sc_) > 3 else None
        yielding = sc_[4] if len(sc_) > 4 else (n_s % 2 == 1)
        traffic = {"lost_at": 30, "tick_every": 45} if k == "lost-update-under-traffic" else None
        inp = {"kind": k, "phases": P, "resets": R, "yielding": yielding}
        if VR:
            inp["verb_resets"] = VR
        if traffic:
            inp["traffic"] = traffic
        ctx.hist("client_handler", f"slow:{yielding}s" if isinstance(yielding, float) else ("yields" if yielding else "returns-at-once"))
        try:
            res = run_script(k, P, R, bound_idle, yielding, traffic, VR)
        except Exception as e:  # noqa
            ctx.violation(f"script-raised:{k}", inp, "the stack runs", f"{type(e).__name__}: {e}")
            continue
        ctx.count("evaluations")
        ctx.hist("scripts", k)
        fin = res["final"]
        ins = to_inputs(res)
        lines.append("init")
        impl.append(None)
        for (_, x) in ins:
            lines.append(f"in {x}")
            impl.append(None)
        impl[-1] = f"{fin['st']} descriptors={int(fin['descriptors'])} facade={int(fin['facade'])} spa={int(fin['spa'])} pump={int(fin['pump'])}"
        nontrivial.add((k, tuple(x for _, x in ins), fin["st"]))
        # ---------------- direct oracle: the property itself
        for (t_, what_, rec_) in res.get("samples", []):
            if what_ == "after-reset" and (rec_["st"] != "IDLE" or rec_["descriptors"] or rec_["facade"] or rec_["spa"]):
                ctx.violation(f"reset-landing:{k}", inp, "a reset lands in IDLE with no facade, spa or descriptors", {"t": t_, **rec_})
                break
        if not fin["pump"]:
            ctx.violation("pump-dead:reset-in-connect" if any(x == "reset!" for _, x in ins) else f"pump-dead:{k}", inp,
                          "the sequence pump never dies", f"pump task ended; final state {fin['st']}")
        if fin["st"] != "CONNECTED" or not fin["facade"]:
            if fin["pump"]:
                ctx.violation(f"not-recovered:{fin['st']}", inp, f"CONNECTED within {bound_idle} s of the network being healthy",
                              f"still {fin['st']} at t={res['t_end']:.0f} s (healthy since {res['healthy_from']:.0f} s)")
        else:
            if res["recovered_at"] is not None and res["recovered_at"] - res["last_fault"] > bound_idle:
                ctx.violation("recovery-too-slow", inp, f"<= {bound_idle} s", res["recovered_at"] - res["last_fault"])
            if not res["mirror_ok"]:
                ctx.violation("mirror-differs-after-recovery", inp, "facade values mirror the spa", "client block differs from the simulator block")
            ctx.cov["max_recovery_s"] = max(ctx.cov.get("max_recovery_s", 0), round((res["recovered_at"] or res["last_fault"]) - res["last_fault"], 1))
        # unreachable reported in time: every blackout that begins while the manager says CONNECTED
        for start, st0, left, end in res.get("dark", []):
            if st0 != "CONNECTED" or k == "double-blackout":
                continue
            lasted = (end if end is not None else res["t_end"]) - start
            if left is None and lasted > unreach_idle:
                ctx.violation("unreachable-not-reported", inp, f"state leaves CONNECTED within {unreach_idle} s of a blackout",
                              f"still CONNECTED {lasted:.0f} s into the blackout that began at t={start:.0f} s")
            elif left is not None and left - start > unreach_idle + 1:
                ctx.violation("unreachable-reported-late", inp, f"<= {unreach_idle} s", round(left - start, 1))
        blk = [(sum(d for d, _ in P[:i]), d) for i, (d, mo) in enumerate(P) if mo == "blackout" and i > 0 and not any(isinstance(x, str) for x, _ in P)]
        for start, dur in blk:
            if dur > unreach_idle and res["left_connected_at"] is None and fin["st"] == "CONNECTED" and k != "double-blackout":
                ctx.violation("unreachable-not-reported", inp, f"state leaves CONNECTED within {unreach_idle} s of a blackout", "never left CONNECTED")
            elif res["left_connected_at"] is not None and res["left_connected_at"] - start > unreach_idle + 1:
                ctx.violation("unreachable-reported-late", inp, f"<= {unreach_idle} s", res["left_connected_at"] - start)
        if len(ctx.cov["samples"]) < 4:
            ctx.sample({"script": inp, "macro_inputs": [x for _, x in ins], "final": fin})
    try:
        model = Driver("Driver/C09.lean").run(lines)
    except DriverFailure as e:
        ctx.obligation_broken("driver:C09", e)
        model = None
    if model is not None:
        nd = 0
        start = 0
        for i, (mo, im) in enumerate(zip(model, impl)):
            if lines[i] == "init":
                start = i
            if im is not None and not mo.startswith(im):
                nd += 1
                if nd <= 3:
                    ctx.obligation_broken("correspondence:recovery-model-vs-implementation", {"inputs": lines[start:i + 1], "model": mo, "impl": im})
        ctx.cov["traces_validated_against_impl"] = len(scripts) - nd
        ctx.cov["correspondence_ops"] = len(lines)
    ctx.cov["distinct_nontrivial"] = len(nontrivial)
    ctx.cov["rule"] = ("seeded fault scripts on the full real stack: healthy, blackout at start (3/12/30 s), blackout mid-session (5..400 s), double blackout, RF-error period, "
                       "lossy period, blackout right after discovery (handshake loss), user reset in steady state / inside the handshake / during discovery; every second script with a client event handler that really suspends; after the last fault "
                       "the network is healthy for the model's bound + 5 s. evaluations = scripts; distinct = (kind, macro-input sequence, final state)")
    ctx.assumptions += ["the spa is the bundled simulator with the default snapshot; virtual time with FIFO-stable timers",
                        "recovery bound = next ping + two discoveries + four requests with all their retries (idle timing table)"]


def replay(inp):
    from common import Ctx
    res = run_script(inp["kind"], [tuple(p) for p in inp["phases"]], [tuple(r) for r in inp["resets"]], 369, inp.get("yielding", False), inp.get("traffic"),
                     inp.get("verb_resets"))
    fin = res["final"]
    return (fin["st"] != "CONNECTED" or not fin["pump"] or not res.get("mirror_ok", True)), dict(fin, mirror_ok=res.get("mirror_ok"))
