"""C19 - snapshot capture/replay round trip and loadability of the shipped snapshots."""
import glob
import logging
import os
import re
import struct as pystruct
import traceback
import warnings

import translate
import vloop
from common import REPO, Driver, DriverFailure, hx

LEVEL = "proof"
MANIFEST = dict(
    text="Lean 4 theorems over a hand model of the shell's snapshot writer and of GeckoSnapshot's regex-table parser "
         "(backtracking matcher, int(..,16), parse_log_file loop): block_roundtrip (every byte list of length >= 1, hence every "
         "1024-byte block, by induction), versions_roundtrip (all version numbers, all 15 shipped pack labels), whole_roundtrip "
         "(all eleven records through parse_log_file for every SafeName - a decidable predicate: printable ASCII, no "
         "'STATV..</DATAS>', no handshake text; its complement is witnessed by the two recorded findings name_statv_fails and "
         "name_handshake_extra_record; brackets are safe since 609eb50: block_regex_needs_closing_bracket), segment_roundtrip "
         "(FULL since d863da2: bytes.__repr__ -> tokenising quote replacement -> literal_eval is the identity on EVERY byte "
         "string), reassemble_any_segmentation (FULL: every split of the range into an in-order STATV chain reassembles to the "
         "range, by induction on the segmentation, no hypothesis on the data). "
         "Ties: regex table / handler order / method bodies / version templates / log format re-extracted from "
         "the source every run and pinned (source_pinned); differential correspondence of the model against the REAL "
         "GeckoShell.do_snapshot + GeckoCmd.do_logfile + GeckoSnapshot.parse_log_file, against real re.search per expression, "
         "and of pyReprBytes/litEval against CPython EXHAUSTIVELY on all 256 bytes and all 65 536 ordered byte pairs. "
         "Enumeration on the implementation (not a theorem): all 34 shipped snapshot files are parsed, loaded into the real "
         "GeckoSimulator and served to a real async and a real threaded-class client; the client block equals the parsed bytes. Traffic logs in segmentations from 4 to 255 bytes and uneven ones. Session 5: the identity a client learns through the real version / channel / config-file exchanges (firmware versions, platform, config and log table versions) equals the snapshot's, for every shipped record (8 of them have differing config and log versions). Round 15: the simulator at reliability 0.5 with a scripted random.random losing exactly one datagram (each of the first fifteen draws in turn) - the client ends with the loaded snapshot; blocks carrying the protocol's own markup in the traffic-log family (full log: known finding D18 for a closing tag inside a segment's data; records of whole datagrams only: must reassemble). Round 17: do_snapshot through a buffering log handler with the block replaced between the command and the flush - the snapshot is the block at the time of the command.",
    note="Trusted: Lean kernel; CPython's bytes.__repr__, ast.literal_eval, re and int() are modelled and validated by "
         "correspondence, not verified; the model's character classes are ASCII (SafeName requires printable ASCII names); "
         "the serving of shipped snapshots is an exhaustive enumeration of a finite set on the implementation "
         "(fault-free transfer is C01's theorem); sockets/threads are stepped by the harness.",
    technique="Lean 4 induction over a regex-engine model + source pin + differential correspondence (exhaustive on byte pairs) "
              "+ full enumeration of shipped snapshots on the real simulator/clients",
    design="5/C19",
)

CLIENT = ("10.0.0.7", 40001)
SPA_ADDR = ("10.0.0.1", 10022)
SPA_ID = b"SPA01:02:03:04:05:06"
CLI_ID = b"IOS02ac6d28-42d0-41e3-ad22-274d0aa491da"
SENDPARMS = (SPA_ADDR[0], SPA_ADDR[1], SPA_ID, CLI_ID)
TMP = "/tmp/verif_c19_%d" % os.getpid()


def hxs(s):
    return hx(s.encode("utf8"))


class O:
    pass


# ----------------------------------------------------------------------------------------------- real writer / logging
class Capture:
    """Real logging path: GeckoCmd.do_logfile installs the shell's FileHandler (its format string) on the root logger.
    Records get a deterministic creation time (no wall clock).  Everything is undone on exit."""

    def __enter__(self):
        from geckolib.utils.shell import GeckoShell
        from geckolib.utils.shared_command import GeckoCmd
        os.makedirs(TMP, exist_ok=True)
        self.path = os.path.join(TMP, "capture.log")
        self.root = logging.getLogger()
        self.saved = (self.root.level, list(self.root.handlers), logging.root.manager.disable, logging.getLogRecordFactory())
        logging.disable(logging.NOTSET)
        self.k = 0
        old = self.saved[3]

        def factory(*a, **kw):
            rec = old(*a, **kw)
            self.k += 1
            rec.created = 1607457208.0 + self.k * 7919.137
            rec.msecs = (rec.created - int(rec.created)) * 1000
            return rec
        logging.setLogRecordFactory(factory)
        self.shell = GeckoShell.__new__(GeckoShell)
        self.shell.file_logger = None
        self.shell.stream_logger = None
        self.GeckoShell = GeckoShell
        GeckoCmd.do_logfile(self.shell, self.path)       # the real handler + format
        return self

    def reset(self):
        h = self.shell.file_logger
        h.flush()
        h.stream.seek(0)
        h.stream.truncate(0)

    def text(self):
        self.shell.file_logger.flush()
        with open(self.path) as f:
            return f.read()

    def __exit__(self, *a):
        try:
            h = self.shell.file_logger
            if h is not None:
                self.root.removeHandler(h)
                h.close()
        finally:
            for h in list(self.root.handlers):
                if h not in self.saved[1]:
                    self.root.removeHandler(h)
            self.root.setLevel(self.saved[0])
            logging.disable(self.saved[2])
            logging.setLogRecordFactory(self.saved[3])
            try:
                os.remove(self.path)
                os.rmdir(TMP)
            except OSError:
                pass


def stub_spa(hdr, block):
    """what GeckoSpa holds after a connection (strings composed exactly as spa.py composes them)"""
    spa = O()
    spa.struct = O()
    spa.struct.status_block = block
    spa.revision = hdr["revision"]
    spa.intouch_version_en = "{0} v{1}.{2}".format(*hdr["en"])
    spa.intouch_version_co = "{0} v{1}.{2}".format(*hdr["co"])
    spa.pack = hdr["pack"]
    spa.version = "{0} v{1}.{2}".format(hdr["id"], hdr["rev"], hdr["rel"])
    spa.config_number = hdr["cn"]
    spa.config_version = hdr["cfg"]
    spa.log_version = hdr["log"]
    spa.pack_type = hdr["pt"]
    return spa


def exc_name(exc):
    t = type(exc)
    return t.__name__ if t.__module__ == "builtins" else f"{t.__module__}.{t.__name__}"


def failing_handler(exc):
    names = [f.name for f in traceback.extract_tb(exc.__traceback__) if f.filename.endswith("snapshot.py")]
    for n in reversed(names):
        if n.startswith("_re_"):
            return n
    return names[-1] if names else "?"


def exc_class(exc):
    h = failing_handler(exc)
    if isinstance(exc, pystruct.error):
        return "E_STRUCT", h
    if h == "_re_data_segment" and isinstance(exc, (SyntaxError, ValueError)):
        return "E_SYNTAX", h
    if isinstance(exc, ValueError):
        return "E_VALUE", h
    return type(exc).__name__, h


def opt(v):
    # (whatever type the parser keeps a field in - text or number - it is compared by its text)
    return "None" if v is None else "s" + hxs(v if isinstance(v, str) else str(v))


def tup(t):
    return "(" + ",".join(hxs(x if isinstance(x, str) else str(x)) for x in t) + ")"


def canon_snap(s):
    return "|".join([opt(s._name), opt(s._pack_type), opt(s._pack_conf_id), opt(s._pack_conf_rev), opt(s._pack_conf_rel),
                     tup(s._intouch_EN), tup(s._intouch_CO), opt(s._config_version), opt(s._log_version), hx(s._bytes)])


def real_parse_file(path):
    """real GeckoSnapshot.parse_log_file -> (answer line, snapshots | None, exception | None)"""
    from geckolib.utils.snapshot import GeckoSnapshot
    try:
        snaps = GeckoSnapshot.parse_log_file(path)
    except Exception as e:  # noqa
        return "err:" + exc_class(e)[0], None, e
    try:
        return "ok:%d:" % len(snaps) + ";".join(canon_snap(s) for s in snaps), snaps, None
    except Exception as e:  # noqa
        return "err:canon:" + type(e).__name__, snaps, e


def real_write(cap, name, hdr, block):
    """REAL GeckoShell.do_snapshot through the real file handler -> text of the log file"""
    cap.reset()
    cap.shell.facade = O()
    cap.shell.facade.spa = stub_spa(hdr, block)
    cap.GeckoShell.do_snapshot(cap.shell, name)
    return cap.text()


def real_write_buffered(cap, name, hdr, block):
    """the same through a BUFFERING log handler (logging.handlers.MemoryHandler in front of the shell's file handler - what an application
    does that batches its log output): the records are formatted when the buffer is flushed, and by then the spa has reported a change.
    The snapshot is the block as it was when the command ran."""
    import logging.handlers
    cap.reset()
    cap.shell.facade = O()
    spa = stub_spa(hdr, block)
    cap.shell.facade.spa = spa
    fh = cap.shell.file_logger
    root = logging.getLogger()
    mh = logging.handlers.MemoryHandler(capacity=10000, flushLevel=logging.CRITICAL + 1, target=fh)
    root.removeHandler(fh)
    root.addHandler(mh)
    try:
        cap.GeckoShell.do_snapshot(cap.shell, name)
        spa.struct.status_block = bytes((b + 1) % 256 for b in block)       # the next partial update / refresh replaces the block
        mh.flush()
    finally:
        root.removeHandler(mh)
        root.addHandler(fh)
        mh.target = None
        mh.close()
    return cap.text()


def check_roundtrip(snaps, name, hdr, block):
    """the property, directly on the real objects: first differing field or None"""
    if len(snaps) != 1:
        return "count", len(snaps)
    s = snaps[0]
    try:
        got = dict(name=s.name, packtype=s.packtype, spapack=s.spapack, en=s.intouch_EN, co=s.intouch_CO,
                   cfg=s.config_version, log=s.log_version)
    except Exception as e:  # noqa
        return "property:" + type(e).__name__, str(e)
    want = dict(name=name, packtype=hdr["pack"], spapack="%s %d v%d.%d" % (hdr["pack"], hdr["id"], hdr["rev"], hdr["rel"]),
                en=tuple(hdr["en"]), co=tuple(hdr["co"]), cfg=hdr["cfg"], log=hdr["log"])
    for k in want:
        if got[k] != want[k]:
            return k, [repr(want[k]), repr(got[k])]
    if s.bytes != block:
        i = next((i for i in range(min(len(block), len(s.bytes))) if block[i] != s.bytes[i]), min(len(block), len(s.bytes)))
        return "bytes", {"first_diff_at": i, "len_written": len(block), "len_parsed": len(s.bytes)}
    return None


# ----------------------------------------------------------------------------------------------- real simulator / clients
class Sim:
    def __init__(self):
        from geckolib.utils.simulator import GeckoSimulator
        root = logging.getLogger()
        h0, l0 = list(root.handlers), root.level
        try:
            self.sim = GeckoSimulator()
        finally:
            for h in list(root.handlers):
                if h not in h0:
                    root.removeHandler(h)
            root.setLevel(l0)
        self.errors = []

        class H(logging.Handler):
            def emit(_, rec):
                if rec.levelno >= logging.ERROR:
                    self.errors.append(rec.getMessage() + (": " + repr(rec.exc_info[1]) if rec.exc_info else ""))
        self.h = H()
        logging.getLogger("geckolib.utils.simulator").addHandler(self.h)

    def close(self):
        logging.getLogger("geckolib.utils.simulator").removeHandler(self.h)

    def load(self, snapshot):
        """real set_snapshot; it swallows its exceptions and logs them"""
        self.errors.clear()
        was = logging.root.manager.disable
        logging.disable(logging.NOTSET)
        try:
            self.sim.set_snapshot(snapshot)
        finally:
            logging.disable(was)
        return list(self.errors)

    def exchange(self, data):
        """one datagram into the real simulator socket's dispatcher; the datagrams it queues in reply (real framing)"""
        s = self.sim._socket
        s.dispatch_recevied_data(data, CLIENT)
        out = []
        while s._send_handlers:
            h, _dest = s._send_handlers.pop(0)
            out.append(h.send_bytes)
        return out


def serve_async(sim):
    """real GeckoAsyncStructure.get over a real GeckoAsyncUdpProtocol; the network is the real simulator"""
    from geckolib.driver import GeckoPacketProtocolHandler, GeckoStatusBlockProtocolHandler
    from geckolib.driver.async_spastruct import GeckoAsyncStructure
    from geckolib.driver.async_udp_protocol import GeckoAsyncUdpProtocol

    class Net:
        def __init__(self):
            self.proto = None
            self.unwrap = GeckoPacketProtocolHandler()

        def attach(self, tr):
            pass

        def sendto(self, tr, data, addr):
            for resp in sim.exchange(data):
                if self.unwrap.can_handle(resp, SPA_ADDR):
                    self.unwrap.handle(resp, SPA_ADDR)      # what GeckoAsyncSpa._async_on_packet does
                    self.proto.datagram_received(self.unwrap.packet_content, self.unwrap.parms)

    async def go(loop):
        proto = GeckoAsyncUdpProtocol(None, SPA_ADDR)
        loop.network.proto = proto
        tr = vloop.FakeTransport(loop, proto)
        proto.connection_made(tr)
        st = GeckoAsyncStructure(None, None)
        ok = await st.get(proto, lambda: GeckoStatusBlockProtocolHandler.full_request(
            proto.get_and_increment_sequence_counter(False), parms=SENDPARMS))
        return ok, st.status_block
    return vloop.run_virtual(go, network=Net())


def serve_identity(sim):
    """what a client learns about WHICH spa it talks to, through the real request/reply handlers over a real GeckoAsyncUdpProtocol:
    the firmware versions, the platform and the config / log table versions (the exchanges `_connect` makes before it asks for the
    block, built the way it builds them)"""
    from geckolib.driver import (GeckoPacketProtocolHandler, GeckoVersionProtocolHandler, GeckoConfigFileProtocolHandler,
                                 GeckoGetChannelProtocolHandler)
    from geckolib.driver.async_udp_protocol import GeckoAsyncUdpProtocol

    class Net:
        def __init__(self):
            self.proto = None
            self.unwrap = GeckoPacketProtocolHandler()

        def attach(self, tr):
            pass

        def sendto(self, tr, data, addr):
            for resp in sim.exchange(data):
                if self.unwrap.can_handle(resp, SPA_ADDR):
                    self.unwrap.handle(resp, SPA_ADDR)
                    self.proto.datagram_received(self.unwrap.packet_content, self.unwrap.parms)

    async def go(loop):
        proto = GeckoAsyncUdpProtocol(None, SPA_ADDR)
        loop.network.proto = proto
        tr = vloop.FakeTransport(loop, proto)
        proto.connection_made(tr)
        out = {}
        v = await proto.get(lambda: GeckoVersionProtocolHandler.request(proto.get_and_increment_sequence_counter(False), parms=SENDPARMS))
        if v is not None:
            out["en"] = (v.en_build, v.en_major, v.en_minor)
            out["co"] = (v.co_build, v.co_major, v.co_minor)
        c = await proto.get(lambda: GeckoGetChannelProtocolHandler.request(proto.get_and_increment_sequence_counter(False), parms=SENDPARMS))
        out["channel_answered"] = c is not None
        f = await proto.get(lambda: GeckoConfigFileProtocolHandler.request(proto.get_and_increment_sequence_counter(False), parms=SENDPARMS))
        if f is not None:
            out["platform"] = str(f.plateform_key)
            out["config_version"] = f.config_version
            out["log_version"] = f.log_version
        return out
    return vloop.run_virtual(go, network=Net())


def identity_of(sn):
    return {"en": tuple(sn.intouch_EN), "co": tuple(sn.intouch_CO), "channel_answered": True, "platform": str(sn.packtype),
            "config_version": sn.config_version, "log_version": sn.log_version}


class MockSock:
    def __init__(self):
        self.out = []

    def sendto(self, data, dest):
        self.out.append((data, dest))


def serve_sync(sim):
    """real GeckoStructure.retry_request over a real (stepped) GeckoUdpSocket with a mock OS socket"""
    from geckolib.driver import GeckoPacketProtocolHandler, GeckoStatusBlockProtocolHandler, GeckoStructure, GeckoUdpSocket
    cs = GeckoUdpSocket(socket=MockSock())
    cs.add_receive_handler(GeckoPacketProtocolHandler(socket=cs))
    gs = GeckoStructure(None)
    req = GeckoStatusBlockProtocolHandler.full_request(cs.get_and_increment_sequence_counter(False), parms=SENDPARMS)
    gs.retry_request(cs, req, SENDPARMS)
    steps = 0
    while cs._send_handlers and steps < 8:
        steps += 1
        cs._last_send_time = -1e9          # the 20 ms pacing is C20's business
        cs._process_send_requests()
        for data, _dest in cs._socket.out:
            for resp in sim.exchange(data):
                cs.dispatch_recevied_data(resp, SPA_ADDR)
        cs._socket.out.clear()
    return gs.had_at_least_one_block, gs.status_block


def real_traffic_log(cap, sim, block):
    """a traffic log as a user gets it (logfile + DEBUG): handshake line, then the real client socket's `Received ..` records
    of one full transfer served by the real simulator.  Returns the log text."""
    sn = O()
    sn.bytes = block
    sn.packtype = "inXM"
    sn.config_version = 9
    sn.log_version = 9
    sim.sim.snapshot = sn
    sim.sim.structure.set_status_block(block)
    cap.reset()
    logging.getLogger("geckolib.spa").info("Starting spa connection handshake...")   # spa.py:GeckoSpa.connect logs this line
    ok, got = serve_sync(sim)
    return cap.text(), ok, got


def closing_tag_inside_a_segment(block, size=39):
    return any(b"</DATAS>" in block[i:i + size] for i in range(0, len(block), size))


def framed_records_only(cap, block):
    """parse the captured traffic log again without the records of re-dispatched packet CONTENT (`Received b'STATV..`)"""
    import re as _re
    text = cap.text()
    kept = [l for l in text.splitlines(True) if not _re.search(r"Received b['\"]STATV", l)]
    path = cap.path + ".framed"
    with open(path, "w") as f:
        f.writelines(kept)
    try:
        ans, snaps, exc = real_parse_file(path)
    finally:
        os.unlink(path)
    if exc is not None:
        return True, f"{type(exc).__name__}: {exc}"
    b = snaps[-1].bytes if snaps else b""
    return b != block, {"len_transferred": len(block), "len_reassembled": len(b), "records_dropped": len(text.splitlines()) - len(kept)}


def segmented_traffic_log(cap, block, sizes):
    """a traffic log of a transfer in ANOTHER segmentation than the simulator's 39 bytes: each STATV datagram is built by the real
    response constructor, framed, and received by a real (unstarted) client socket, whose own DEBUG record is what lands in the log.
    `sizes` = segment lengths in order (their sum is the block length; at most 256 segments - the index is one byte)."""
    from geckolib.driver import GeckoPacketProtocolHandler, GeckoStatusBlockProtocolHandler, GeckoUdpSocket
    cs = GeckoUdpSocket(socket=MockSock())
    cs.add_receive_handler(GeckoPacketProtocolHandler(socket=cs))
    cap.reset()
    logging.getLogger("geckolib.spa").info("Starting spa connection handshake...")
    pos = 0
    for i, n in enumerate(sizes):
        nxt = 0 if i == len(sizes) - 1 else (i + 1) % 256
        dg = GeckoStatusBlockProtocolHandler.response(i % 256, nxt, block[pos:pos + n], parms=(SPA_ADDR[0], SPA_ADDR[1], CLI_ID, SPA_ID)).send_bytes
        cs.dispatch_recevied_data(dg, SPA_ADDR)
        pos += n
    return cap.text()


def segmentations(rng, quick):
    out = [("fixed-%d" % k, [k] * (1024 // k) + ([1024 % k] if 1024 % k else [])) for k in (4, 8, 15, 16, 39, 100, 255)]
    for _ in range(2 if quick else 20):
        sizes, left = [], 1024
        while left:
            n = min(left, rng.choice([1, 2, 5, 15, 39, 77, 255]))
            if len(sizes) == 255:
                n = min(left, 255)
            sizes.append(n)
            left -= n
        if len(sizes) <= 256:
            out.append(("uneven-%d" % len(sizes), sizes))
    return out


# ----------------------------------------------------------------------------------------------- generators
NAMES = [
    "[]", "STATV</DATAS>", "Starting spa connection handshake...",       # canonical inputs of the suspected defects first
    "Heating", "Pump 1 (low)", "", "a [b] c", "x[]y", "['0x1f']", "[ab, cd]", "[,]", "['0x100']", "[' 0x1 ']", "[0x1, 0x2]",
    "['0x1', '0x2']", "[x]", "[']", "[\\]", "[ ]", "['']", "['0x']", "['0x0x1']", "['f']", "[ 'A' ]",
    "Config version 3", "Log version 77", "Spa pack inYT 1 v2.3", "intouch version EN 1 v2.3", "intouch version CO 9 v8.7",
    "(((", ")))", "Snapshot (inner)", "a) b (c", "12345", "2020-12-08 19:53:28 Snapshot (x)", "INFO", "DEBUG",
    "PackType adjusted data = inYT", "PackConfID @ 297, Word raw data = 99", "PackConfRev @ 299, Byte raw data = 4",
    "Got software version 12 v1234/5 v6.7", "Got spa configuration Type 10 - CFG 61/LOG 61", "Spa is connected",
    "STATV\\x00\\x00\\x01A</DATAS>", "STATV", "</DATAS>", "'", "\"", "\\", "a'b\"c", "Snapshot", "Snapshot (", "0x", ",",
]
NAME_ALPHABET = "[]()'\",x0123456789abcdefABCDEF \\SsnapTV</>.:-_vGOL"


def gen_header(rng, labels, boundary=False):
    def n(hi):
        return rng.choice([0, 1, 9, 10, 99, 100, hi]) if boundary or rng.random() < 0.3 else rng.randrange(hi + 1)
    return dict(revision=rng.choice(["19.00", "33.00", "7.1", "0"]), en=(n(65535), n(255), n(255)), co=(n(65535), n(255), n(255)),
                pack=rng.choice(labels), id=n(65535), rev=n(255), rel=n(255), cn=n(255), cfg=n(999), log=n(999), pt=n(255))


def gen_block(rng, kind):
    if kind == "zero":
        return bytes(1024)
    if kind == "ones":
        return b"\xff" * 1024
    if kind == "cycle":
        return bytes(i % 256 for i in range(1024))
    if kind == "nibble":
        return bytes(rng.choice([0x0, 0x9, 0xa, 0xf, 0x10, 0x1f, 0x7f, 0x80, 0xff]) for _ in range(1024))
    if kind == "short":
        return bytes(rng.randrange(256) for _ in range(rng.choice([1, 2, 3, 39, 40])))
    return bytes(rng.randrange(256) for _ in range(1024))


def hdr_fields(hdr, version):
    return [hxs(version), hxs(hdr["revision"]), *map(str, hdr["en"]), *map(str, hdr["co"]), hxs(hdr["pack"]),
            str(hdr["id"]), str(hdr["rev"]), str(hdr["rel"]), str(hdr["cn"]), str(hdr["cfg"]), str(hdr["log"]), str(hdr["pt"])]


def is_model_text(t):
    return all(32 <= ord(c) <= 126 or c == "\n" for c in t)


# ----------------------------------------------------------------------------------------------- the check
def run(ctx):
    st = translate.run(["SnapshotSrc"])
    ctx.cov["translator"] = st
    for k, v in st.items():
        if v != "ok":
            ctx.obligation_broken(f"translate:{k}", v)
    ctx.lean_obligations("GeckoModel.Properties.C19")
    rng = ctx.rng
    from geckolib import VERSION
    from geckolib.utils.snapshot import GeckoSnapshot
    import gen_c19
    try:
        labels = gen_c19.pack_type_labels()
    except Exception as e:  # noqa
        ctx.obligation_broken("pack-labels", e)
        labels = ["inXM", "inYT"]
    try:
        table = GeckoSnapshot()._funcs
    except Exception as e:  # noqa
        ctx.violation("import:GeckoSnapshot", {"kind": "import"}, "GeckoSnapshot() builds its regex table", repr(e))
        return
    ops, impl, meta = [], [], []

    def op(line, answer, m=None):
        ops.append(line)
        impl.append(answer)
        meta.append(m)

    nontrivial = set()
    # ---------- (i) writer o parser on the real shell + real parse_log_file; direct search on the same compositions ----------
    n_rand = 60 if ctx.quick else 1200
    names = list(NAMES) + ["".join(rng.choice(NAME_ALPHABET) for _ in range(rng.randrange(0, 13))) for _ in range(n_rand)]
    names += ["é", "٣", "Config version ٣", "naïve [٣]"]
    kinds = ["zero", "ones", "cycle", "nibble", "short", "random", "random"]
    with Capture() as cap:
        # ---------- the snapshot is the block AT THE TIME OF THE COMMAND, also when the application buffers its log records ----------
        for kind_ in ("cycle", "random", "zero"):
            hdr = gen_header(rng, labels, boundary=False)
            block = gen_block(rng, kind_)
            inp = {"kind": "snapshot-buffered", "hdr": hdr, "block": block.hex()}
            try:
                real_write_buffered(cap, "buffered", hdr, block)
                ans, snaps, exc = real_parse_file(cap.path)
                d = ("raised", f"{exc_name(exc)}: {exc}") if exc is not None else check_roundtrip(snaps, "buffered", hdr, block)
            except Exception as e:  # noqa
                d = ("raised", f"{type(e).__name__}: {e}")
            ctx.count("evaluations")
            ctx.hist("writer_outcomes", "buffered:" + ("ok" if d is None else "differs"))
            if d is not None:
                ctx.violation(f"buffered-handler:{d[0]}", inp, "one snapshot holding the block as it was when the command ran", d[1])
                break
        for idx, name in enumerate(names):
            hdr = gen_header(rng, labels, boundary=(idx % 5 == 0))
            block = gen_block(rng, kinds[idx % len(kinds)])
            try:
                text = real_write(cap, name, hdr, block)
            except Exception as e:  # noqa
                ctx.violation("writer:" + type(e).__name__, {"kind": "snapshot", "name": name, "hdr": hdr, "block": block.hex()},
                              "do_snapshot writes its records", repr(e))
                continue
            ans, snaps, exc = real_parse_file(cap.path)
            ctx.count("evaluations")
            ctx.hist("writer_outcomes", ans.split(":")[0] + (":" + ans.split(":")[1] if ans.startswith("err") else ""))
            # -- direct oracle
            inp = {"kind": "snapshot", "name": name, "hdr": hdr, "block": block.hex()}
            bad = None
            if exc is not None:
                bad = (f"{exc_name(exc)}:{failing_handler(exc)}", f"{exc_name(exc)}: {exc}")
            else:
                d = check_roundtrip(snaps, name, hdr, block)
                if d is not None:
                    bad = ("extra-records" if d[0] == "count" else "mismatch:" + d[0], d[1])
            if bad:
                # attribute: does the same header/block pass with a plain name?
                try:
                    real_write(cap, "x", hdr, block)
                    a2, s2, e2 = real_parse_file(cap.path)
                    plain_ok = e2 is None and check_roundtrip(s2, "x", hdr, block) is None
                except Exception:  # noqa
                    plain_ok = False
                cause = "name" if plain_ok else "record"
                ctx.violation(f"{cause}:{bad[0]}", inp, "one snapshot with the written name, versions and bytes", bad[1])
            else:
                nontrivial.add(("snap", len(block), hdr["pack"], len(name), any(c in name for c in "[]()")))
            # -- correspondence (ASCII text only: the model's classes are ASCII)
            if is_model_text(text) and is_model_text(name):
                stamps = ",".join(hxs(l[:23]) for l in text.split("\n")[:11])
                if len(text.split("\n")) == 12:
                    op("write " + " ".join([hxs(name), hx(block), stamps] + hdr_fields(hdr, VERSION)), hxs(text), ("write", name))
                op("parse " + hxs(text), ans, ("parse-written", name))
                # SafeName => the real round trip works
                op("safe " + hxs(name), ("ok" if not bad else "fail:" + bad[0]), ("safe", name))
        ctx.cov["writer_cases"] = len(names)

        # ---------- (iii) shipped snapshots: parse, load, serve to both clients; traffic logs from a real transfer ----------
        sim = None
        try:
            sim = Sim()
        except Exception as e:  # noqa
            ctx.violation("simulator:construct", {"kind": "simulator"}, "GeckoSimulator() constructs", repr(e))
        files = sorted(glob.glob(str(REPO / "tests" / "snapshots" / "*.snapshot")))
        ctx.cov["shipped_files"] = len(files)
        shipped_blocks = []
        served = 0
        shipped_records = 0
        for f in files:
            base = os.path.basename(f)
            inp = {"kind": "shipped", "file": base}
            ans, snaps, exc = real_parse_file(f)
            ctx.count("evaluations")
            try:
                with open(f) as fh:
                    text = fh.read()
                if is_model_text(text):
                    op("parse " + hxs(text), ans, ("parse-shipped", base))
            except Exception:  # noqa
                pass
            if exc is not None or not snaps:
                ctx.violation(f"shipped:{base}:parse", inp, "parses to a snapshot", repr(exc) if exc else "0 snapshots")
                continue
            if len(snaps) != 1:
                # GeckoSimulator.do_load refuses such a file; every record in it is still checked below
                ctx.violation(f"shipped:{base}:count", inp, "the file holds exactly one snapshot (what `load` accepts)",
                              f"{len(snaps)} snapshots: {[sn.name for sn in snaps]}")
            for si, sn in enumerate(snaps):
                tag = base if len(snaps) == 1 else f"{base}#{si}"
                shipped_blocks.append((tag, sn.bytes))
                shipped_records += 1
                if sim is None:
                    continue
                try:
                    errs = sim.load(sn)
                    if errs or not sim.sim.structure.accessors:
                        ctx.violation(f"shipped:{tag}:load", inp, "set_snapshot finds pack, config and log modules", errs[:2] or "no accessors")
                        continue
                    if sim.sim.structure.status_block[:len(sn.bytes)] != sn.bytes or len(sn.bytes) != 1024:
                        ctx.violation(f"shipped:{tag}:load-bytes", inp, "simulator structure holds the 1024 parsed bytes", len(sn.bytes))
                        continue
                    ok, got = serve_async(sim)
                    if not ok or got != sn.bytes:
                        ctx.violation(f"shipped:{tag}:serve-async", inp, "async client block == parsed bytes", {"ok": ok, "len": len(got)})
                        continue
                    ok2, got2 = serve_sync(sim)
                    if not ok2 or got2 != sn.bytes:
                        ctx.violation(f"shipped:{tag}:serve-sync", inp, "threaded-class client block == parsed bytes", {"ok": ok2, "len": len(got2)})
                        continue
                    ident = serve_identity(sim)
                    ctx.hist("served_identity", f"{sn.packtype} cfg {sn.config_version} log {sn.log_version}")
                    if {k: str(v) for k, v in ident.items()} != {k: str(v) for k, v in identity_of(sn).items()}:
                        ctx.violation(f"shipped:{tag}:serve-identity", inp, {"the client learns the snapshot's identity": {k: str(v) for k, v in identity_of(sn).items()}},
                                      {k: str(v) for k, v in ident.items()})
                        continue
                    served += 1
                    nontrivial.add(("shipped", tag))
                except Exception as e:  # noqa
                    ctx.violation(f"shipped:{tag}:{type(e).__name__}", inp, "load and serve without exception", repr(e))
        ctx.cov["shipped_snapshot_records"] = shipped_records
        ctx.cov["shipped_loaded_and_served_to_both_clients"] = served

        # ---------- traffic logs produced by a real transfer (real socket DEBUG records through the real file handler) ----------
        if sim is not None:
            tblocks = [("both-quotes", bytes([0x22]) + bytes(1023)), ("brackets", bytes([0x5b, 0x5d]) + bytes(1022)),
                       ("zero", bytes(1024)), ("cycle", bytes(i % 256 for i in range(1024)))]
            # blocks carry free text (file names ...): the protocol's own markup inside the payload of a segment
            def with_text(*pieces):
                b = bytearray(i % 7 for i in range(1024))
                for at, txt in pieces:
                    b[at:at + len(txt)] = txt
                return bytes(b)
            tblocks += [("markup:end-of-data", with_text((100, b"</DATAS>"))),
                        ("markup:tags", with_text((50, b"<DATAS>STATV"), (130, b"</DATAS></PACKT>"), (300, b"</PACKT><PACKT><SRCCN>"), (700, b"</DATAS>"), (1016, b"</DATAS>"))),
                        ("markup:packet", with_text((200, b"</DATAS></PACKT><PACKT><SRCCN>x</SRCCN><DESCN>y</DESCN><DATAS>STATV")))]
            tblocks += [("shipped:" + b, blk) for b, blk in shipped_blocks if len(blk) == 1024][: (6 if ctx.quick else 40)]
            for i in range(6 if ctx.quick else 120):
                tblocks.append((f"random", bytes(rng.randrange(256) for _ in range(1024))))
            for i in range(4 if ctx.quick else 60):   # blocks that avoid the two known trouble makers
                tblocks.append((f"random-safe", bytes(rng.choice([x for x in range(256) if x not in (0x22, 0x5b)]) for _ in range(1024))))
            # ---------- the same for OTHER segmentations of the transfer (the property says: all segmentations) ----------
            segblocks = [("counting", bytes(i % 251 for i in range(1024))), ("random", bytes(rng.randrange(256) for _ in range(1024)))]
            for slabel, sizes in segmentations(rng, ctx.quick):
                for blabel, blk in segblocks[: (1 if ctx.quick and not slabel.startswith("fixed-1") else 2)]:
                    inp = {"kind": "traffic-segmentation", "block": blk.hex(), "sizes": sizes}
                    try:
                        text = segmented_traffic_log(cap, blk, sizes)
                        ans, snaps, exc = real_parse_file(cap.path)
                    except Exception as e:  # noqa
                        ctx.violation("traffic-segmentation:raised:" + type(e).__name__, inp, "the log is written and parsed", repr(e))
                        continue
                    ctx.count("evaluations")
                    ctx.hist("traffic_segmentations", slabel.split("-")[0] + (":" + slabel.split("-")[1] if slabel.startswith("fixed") else ""))
                    if exc is not None:
                        ctx.violation(f"traffic-segmentation:{exc_name(exc)}:{failing_handler(exc)}", inp, "the traffic log parses", repr(exc)[:200])
                    elif not snaps or snaps[-1].bytes != blk:
                        got = snaps[-1].bytes if snaps else b""
                        first = next((i for i in range(min(len(got), len(blk))) if got[i] != blk[i]), min(len(got), len(blk)))
                        ctx.violation("traffic-segmentation:wrong-bytes", inp, "the connection record reassembles to the transferred block",
                                      {"segments": len(sizes), "reassembled_length": len(got), "first_difference_at": first})
            for label, blk in tblocks:
                inp = {"kind": "traffic", "block": blk.hex()}
                try:
                    text, ok, got = real_traffic_log(cap, sim, blk)
                except Exception as e:  # noqa
                    ctx.violation("traffic:transfer:" + type(e).__name__, inp, "a fault-free transfer completes", repr(e))
                    continue
                if not ok or got != blk:
                    ctx.violation("traffic:transfer", inp, "a fault-free transfer completes (C01)", {"ok": ok})
                    continue
                ans, snaps, exc = real_parse_file(cap.path)
                ctx.count("evaluations")
                if exc is not None:
                    ctx.violation(f"traffic:{exc_name(exc)}:{failing_handler(exc)}", inp,
                                  "the connection record reassembles to the transferred block", f"{type(exc).__name__}: {exc}")
                elif not snaps or snaps[-1].bytes != blk:
                    b = snaps[-1].bytes if snaps else b""
                    i = next((i for i in range(min(len(b), len(blk))) if b[i] != blk[i]), min(len(b), len(blk)))
                    ctx.violation("traffic:wrong-bytes" + (":closing-tag-inside-segment-data" if closing_tag_inside_a_segment(blk) else ""), inp,
                                  "the connection record reassembles to the transferred block",
                                  {"first_diff_at": i, "len_transferred": len(blk), "len_reassembled": len(b), "snapshots": len(snaps or [])})
                else:
                    nontrivial.add(("traffic", label if not label.startswith("random") else hash(blk) % 10 ** 6))
                ctx.hist("traffic_outcomes", "ok" if exc is None and snaps and snaps[-1].bytes == blk else "fails")
                # the same log with the records of WHOLE datagrams only (what the Lean model of a traffic log holds; the socket also logs
                # the content of a packet when it re-dispatches it): reassembly must not depend on what the segment data holds
                fbad, fobs = framed_records_only(cap, blk)
                ctx.count("evaluations")
                if fbad:
                    ctx.violation("traffic-framed-records:wrong-bytes", {"kind": "traffic", "block": blk.hex(), "framed_only": True},
                                  "the records of the datagrams reassemble to the transferred block", fobs)
                if is_model_text(text):
                    op("parse " + hxs(text), ans, ("parse-traffic", label))
            sim.close()

    # ---------- (ii) bytes.__repr__ / replace / literal_eval against CPython: exhaustive singles and ordered pairs ----------
    seg_snap = GeckoSnapshot()

    def real_segment(body):
        """the REAL GeckoSnapshot._re_data_segment on the group `STATV<idx><next><len=255>` + body: the bytes it decodes"""
        try:
            del seg_snap._status_block_segments[:]
            with warnings.catch_warnings():
                warnings.simplefilter("ignore")
                seg_snap._re_data_segment(("STATV\\x01\\x01\\xff" + body,))
            return "ok:" + hx(seg_snap._status_block_segments[-1])
        except (SyntaxError, ValueError):
            return "err:E_SYNTAX"
        except Exception as e:  # noqa
            return "err:" + type(e).__name__

    seg_fail = [0]

    def rt(bs):
        r = repr(bs)
        got = real_segment(r[2:-1])
        # direct oracle on the real code (no model): the logged repr of a segment decodes to exactly the bytes that were sent
        if got != "ok:" + hx(bs):
            seg_fail[0] += 1
            if seg_fail[0] <= 3:
                ctx.violation("segment:" + ("wrong-bytes" if got.startswith("ok:") else got[4:]),
                              {"kind": "segment", "bytes": bs.hex()}, "the logged STATV record decodes to the bytes sent: " + bs.hex(),
                              got)
        return hxs(r) + " " + got
    for a in range(256):
        op("rt " + hx(bytes([a])), rt(bytes([a])), "rt1")
    for a in range(256):
        for b in range(256):
            op("rt " + hx(bytes([a, b])), rt(bytes([a, b])), "rt2")
    ctx.cov["repr_exhaustive"] = "all 256 single bytes and all 65536 ordered byte pairs"
    for _ in range(1500 if ctx.quick else 20000):
        n = rng.randrange(0, 60)
        pool = rng.choice([range(256), [0x27, 0x22, 0x5c, 0x41, 0x0a, 0x00, 0x7f, 0x80], range(0x20, 0x7f)])
        bs = bytes(rng.choice(pool) for _ in range(n))
        op("rt " + hx(bs), rt(bs), "rtN")
    # literal_eval on adversarial bodies (escapes the writer never produces): the model may answer out-of-model
    lit_alpha = "\\\\\\'\"xX0123456789abcdefgnrtuN{}AZ z~"
    for _ in range(1500 if ctx.quick else 20000):
        t = "".join(rng.choice(lit_alpha) for _ in range(rng.randrange(0, 10)))
        a = real_segment(t)
        op("lit " + hxs(t), a, "lit")

    # ---------- the block expression + element parser, and every other expression, on adversarial lines ----------
    def real_dline(line):
        m = re.search(table[7][0], line, re.DOTALL)
        if not m:
            return "nomatch"
        s = GeckoSnapshot()
        try:
            s._funcs[7][1](m.groups())
            return "bytes:" + hx(s._bytes)
        except ValueError:
            return "raises"
    dl_frag = ["[", "]", "'0x1f'", "'0x0'", "'0xFF'", "'0x100'", "'0x'", "'0xg'", "'1f'", "0x1", ", ", ",", ",\t", ",  ", " ,", " ", "\n",
               "\t", "\x1f", "x", "'", "]]", "[[", "['0x7'", "'0x7']", ")", "\\"]
    for _ in range(3000 if ctx.quick else 40000):
        line = "".join(rng.choice(dl_frag) for _ in range(rng.randrange(0, 9)))
        r = rng.random()
        if r < 0.4:
            line = "x INFO " + line + "\n"
        elif r < 0.6:
            line = "x INFO [" + line + "]" + rng.choice(["", "\n", " \n", "\t \n", " x\n", ")\n"])
        try:
            op("dline " + hxs(line), real_dline(line), "dline")
        except Exception as e:  # noqa
            ctx.obligation_broken("impl:_re_data", repr(e))
            break
    for bs in [bytes([0]), bytes([15, 16, 255]), bytes(range(256)), b""]:
        r = str([hex(b) for b in bs])
        op("blk " + hx(bs), hxs(r) + " " + real_dline(r), "blk")
    frag = ["Snapshot (", ")", "Spa pack ", " v", ".", " ", "intouch version EN ", "intouch version CO ", "Config version ",
            "Log version ", "PackType adjusted data = ", "PackConfID @ 297, Word raw data = ", "PackConfRev @ 299, Byte raw data = ",
            "PackConfRel @ 300, Byte raw data = ", "Got software version ", "/", "Got spa configuration Type ", " - CFG ", "/LOG ",
            "STATV", "</DATAS>", "12", "7", "0", "inYT", "_", "x", "\n", "'", "v1234/5", "ab", "  ", "Spa", "Got"]
    for _ in range(2500 if ctx.quick else 40000):
        line = "".join(rng.choice(frag) for _ in range(rng.randrange(1, 9)))
        k = rng.choice([2, 3, 4, 5, 6, 7, 9, 10, 11, 12, 13, 14, 15])
        try:
            m = re.search(table[k - 1][0], line, re.DOTALL)
            a = "none" if not m else "m:" + ",".join(hxs(g) for g in m.groups())
        except Exception as e:  # noqa
            a = "exc:" + type(e).__name__
        op(f"re {k} " + hxs(line), a, "re")

    # ---------- run the model on everything ----------
    try:
        model = Driver("Driver/C19.lean").run(ops)
    except DriverFailure as e:
        ctx.obligation_broken("driver:C19", e)
        model = None
    ndis, skipped = 0, 0
    if model is not None:
        for i, (mo, im) in enumerate(zip(model, impl)):
            kind = meta[i][0] if isinstance(meta[i], tuple) else meta[i]
            ctx.hist("correspondence_ops", kind)
            if "E_OUTOFMODEL" in mo:
                skipped += 1
                continue
            if kind == "safe":
                # implication only: SafeName => the real round trip works
                safe = "safe:1" in mo
                okimpl = im == "ok"
                good = not safe or okimpl
                if safe and okimpl:
                    nontrivial.add(("safe-name", meta[i][1]))
            else:
                good = mo == im
            if not good:
                ndis += 1
                if ndis <= 4:
                    ctx.obligation_broken("correspondence:snapshot-model-vs-implementation",
                                          {"op": ops[i][:160], "model": mo[:240], "impl": im[:240], "meta": str(meta[i])[:80]})
        ctx.cov["correspondence_ops_total"] = len(ops)
        ctx.cov["correspondence_disagreements"] = ndis
        ctx.cov["out_of_model_skipped"] = skipped
    for i in (0, 1, 2):
        if i < len(ops):
            ctx.sample({"op": ops[i][:120], "impl": impl[i][:120]})
    check_unreliable_simulator(ctx)
    ctx.cov["distinct_nontrivial"] = len(nontrivial)
    ctx.cov["exhaustive"] = False
    ctx.cov["exhaustive_parts"] = {"byte_pairs_repr_literal_eval": True, "shipped_snapshot_files": True, "writer_inputs": False}
    ctx.cov["rule"] = ("writer cases = %d catalogue names (brackets, parentheses, digits, header-like text, STATV text, the handshake "
                       "text, quotes, backslash) + seeded random names over a hostile alphabet + 4 non-ASCII names (search only), each with a "
                       "seeded header (boundary numbers every 5th; all shipped pack labels) and a block from {zeros, ones, 0..255 cycle, "
                       "nibble boundaries, short, random}; non-trivial = a case whose real round trip succeeded, distinct by (block length, "
                       "label, name length, has-brackets) / a shipped file served to both clients / a traffic log reassembled / a SafeName "
                       "confirmed. Exhaustive enumerations on the implementation: repr/literal_eval on all 1- and 2-byte strings; all shipped "
                       "snapshot files. Everything else is sampled; the for-all statements are the Lean theorems." % len(NAMES))
    ctx.assumptions += [
        "the shell's facade/spa is a stub holding the strings GeckoSpa composes ('{0} v{1}.{2}'.format); do_snapshot, version_strings, "
        "do_logfile's handler and format, parse_log_file are the real ones",
        "record creation times are set by a deterministic LogRecord factory (no wall clock)",
        "traffic logs: the handshake line is emitted by the harness on logger geckolib.spa (GeckoSpa.connect needs a network); the "
        "`Received ..` records come from the real GeckoUdpSocket.dispatch_recevied_data of the client",
        "snapshot names are single-line (cmd.Cmd hands do_snapshot the rest of one input line)",
    ]


def check_unreliable_simulator(ctx, only=None):
    """the simulator's `reliability` setting below 1: it loses whole datagrams, it never serves different bytes. A real blocking client
    session per shipped snapshot (quick: three), `random.random` scripted so that exactly one datagram is lost - each of the first
    answers in turn, so every segment of the first status block answer once: the client ends with the loaded snapshot's block"""
    import bsessions
    files = sorted(x.name for x in (REPO / "tests" / "snapshots").glob("*.snapshot"))
    files = files if ctx.tier == "thorough" else files[::max(1, len(files) // 3)][:3]
    for f in files:
        for d in range(1, 16):
            if only is not None and only != [f, d]:
                continue
            try:
                r = bsessions.unreliable_simulator(str(REPO / "tests" / "snapshots" / f), d)
            except Exception as e:  # noqa
                r = {"raised": f"{type(e).__name__}: {e}"}
            ctx.count("evaluations")
            ctx.hist("unreliable_simulator", "served" if r.get("connected") else "not-connected")
            if not r.get("connected") or r.get("differs_at"):
                ctx.violation("unreliable-simulator:served-changed", {"kind": "unreliable-simulator", "case": [f, d]},
                              "the client connects (asking again for what was lost) and holds the loaded snapshot's bytes", r)
                return


# ----------------------------------------------------------------------------------------------- replay
def replay(inp):
    kind = inp.get("kind")
    if kind == "unreliable-simulator":
        from common import Ctx
        c = Ctx("C19", "quick", 0)
        check_unreliable_simulator(c, only=inp["case"])
        return bool(c.violations), c.violations[0]["observed"] if c.violations else "served unchanged"
    if kind == "snapshot-buffered":
        block = bytes.fromhex(inp["block"])
        hdr = dict(inp["hdr"])
        hdr["en"], hdr["co"] = tuple(hdr["en"]), tuple(hdr["co"])
        with Capture() as cap:
            real_write_buffered(cap, "buffered", hdr, block)
            ans, snaps, exc = real_parse_file(cap.path)
        if exc is not None:
            return True, f"{type(exc).__name__}: {exc}"
        d = check_roundtrip(snaps, "buffered", hdr, block)
        return d is not None, {"difference": d}
    if kind == "snapshot":
        block = bytes.fromhex(inp["block"])
        hdr = dict(inp["hdr"])
        hdr["en"], hdr["co"] = tuple(hdr["en"]), tuple(hdr["co"])
        with Capture() as cap:
            real_write(cap, inp["name"], hdr, block)
            ans, snaps, exc = real_parse_file(cap.path)
        if exc is not None:
            return True, f"{type(exc).__name__}: {exc} (in {failing_handler(exc)})"
        d = check_roundtrip(snaps, inp["name"], hdr, block)
        return d is not None, {"difference": d}
    if kind == "traffic-segmentation":
        with Capture() as cap:
            blk = bytes.fromhex(inp["block"])
            segmented_traffic_log(cap, blk, inp["sizes"])
            ans, snaps, exc = real_parse_file(cap.path)
            bad = exc is not None or not snaps or snaps[-1].bytes != blk
            return bad, {"error": repr(exc)[:120] if exc else None, "reassembled_length": len(snaps[-1].bytes) if snaps else None}
    if kind == "traffic":
        block = bytes.fromhex(inp["block"])
        sim = Sim()
        try:
            with Capture() as cap:
                text, ok, got = real_traffic_log(cap, sim, block)
                ans, snaps, exc = real_parse_file(cap.path)
                if inp.get("framed_only"):
                    return framed_records_only(cap, block)
        finally:
            sim.close()
        if exc is not None:
            return True, f"{type(exc).__name__}: {exc} (in {failing_handler(exc)})"
        b = snaps[-1].bytes if snaps else b""
        return b != block, {"len_transferred": len(block), "len_reassembled": len(b), "equal": b == block}
    if kind == "segment":
        from geckolib.utils.snapshot import GeckoSnapshot
        bs = bytes.fromhex(inp["bytes"])
        s = GeckoSnapshot()
        try:
            with warnings.catch_warnings():
                warnings.simplefilter("ignore")
                s._re_data_segment(("STATV\\x01\\x01\\xff" + repr(bs)[2:-1],))
            got = bytes(s._status_block_segments[-1])
        except Exception as e:  # noqa
            return True, f"{type(e).__name__}: {e}"
        return got != bs, {"decoded": got.hex(), "sent": bs.hex()}
    if kind == "shipped":
        f = str(REPO / "tests" / "snapshots" / inp["file"])
        ans, snaps, exc = real_parse_file(f)
        if exc is not None or not snaps:
            return True, repr(exc) if exc else "0 snapshots"
        obs = {"snapshots": len(snaps)}
        bad = len(snaps) != 1
        sim = Sim()
        try:
            for i, sn in enumerate(snaps):
                errs = sim.load(sn)
                if errs or not sim.sim.structure.accessors:
                    obs[f"load#{i}"] = errs
                    bad = True
                    continue
                ok, got = serve_async(sim)
                ok2, got2 = serve_sync(sim)
                if not ok or not ok2 or got != sn.bytes or got2 != sn.bytes:
                    obs[f"serve#{i}"] = {"async_ok": ok, "sync_ok": ok2}
                    bad = True
                ident = serve_identity(sim)
                if {k: str(v) for k, v in ident.items()} != {k: str(v) for k, v in identity_of(sn).items()}:
                    obs[f"identity#{i}"] = {k: str(v) for k, v in ident.items()}
                    bad = True
        finally:
            sim.close()
        return bad, obs
    return False, "unknown replay kind"
