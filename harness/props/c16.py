"""C16 - sequence numbers: requests cycle 1..191, commands 192..255, never 0."""
import json
import asyncio
import itertools
import threading

import translate
from common import Driver, DriverFailure
import vloop

LEVEL = "proof"
MANIFEST = dict(
    text='Machine-checked Lean 4 proof, for every call sequence of any length and interleaving, that both counter implementations (translated statement-by-statement from the source on every run) hand out 1+k%191 / 192+k%64 (closed form), stay in range, are successors in their own cycle; that for ANY number of threads, any calls per thread and ANY scheduler interleaving the micro-operations of the threaded counter (acquire / snapshot / store / release, shape regenerated from the source) the numbers handed out are exactly those of one sequential caller (threads_serialise, by an inductive invariant; a snapshot taken outside the lock provably duplicates); and that every call site picks the right counter (decide over the regenerated call-site table). Tie: translator + full differential sweep of every reachable counter state against both real objects; wire clause checked on datagrams built by the real clients. Session 4: the wire clause drives every request-building site of both clients through MORE than one whole cycle of its counter on one connection (all 255 sequence values are seen on the wire): the sequence byte must be in the range of its verb, must be a number the connection counter handed out while that request was built (tap on the public method), and the content length of a verb must not depend on the sequence number. Round 15: ONE spa object connected, written through and disconnected three times - every connection (UDP endpoint) numbers 1, 2, 3 .. and 192, 193 .. on the wire like the first. Round 16: 140 000 requests and 70 000 commands in a row on each real counter object (past 2^16 / 2^17 calls).',
    note='Trusted: Lean kernel; axioms propext/Classical.choice/Quot.sound only; harness/translate.py+py2lean.py (cross-checked by the sweep); atomicity of threading.Lock; the abstraction of a lock region to one snapshot read + one write (the lock shape is extracted by the translator and cross-checked by pausing a real thread before every source line of the counter while a second real thread makes a call).',
    technique='Lean 4 induction over call sequences on source-translated definitions + decide over generated call-site table',
    design='5/C16',
)


def _impl_objects():
    """object 'a' = an async protocol, 's' = a threaded socket, 'b' / 't' = a SECOND connection of each kind (the counters are
    per connection: a second object must start its own cycles and never disturb the first)"""
    from geckolib.driver.async_udp_protocol import GeckoAsyncUdpProtocol
    from geckolib.driver.udp_socket import GeckoUdpSocket
    return {"a": GeckoAsyncUdpProtocol(None, None), "s": GeckoUdpSocket(), "b": GeckoAsyncUdpProtocol(None, None), "t": GeckoUdpSocket()}


def _sequences(ctx):
    """op sequences: (label, [(obj, kind)])"""
    seqs = []
    # the whole reachable product space: 191*64 states are visited by alternating; plus pure runs and seeded mixes
    n = 3 * 191 * 64 if not ctx.quick else 191 * 64 + 500
    seqs.append(("alternate", [(o, k) for i in range(n // 2) for (o, k) in (("a", i % 2 == 0), ("s", i % 2 == 0))]))
    seqs.append(("proto-only", [("a", False)] * 600 + [("s", False)] * 600))
    seqs.append(("cmd-only", [("a", True)] * 300 + [("s", True)] * 300))
    for j in range(3 if ctx.quick else 12):
        m = 4000 if ctx.quick else 30000
        seqs.append((f"random-{j}", [(ctx.rng.choice("as"), ctx.rng.random() < 0.4) for _ in range(m)]))
    # two connections of the same kind in one process (a second spa, or the new object a reconnect builds): each has its own cycles
    seqs.append(("second-connection", [("a", False)] * 93 + [("a", True)] * 7 + [("s", False)] * 93 + [("s", True)] * 7
                 + [("b", False), ("b", True), ("t", False), ("t", True)] * 3 + [("a", False), ("s", False), ("a", True), ("s", True)]))
    for j in range(2 if ctx.quick else 8):
        m = 3000 if ctx.quick else 30000
        seqs.append((f"random-two-connections-{j}", [(ctx.rng.choice("asbt"), ctx.rng.random() < 0.4) for _ in range(m)]))
    return seqs


def _succ(kind, x):
    if kind:
        return 192 if x == 255 else x + 1
    return 1 if x == 191 else x + 1


def search_counters(ctx, seqs):
    """direct oracle on the real objects: range, successor, independence of the two objects and kinds"""
    states = set()
    for label, ops in seqs:
        objs = _impl_objects()
        last = {(o_, k_): (191 if k_ else 0) for o_ in objs for k_ in (True, False)}
        for i, (o, k) in enumerate(ops):
            obj = objs[o]
            try:
                r = obj.get_and_increment_sequence_counter(k)
            except Exception as e:  # noqa
                r = f"raised {type(e).__name__}"
            exp = _succ(k, last[(o, k)])
            lo, hi = (192, 255) if k else (1, 191)
            if r != exp or not (isinstance(r, int) and lo <= r <= hi):
                prefix = [f"{oo} {'t' if kk else 'f'}" for oo, kk in ops[:i + 1]]
                ctx.violation(f"counter:{o}:{'cmd' if k else 'proto'}:after={last[(o, k)]}:got={r}",
                              {"kind": "counter", "ops": prefix[-400:], "note": f"last {len(prefix[-400:])} ops of sequence {label}"},
                              exp, r)
                return
            last[(o, k)] = r
            states.add((o, last[(o, False)], last[(o, True)]))      # (object, last protocol number, last command number) - from results only
            ctx.count("evaluations")
    ctx.cov["distinct_counter_states_visited"] = len(states)


def search_long_runs(ctx, only=None):
    """one connection used for a LONG time: 140 000 requests, 70 000 commands in a row on each real counter object (more than 2^16 and
    2^17 calls - any bounded bookkeeping inside the counter wraps), every number the successor of the one before"""
    for o in ("a", "s"):
        for k, n in ((False, 140000), (True, 70000)):
            if only is not None and only[:2] != [o, k]:
                continue
            obj = _impl_objects()[o]
            last = 191 if k else 0
            for i in range(n if only is None else only[2]):
                try:
                    r = obj.get_and_increment_sequence_counter(k)
                except Exception as e:  # noqa
                    r = f"raised {type(e).__name__}"
                exp = _succ(k, last)
                if r != exp:
                    ctx.violation(f"counter:long-run:{o}:{'cmd' if k else 'proto'}", {"kind": "long-run", "case": [o, k, i + 1]},
                                  f"call {i + 1} of one kind on one connection returns {exp} (the successor of {last})", r)
                    return
                last = r
            ctx.count("evaluations", n)
            ctx.hist("long_runs", f"{o}:{'cmd' if k else 'proto'}")


def correspondence(ctx, seqs):
    lines, impl = [], []
    for label, ops in seqs:
        objs = _impl_objects()
        lines.append("reset")
        impl.append("ok")
        for o, k in ops:
            obj = objs[o]
            lines.append(f"{o} {'t' if k else 'f'}")
            try:
                impl.append(str(obj.get_and_increment_sequence_counter(k)))
            except Exception as e:  # noqa
                impl.append(f"raised {type(e).__name__}")
    try:
        model = Driver("Driver/C16.lean").run(lines)
    except DriverFailure as e:
        ctx.obligation_broken("driver:C16", e)
        return
    ctx.cov["correspondence_ops"] = len(lines)
    for i, (m, r) in enumerate(zip(model, impl)):
        if m != r:
            ctx.obligation_broken("correspondence:generated-counter-vs-implementation",
                                  {"op_index": i, "op": lines[i], "model": m, "impl": r, "context": lines[max(0, i - 5):i + 1]})
            return
    ctx.sample({"ops": lines[1:9], "answers": impl[1:9]})


# ------------------------------------------------------------------ wire clause on the real clients
def _seq_byte(send_bytes):
    i = send_bytes.find(b"<DATAS>")
    body = send_bytes[i + 7:]
    return body[:5].decode("latin1"), body[5]


CYCLE = 200    # > 191 (protocol cycle) and > 3 * 64 (command cycle)


def _tap(obj):
    """record what the connection's counter hands out (through its public method, rebound on the instance): the wire byte
    of a request must be one of the numbers of the right kind handed out while that request was built"""
    handed = []
    orig = obj.get_and_increment_sequence_counter

    def tapped(command, *a, **k):
        v = orig(command, *a, **k)
        handed.append((bool(command), v))
        return v
    obj.get_and_increment_sequence_counter = tapped
    return handed


def _seq_row(send_bytes, handed):
    """(verb, sequence byte, numbers of that verb's kind handed out for this request, content length); clears `handed`"""
    verb, seq = _seq_byte(send_bytes)
    i = send_bytes.find(b"<DATAS>")
    j = send_bytes.find(b"</DATAS>")
    want = sorted({v for (c, v) in handed if c == (verb == "SPACK")})
    del handed[:]
    return verb, seq, want, j - i - 7


class _Desc:
    destination = ("10.0.0.1", 10022)
    identifier = b"SPA01:02:03:04:05:06"
    client_identifier = b"IOSclient"
    name = "n"
    ipaddress = "10.0.0.1"
    port = 10022


def wire_threaded():
    """(site, verb, seq) for requests built by the threaded client"""
    from geckolib.spa import GeckoSpa
    out = []

    def fresh():
        spa = GeckoSpa(_Desc())
        spa.pack_type = 6
        spa.config_version = 1
        spa.log_version = 2
        return spa

    def last(spa):
        return spa._send_handlers[-1][0].send_bytes

    class H:  # stub reply handlers
        en_build = en_major = en_minor = co_build = co_major = co_minor = 1
        channel = signal_strength = 1

    sender = ("10.0.0.1", 10022, _Desc.identifier, _Desc.client_identifier)
    # every site is driven through MORE than one whole cycle of its counter on one connection, so every value the counter
    # can take is seen on the wire (an encoding that is right for small values only shows at the top of the range)
    for name, fn in (("spa.py:_on_set_value", lambda s: s._on_set_value(10, 1, 5)),
                     ("spa.py:press", lambda s: s.press(1)),
                     ("spa.py:_on_version_received", lambda s: s._on_version_received(H(), sender)),
                     ("spa.py:_on_channel_received", lambda s: s._on_channel_received(H(), sender))):
        spa = fresh()
        ctr = _tap(spa)
        for k in range(CYCLE):
            try:
                fn(spa)
                out.append((name,) + _seq_row(last(spa), ctr))
            except Exception as e:  # noqa
                out.append((name, f"raised {type(e).__name__}: {e}", None, None, None))
                break
    # the threaded partial-update ack
    from geckolib.driver.protocol.statusblock import GeckoPartialStatusBlockProtocolHandler
    spa = fresh()
    ctr = _tap(spa)
    h = GeckoPartialStatusBlockProtocolHandler(spa)
    for k in range(CYCLE):
        try:
            h.handle(b"STATP\x01\x00\x10\x01\x02", sender)
            out.append(("statusblock.py:handle(STATP)",) + _seq_row(last(spa), ctr))
        except Exception as e:  # noqa
            out.append(("statusblock.py:handle(STATP)", f"raised {type(e).__name__}: {e}", None, None, None))
            break
    return out


def wire_async():
    from geckolib.async_spa import GeckoAsyncSpa
    from geckolib.async_tasks import AsyncTasks
    from geckolib.driver.async_udp_protocol import GeckoAsyncUdpProtocol
    out = []

    async def body(loop):
        async def ev(*a, **k):
            pass
        spa = GeckoAsyncSpa(b"IOSclient", _Desc(), AsyncTasks(), ev)
        proto = GeckoAsyncUdpProtocol(None, _Desc.destination)
        tr = vloop.FakeTransport(loop, proto)
        proto.connection_made(tr)
        spa._protocol = proto
        spa._is_connected = True
        spa._last_ping = loop.time()
        spa.pack_type, spa.config_version, spa.log_version = 6, 1, 2

        class L:
            begin, end = 256, 512
        spa.log_class = L()
        ctr = _tap(proto)
        for rnd in range(CYCLE // 6 + 1):
            for name in ("_get_version_handler_func", "_get_channel_handler_func", "_get_config_file_handler_func",
                         "_get_status_block_handler_func", "_get_watercare_handler_func", "_get_reminders_handler_func"):
                try:
                    out.append(("async_spa.py:" + name,) + _seq_row(getattr(spa, name)().send_bytes, ctr))
                except Exception as e:  # noqa
                    out.append(("async_spa.py:" + name, f"raised {type(e).__name__}: {e}", None, None, None))
        # the partial-update ack draws from the same protocol counter
        from geckolib.driver.protocol.statusblock import GeckoAsyncPartialStatusBlockProtocolHandler
        h = GeckoAsyncPartialStatusBlockProtocolHandler(proto)
        for _ in range(CYCLE):
            n0 = len(tr.sent)
            try:
                await h.async_handle(b"STATP\x01\x00\x10\x01\x02", ("10.0.0.1", 10022, _Desc.identifier, b"IOSclient"))
            except Exception as e:  # noqa
                out.append(("statusblock.py:async_handle(STATP)", f"raised {type(e).__name__}: {e}", None, None, None))
                break
            if len(tr.sent) > n0:
                out.append(("statusblock.py:async_handle(STATP)",) + _seq_row(tr.sent[n0][1], ctr))
            else:
                out.append(("statusblock.py:async_handle(STATP)", "nothing sent", None, None, None))
                break
        for rnd in range(CYCLE // 3 + 1):
            for name, mk in (("_on_async_set_value", lambda: spa._on_async_set_value(10, 2, 500)),
                             ("async_press", lambda: spa.async_press(3)),
                             ("async_set_watercare", lambda: spa.async_set_watercare(2))):
                n0 = len(tr.sent)
                t = asyncio.ensure_future(mk())
                await asyncio.sleep(0.5)
                t.cancel()
                try:
                    await t
                except BaseException:  # noqa
                    pass
                if len(tr.sent) > n0:
                    out.append(("async_spa.py:" + name,) + _seq_row(tr.sent[n0][1], ctr))
                else:
                    out.append(("async_spa.py:" + name, "nothing sent", None, None, None))
        return out

    return vloop.run_virtual(body)


def search_retry_numbers(ctx):
    """requests that are NOT answered (their retry path runs) with partial-update acknowledgements in between, on one connection:
    whatever the connection's counter hands out - to first transmissions, retransmissions and acknowledgements alike - is, per kind,
    the successor of what it handed out before"""
    from geckolib.async_spa import GeckoAsyncSpa
    from geckolib.async_tasks import AsyncTasks
    from geckolib.driver.async_udp_protocol import GeckoAsyncUdpProtocol
    from geckolib.driver.protocol.statusblock import GeckoAsyncPartialStatusBlockProtocolHandler
    out = {}

    async def body(loop):
        async def ev(*a, **k):
            pass
        spa = GeckoAsyncSpa(b"IOSclient", _Desc(), AsyncTasks(), ev)
        proto = GeckoAsyncUdpProtocol(None, _Desc.destination)
        tr = vloop.FakeTransport(loop, proto)
        proto.connection_made(tr)
        spa._protocol = proto
        spa._is_connected = True
        spa._last_ping = loop.time()
        spa.pack_type, spa.config_version, spa.log_version = 6, 1, 2
        handed = _tap(proto)
        h = GeckoAsyncPartialStatusBlockProtocolHandler(proto)
        sender = ("10.0.0.1", 10022, _Desc.identifier, b"IOSclient")

        async def chatter():
            for _ in range(12):
                await asyncio.sleep(2.3)
                await h.async_handle(b"STATP\x01\x00\x10\x01\x02", sender)
        ct = asyncio.ensure_future(chatter())
        # nobody answers: every request below runs its whole retry path (3 attempts each)
        await proto.get(lambda: spa._get_version_handler_func(), None, 3)
        await proto.get(lambda: spa._get_watercare_handler_func(), None, 2)
        t = asyncio.ensure_future(spa._on_async_set_value(10, 2, 500))
        await asyncio.sleep(14)
        t.cancel()
        ct.cancel()
        out["handed"] = list(handed)
        out["wire"] = [_seq_byte(d[1]) for d in tr.sent if b"<DATAS>" in d[1]]
    try:
        vloop.run_virtual(body)
    except Exception as e:  # noqa
        ctx.violation("retry-numbers:raised", {"kind": "retry-numbers"}, "the scenario runs", f"{type(e).__name__}: {e}")
        return
    ctx.count("evaluations", len(out["handed"]))
    ctx.cov["retry_scenario_numbers_handed_out"] = len(out["handed"])
    for kind, lo, n in ((False, 1, 191), (True, 192, 64)):
        vs = [v for (c, v) in out["handed"] if c == kind]
        for a, b in zip(vs, vs[1:]):
            if b != lo + (a - lo + 1) % n:
                ctx.violation(f"retry-numbers:not-successor:{'command' if kind else 'protocol'}", {"kind": "retry-numbers"},
                              "each number handed out is the successor of the previous one of its kind (unanswered requests retried, acknowledgements in between)",
                              {"handed_out_in_order": vs[:14], "wire": out["wire"][:14]})
                break


def search_wire(ctx):
    rows = []
    try:
        rows += wire_threaded()
    except Exception as e:  # noqa
        rows.append(("wire_threaded", f"raised {type(e).__name__}: {e}", None))
    try:
        rows += wire_async()
    except Exception as e:  # noqa
        rows.append(("wire_async", f"raised {type(e).__name__}: {e}", None))
    ctx.cov["wire_sites_checked"] = len({r[0] for r in rows})
    ctx.cov["wire_datagrams_checked"] = len(rows)
    ctx.cov["wire_sequence_values_seen"] = len({r[2] for r in rows if r[2] is not None})
    ctx.cov["wire_sequence_values_protocol_range"] = len({r[2] for r in rows if r[2] is not None and r[2] < 192})
    LEN = {}
    seen_bad = set()
    for row in rows:
        site, verb, seq, want, ln = (tuple(row) + (None, None))[:5]
        ctx.count("evaluations")
        if seq is None:
            if (site, "none") not in seen_bad:
                seen_bad.add((site, "none"))
                ctx.violation(f"wire:{site}:no-datagram", {"kind": "wire", "site": site}, "a sequenced request datagram", verb)
            continue
        rng = (192, 255) if verb == "SPACK" else (1, 191)
        if not (rng[0] <= seq <= rng[1]) and (site, "range") not in seen_bad:
            seen_bad.add((site, "range"))
            ctx.violation(f"wire:{site}:{verb}", {"kind": "wire", "site": site, "handed_out": want},
                          f"sequence byte of {verb} in {rng}", seq)
        elif want is not None and seq not in want and (site, "succ") not in seen_bad:
            seen_bad.add((site, "succ"))
            ctx.violation(f"wire-number:{site}:{verb}", {"kind": "wire", "site": site, "handed_out": want},
                          f"the sequence byte is a number of the {'command' if verb == 'SPACK' else 'protocol'} counter handed out for this request: {want}", seq)
        # one verb at one site has ONE content length whatever the sequence number is (the sequence is a single byte)
        if ln is not None:
            base = LEN.setdefault((site, verb), ln)
            if ln != base and (site, "len") not in seen_bad:
                seen_bad.add((site, "len"))
                ctx.violation(f"wire-length:{site}:{verb}", {"kind": "wire", "site": site, "handed_out": want},
                              f"content of {base} bytes as for the other sequence numbers", ln)
    ctx.sample({"wire": rows[:6]})


def search_threads(ctx):
    """supporting test (not a proof): 8 real threads hammer the threaded counter; the multiset of results must be the closed form"""
    from geckolib.driver.udp_socket import GeckoUdpSocket
    s = GeckoUdpSocket()
    per = 20000
    res = [[] for _ in range(8)]

    def work(i):
        kind = i % 2 == 0
        r = res[i]
        for _ in range(per):
            r.append((kind, s.get_and_increment_sequence_counter(kind)))
    ts = [threading.Thread(target=work, args=(i,)) for i in range(8)]
    [t.start() for t in ts]
    [t.join() for t in ts]
    for kind, lo, n in ((True, 192, 64), (False, 1, 191)):
        got = sorted(v for r in res for (k, v) in r if k == kind)
        total = 4 * per
        exp = sorted(lo + (i % n) for i in range(total))
        if got != exp:
            ctx.violation(f"threads:{'cmd' if kind else 'proto'}", {"kind": "threads", "threads": 8, "per_thread": per},
                          "multiset of results equals closed form", "differs (lost or duplicated update)")
    ctx.cov["real_thread_calls"] = 8 * per


def _paused_schedules(start, kind_a, kind_b, wait=0.05):
    """Two REAL threads on the real GeckoUdpSocket counter. Thread A is stopped before each source line of
    get_and_increment_sequence_counter in turn (line-granular pre-emption via sys.settrace); while it is stopped thread B
    attempts one whole call (if B blocks on the lock, A is resumed first). Yields (pause_line_offset, rA, rB, final counters)."""
    import sys
    from geckolib.driver.udp_socket import GeckoUdpSocket
    code = GeckoUdpSocket.get_and_increment_sequence_counter.__code__
    k = 0
    while k < 40:
        s = GeckoUdpSocket()
        for _ in range(start[0]):                       # reach the start state through the public method only
            s.get_and_increment_sequence_counter(False)
        for _ in range(start[1] - 191):
            s.get_and_increment_sequence_counter(True)
        paused, resume = threading.Event(), threading.Event()
        seen = {"n": 0, "line": None}
        res = {}

        def tracer(frame, event, arg):
            if frame.f_code is not code:
                return None

            def local(frame, event, arg):
                if event == "line":
                    if seen["n"] == k:
                        seen["line"] = frame.f_lineno - code.co_firstlineno
                        paused.set()
                        resume.wait(5)
                    seen["n"] += 1
                return local
            return local

        def run_a():
            sys.settrace(tracer)
            try:
                res["a"] = s.get_and_increment_sequence_counter(kind_a)
            except Exception as e:  # noqa
                res["a"] = f"raised {type(e).__name__}"
            finally:
                sys.settrace(None)
                paused.set()

        def run_b():
            try:
                res["b"] = s.get_and_increment_sequence_counter(kind_b)
            except Exception as e:  # noqa
                res["b"] = f"raised {type(e).__name__}"
        ta = threading.Thread(target=run_a, daemon=True)
        ta.start()
        paused.wait(5)
        if seen["line"] is None:        # A finished without reaching line event k: every pause point has been tried
            ta.join(5)
            return
        tb = threading.Thread(target=run_b, daemon=True)
        tb.start()
        tb.join(wait)                   # still alive = blocked on the lock held by A
        b_blocked = tb.is_alive()
        resume.set()
        ta.join(5)
        tb.join(5)
        # the counters afterwards, observed through one more call of each kind (minus that call)
        try:
            fin = (s.get_and_increment_sequence_counter(False), s.get_and_increment_sequence_counter(True))
        except Exception as e:  # noqa
            fin = (f"raised {type(e).__name__}",) * 2
        yield seen["line"], b_blocked, res.get("a"), res.get("b"), fin
        k += 1


def search_thread_schedules(ctx):
    """failing-input search for the concurrent-callers clause on the REAL threaded counter (no model involved): every
    line-granular pre-emption point of one call, with a second caller running a whole call there"""
    n = 0
    points = set()
    for start in ((0, 191), (190, 254), (191, 255), (57, 200)):
        for ka, kb in ((False, False), (True, True), (False, True), (True, False)):
            for line, blocked, ra, rb, fin in _paused_schedules(start, ka, kb):
                n += 1
                ctx.count("evaluations")
                points.add((line, blocked))
                x = {False: start[0], True: start[1]}
                if ka == kb:
                    first, second = _succ(ka, x[ka]), _succ(ka, _succ(ka, x[ka]))
                    ok = sorted([str(ra), str(rb)]) == sorted([str(first), str(second)])
                    exp_fin = (second, start[1]) if not ka else (start[0], second)
                else:
                    ok = ra == _succ(ka, x[ka]) and rb == _succ(kb, x[kb])
                    exp_fin = (_succ(False, start[0]), _succ(True, start[1]))
                exp_fin = (_succ(False, exp_fin[0]), _succ(True, exp_fin[1]))       # `fin` is what the NEXT call of each kind returns
                if not ok or fin != exp_fin:
                    ctx.violation(f"threads:schedule:{'cmd' if ka else 'proto'}+{'cmd' if kb else 'proto'}:pause-at-line+{line}",
                                  {"kind": "thread-schedule", "start": list(start), "kind_a": ka, "kind_b": kb, "pause_line_offset": line},
                                  f"two distinct successors; counters end at {exp_fin}", f"A got {ra}, B got {rb}, counters {fin}")
                    return
    ctx.cov["thread_schedules_run"] = n
    ctx.cov["thread_pause_points"] = sorted(f"line+{l}{' (B blocked on the lock)' if b else ''}" for l, b in points)


def run_reconnected_object(n_connections=3):
    """ONE `GeckoAsyncSpa` object connected, used and disconnected several times through its public connect / disconnect (the real
    `_connect` wiring, real simulator): per connection (= per UDP endpoint) the sequence bytes on the wire, by kind, in order of first
    appearance"""
    import fakenet
    from geckolib.async_spa import GeckoAsyncSpa
    from geckolib.async_spa_descriptor import GeckoAsyncSpaDescriptor
    from geckolib.async_tasks import AsyncTasks
    from props import c10
    out = []

    async def body(loop):
        sim = fakenet.make_sim(c10.SNAP)
        net = fakenet.Network(loop, sim, phases=[], seed=1)
        loop.network = net

        async def on_event(*a, **k):
            pass
        tm = AsyncTasks()
        async with tm:
            spa = GeckoAsyncSpa(b"IOSclient-uuid", GeckoAsyncSpaDescriptor(c10.IDENT.encode(), "Spa", fakenet.SIM_ADDR), tm, on_event)
            for conn in range(n_connections):
                n_tr = len(loop.transports)
                await asyncio.wait_for(spa.connect(), 300)
                await asyncio.sleep(1.0)
                rec = {"connection": conn + 1, "connected": spa.is_connected}
                if spa.is_connected:
                    tags = [t for t, a in spa.accessors.items() if a.read_write is not None and a.type == "Enum" and a.items
                            and len([x for x in a.items if x]) >= 2 and t.startswith("Ud")][:2]
                    for t in tags:
                        a = spa.accessors[t]
                        labs = [x for x in a.items if x]
                        try:
                            await asyncio.wait_for(a.async_set_value(labs[0] if a.value != labs[0] else labs[1]), 30)
                        except Exception as e:  # noqa
                            rec.setdefault("raised", []).append(f"{type(e).__name__}: {e}")
                    await asyncio.sleep(0.5)
                await asyncio.wait_for(spa.disconnect(), 60)
                await asyncio.sleep(0.5)
                prot, cmd = [], []
                for tr in loop.transports[n_tr:]:
                    for _t, data, _addr in tr.sent:
                        if b"<DATAS>" not in data:
                            continue
                        verb, seq = _seq_byte(data)
                        if verb == "APING":           # pings carry no number
                            continue
                        lst = cmd if verb == "SPACK" else prot
                        if not lst or lst[-1] != [verb, seq]:
                            lst.append([verb, seq])
                rec["endpoints"] = len(loop.transports) - n_tr
                rec["protocol"], rec["command"] = prot[:8], cmd[:4]
                out.append(rec)
                if not rec["connected"]:
                    break
    vloop.run_virtual(body, stable=True)
    return out


def search_reconnected_object(ctx):
    """'independently per connection': a connection's numbers do not depend on what the connections before it used - the same spa
    object connected again starts over like the first time"""
    try:
        recs = run_reconnected_object()
    except Exception as e:  # noqa
        ctx.violation("reconnected-object:raised", {"kind": "reconnected-object"}, "the same spa object connects again", f"{type(e).__name__}: {e}")
        return
    first = recs[0] if recs else None
    for r in recs:
        ctx.count("evaluations")
        ctx.hist("reconnected_object", "connected" if r["connected"] else "not-connected")
        bad = (not r["connected"] or r.get("raised") or not r["protocol"] or not r["command"]
               or r["protocol"][0][1] != 1 or r["command"][0][1] != 192
               or any(b[1] != _succ(False, a[1]) for a, b in zip(r["protocol"], r["protocol"][1:]))
               or any(b[1] != _succ(True, a[1]) for a, b in zip(r["command"], r["command"][1:]))
               or [r["protocol"], r["command"]] != [first["protocol"], first["command"]])
        if bad:
            ctx.violation("reconnected-object:numbers-carried-over", {"kind": "reconnected-object", "connection": r["connection"]},
                          "every connection of the object numbers its requests 1, 2, ... and its pack commands 192, 193, ... like the first one: " + json.dumps([first["protocol"], first["command"]]),
                          r)
            return


def run(ctx):
    st = translate.run(["SeqCounter", "Skeletons"])
    ctx.cov["translator"] = st
    if st["SeqCounter"] != "ok":
        ctx.obligation_broken("translate:SeqCounter", st["SeqCounter"])
    ctx.lean_obligations("GeckoModel.Properties.C16")
    seqs = _sequences(ctx)
    ctx.hist("sequence_lengths", "total_ops", sum(len(o) for _, o in seqs))
    if st["SeqCounter"] == "ok":
        correspondence(ctx, seqs)
    search_counters(ctx, seqs)
    search_wire(ctx)
    search_retry_numbers(ctx)
    search_thread_schedules(ctx)
    search_reconnected_object(ctx)
    search_long_runs(ctx)
    if not ctx.quick:
        search_threads(ctx)
    ctx.cov["distinct_nontrivial"] = ctx.cov.get("distinct_counter_states_visited", 0)
    ctx.cov["rule"] = ("op sequences over both real counter objects (alternating, single-kind, seeded random); a case is one call; "
                       "distinct non-trivial = distinct (object, protocol counter, command counter) states visited; "
                       "plus one datagram per request-building site of both clients for the wire clause")
    ctx.assumptions += ["threading.Lock gives atomicity of the threaded counter body (syntactic with-lock check by the translator; real-thread hammer in the thorough tier is a test)",
                        "call sites are found by AST walk for get_and_increment_sequence_counter(<literal>)"]


def replay(inp):
    from common import Ctx
    ctx = Ctx("C16", "quick", 0)
    if inp.get("kind") == "long-run":
        search_long_runs(ctx, only=inp["case"])
        return bool(ctx.violations), ctx.violations[0]["observed"] if ctx.violations else "successors"
    if inp.get("kind") == "reconnected-object":
        search_reconnected_object(ctx)
        return bool(ctx.violations), ctx.violations[0]["observed"] if ctx.violations else "every connection starts over"
    if inp.get("kind") == "retry-numbers":
        search_retry_numbers(ctx)
        return bool(ctx.violations), ctx.violations[0]["observed"] if ctx.violations else "successors"
    if inp.get("kind") == "wire":
        search_wire(ctx)
        v = [x for x in ctx.violations if x["input"].get("site") == inp.get("site")]
        return bool(v), v[0]["observed"] if v else "in range"
    if inp.get("kind") == "counter":
        ops = [(l.split()[0], l.split()[1] == "t") for l in inp["ops"]]
        search_counters(ctx, [("replay", ops)])
        return bool(ctx.violations), ctx.violations[0]["observed"] if ctx.violations else "ok"
    if inp.get("kind") == "thread-schedule":
        for line, blocked, ra, rb, fin in _paused_schedules(tuple(inp["start"]), inp["kind_a"], inp["kind_b"]):
            if line == inp["pause_line_offset"]:
                same = inp["kind_a"] == inp["kind_b"]
                bad = (ra == rb) if same else False
                x = {False: inp["start"][0], True: inp["start"][1]}
                if not same:
                    bad = ra != _succ(inp["kind_a"], x[inp["kind_a"]]) or rb != _succ(inp["kind_b"], x[inp["kind_b"]])
                else:
                    k = inp["kind_a"]
                    bad = sorted([str(ra), str(rb)]) != sorted([str(_succ(k, x[k])), str(_succ(k, _succ(k, x[k])))])
                return bad, f"A got {ra}, B got {rb}, counters {fin}"
        return False, "pause point not reached"
    search_threads(ctx)
    return bool(ctx.violations), ctx.violations[0]["observed"] if ctx.violations else "ok"
