"""C04 - wire format: every message round-trips and is claimed by exactly its verb."""
import itertools
import struct as pystruct

import translate
from common import Driver, DriverFailure, hx

LEVEL = "proof"
MANIFEST = dict(
    text="Lean 4 theorems over ALL field values (Python ints as Int, arbitrary byte strings and lists), stated about the definitions regenerated from the source on every run. (1) a constructor returns exactly for the in-range values, everything else raises (inRange_iff_encodes, encode_rejects). (2) for every one of the 24 packet message forms the content the constructor produces is decoded, by every handler class meant for it, to exactly the fields it was built from (roundtrip: generic struct pack/unpack inversion over the format strings read from the source; statp_roundtrip; reminders_roundtrip with signed days; setwc_roundtrip; files_roundtrip for every shipped platform name and EVERY pair of version numbers). (3) hello round trip for every spa name incl. names containing '|' (hello_roundtrip) and the broadcast / client forms. (4) the one regex of _extract_packet_parts is modelled as a backtracking matcher (leftmost start, greedy/lazy groups read from the source): framing round-trips for ARBITRARY payload bytes and all '<'-free identifier pairs (frame_roundtrip), replies are addressed back with source and destination swapped (reply_swaps), sender-to-receiver composition for every form (wire_roundtrip). (5) the content of EVERY message the library builds is accepted by exactly the handler class(es) of its verb among the standard classes, each datagram by exactly the hello / packet handler, verbs pairwise prefix-free, no orphan verbs (claimed_by_exactly, orphan_none, datagram_claimed, verbs_prefix_free). (6) the model reproduces all 83 byte vectors of tests/test_protocol.py (pinned_encode / pinned_decode / pinned_claims, re-extracted every run). What the code did before the fixes of D2/D3/D4 is kept as theorems about the explicit old parameters (hello_name_with_bar_fails, frame_roundtrip_fails, frame_roundtrip_greedy, hello_roundtrip_split, old_watercare_claims_miss_setwc_wcreq); the search tries those inputs first on every run."
         " Since session 3: every search message is also decoded on ONE long-lived instance per handler class in the roles where the library keeps an instance alive (hello, async partial update, the simulator's request handlers) and must give the fields it was built from; hello_history_independent proves it for the hello handler over the generated reset list (Model/HelloObject.lean). Session 4: a long-lived partial-update handler acknowledges two packets from one address that carry different identifier pairs: each acknowledgement must be addressed from the packet it answers. State inventory of the decoders (decoder_state_inventory over the regenerated skeletons of the packet, status-block and hello handlers). Every framed message also travels through the connection`s own receive path (real datagram_received, real packet consumer, real _async_on_packet) and must reach the verb consumers byte for byte. Round 14: the simulator's fan-out of one change to several pinged clients - every datagram, rendered when taken off the send queue, carries its own client's identifiers. Round 15: the simulator's ping answers are rendered after all clients have pinged and each must carry its own client's identifiers; every run of up to three (thorough: four) framing tags as the content of a packet, through the awaitable receive path and the blocking packet handler. Round 17: claimed_datagram_is_popped_before_any_await over the regenerated consume skeleton; the live connection's consumers (C07's rig) with a client handler that suspends longer than a polling interval - every datagram is popped by a consumer that accepts its verb.",
    note="Trusted: Lean kernel; harness/gen_c04.py (verbs, tags, struct formats per call site, can_handle verb lists, regex literals + greediness, hello split arity, literal payloads, platform names, test vectors: read from the source by ast; shapes outside the expected ones are refused); the hand-written slices / branch order / exception kinds of Model/Wire.lean and the backtracking reading of Python's re are tied to the code by a differential correspondence (real constructors' send_bytes, real handle(), every can_handle of every class, the real regex on an adversarial delimiter corpus, a malformed stream). latin-1 = identity on 0..255 is exercised, not proved. Layout oracle = the repository's own captured test vectors. int() inputs with signs/underscores/whitespace are out of model (skipped, counted). Identifiers are assumed free of '<'; STATP lists of the shape the 4-byte-record decoder reads; reminder types in GeckoReminderType; client identifiers start with IOS/AND.",
    technique="Lean 4 proofs by cases over an inductive message type + generic struct inversion + explicit backtracking-regex model; source-translated formats/verbs/regex shape; differential correspondence; encoder-decoder composition search on the real code",
    design="5/C04",
)

IP = ("10.0.0.7", 10022)
TAGS = [b"<SRCCN>", b"</SRCCN>", b"<DESCN>", b"</DESCN>", b"<DATAS>", b"</DATAS>", b"<PACKT>", b"</PACKT>", b"<HELLO>", b"</HELLO>"]
L1 = b"</SRCCN><DESCN>"
L2 = b"</DESCN><DATAS>"

HANDLERS = ["Hello", "Packet", "Ping", "Version", "GetChannel", "ConfigFile", "StatusBlock", "PartialStatusBlock",
            "AsyncPartialStatusBlock", "Watercare", "WatercareError", "UpdateFirmware", "Reminders", "RFErr", "PackCommand",
            "Unhandled"]
STANDARD = [h for h in HANDLERS if h != "Unhandled"]
CLASSNAME = {"Hello": "GeckoHelloProtocolHandler", "Packet": "GeckoPacketProtocolHandler", "Ping": "GeckoPingProtocolHandler",
             "Version": "GeckoVersionProtocolHandler", "GetChannel": "GeckoGetChannelProtocolHandler",
             "ConfigFile": "GeckoConfigFileProtocolHandler", "StatusBlock": "GeckoStatusBlockProtocolHandler",
             "PartialStatusBlock": "GeckoPartialStatusBlockProtocolHandler",
             "AsyncPartialStatusBlock": "GeckoAsyncPartialStatusBlockProtocolHandler", "Watercare": "GeckoWatercareProtocolHandler",
             "WatercareError": "GeckoWatercareErrorHandler", "UpdateFirmware": "GeckoUpdateFirmwareProtocolHandler",
             "Reminders": "GeckoRemindersProtocolHandler", "RFErr": "GeckoRFErrProtocolHandler",
             "PackCommand": "GeckoPackCommandProtocolHandler", "Unhandled": "GeckoUnhandledProtocolHandler"}

# form -> (intended handler classes, arg kinds)   i=int n=nat b=bytes s=latin-1 text r=reminders c=changes
FORMS = {
    "helloBroadcast": (["Hello"], ""), "helloClient": (["Hello"], "b"), "helloResponse": (["Hello"], "bs"),
    "pingRequest": (["Ping"], ""), "pingResponse": (["Ping"], ""),
    "versionRequest": (["Version"], "i"), "versionResponse": (["Version"], "iiiiii"),
    "channelRequest": (["GetChannel"], "i"), "channelResponse": (["GetChannel"], "ii"),
    "configRequest": (["ConfigFile"], "i"), "configResponse": (["ConfigFile"], "snn"),
    "statusRequest": (["StatusBlock"], "iii"), "statusSegment": (["StatusBlock"], "iib"),
    "partialUpdate": (["PartialStatusBlock", "AsyncPartialStatusBlock"], "c"),
    "partialAck": (["PartialStatusBlock", "AsyncPartialStatusBlock"], "i"),
    "keypress": (["PackCommand"], "iii"), "setValue": (["PackCommand"], "iiiiiii"), "packResponse": (["PackCommand"], ""),
    "wcRequest": (["Watercare"], "i"), "wcSet": (["Watercare"], "ii"), "wcResponse": (["Watercare"], "i"),
    "wcGiveSchedule": (["Watercare"], ""),
    "remindersRequest": (["Reminders"], "i"), "remindersResponse": (["Reminders"], "r"),
    "firmwareRequest": (["UpdateFirmware"], "i"), "firmwareResponse": (["UpdateFirmware"], ""), "rferr": (["RFErr"], ""),
}
VERB = {"pingRequest": b"APING", "pingResponse": b"APING", "versionRequest": b"AVERS", "versionResponse": b"SVERS",
        "channelRequest": b"CURCH", "channelResponse": b"CHCUR", "configRequest": b"SFILE", "configResponse": b"FILES",
        "statusRequest": b"STATU", "statusSegment": b"STATV", "partialUpdate": b"STATP", "partialAck": b"STATQ",
        "keypress": b"SPACK", "setValue": b"SPACK", "packResponse": b"PACKS", "wcRequest": b"GETWC", "wcSet": b"SETWC",
        "wcResponse": b"WCGET", "wcGiveSchedule": b"WCREQ", "remindersRequest": b"REQRM", "remindersResponse": b"RMREQ",
        "firmwareRequest": b"UPDTS", "firmwareResponse": b"SUPDT", "rferr": b"RFERR"}


# ------------------------------------------------------------------------------- the real code
class _Sock:
    """stub socket / protocol for the partial-update handlers"""

    def __init__(self, seq=1):
        self.sent = []
        self.seq = seq

    def queue_send(self, handler, *a):
        self.sent.append(handler)

    def get_and_increment_sequence_counter(self, command):
        return self.seq


def run_coro(coro):
    try:
        coro.send(None)
    except StopIteration as e:
        return e.value
    raise RuntimeError("coroutine suspended unexpectedly")


def canon_err(e):
    if isinstance(e, pystruct.error):
        return "err:E_STRUCT"
    if isinstance(e, OverflowError):
        return "err:E_OVERFLOW"
    if isinstance(e, IndexError):
        return "err:E_INDEX"
    if isinstance(e, ValueError):
        return "err:E_VALUE"
    if isinstance(e, (TypeError, AttributeError)):
        return "err:E_TYPE"
    return f"err:{type(e).__name__}"


def P():
    import geckolib.driver.protocol as p
    return p


def fresh(name, sock=None):
    cls = getattr(P(), CLASSNAME[name])
    if name == "Hello":
        return cls(b"")
    if name in ("PartialStatusBlock", "AsyncPartialStatusBlock"):
        return cls(sock if sock is not None else _Sock())
    return cls()


def build(form, args, p2=b"", p3=b"", sock=None):
    """the real handler built by the real constructor"""
    p = P()
    parms = (IP[0], IP[1], p2, p3)
    kw = dict(parms=parms)
    if form == "helloBroadcast":
        return p.GeckoHelloProtocolHandler.broadcast()
    if form == "helloClient":
        return p.GeckoHelloProtocolHandler.client(args[0])
    if form == "helloResponse":
        return p.GeckoHelloProtocolHandler.response(args[0], args[1].decode("latin1"))
    if form == "pingRequest":
        return p.GeckoPingProtocolHandler.request(**kw)
    if form == "pingResponse":
        return p.GeckoPingProtocolHandler.response(**kw)
    if form == "versionRequest":
        return p.GeckoVersionProtocolHandler.request(args[0], **kw)
    if form == "versionResponse":
        return p.GeckoVersionProtocolHandler.response(tuple(args[0:3]), tuple(args[3:6]), **kw)
    if form == "channelRequest":
        return p.GeckoGetChannelProtocolHandler.request(args[0], **kw)
    if form == "channelResponse":
        return p.GeckoGetChannelProtocolHandler.response(args[0], args[1], **kw)
    if form == "configRequest":
        return p.GeckoConfigFileProtocolHandler.request(args[0], **kw)
    if form == "configResponse":
        return p.GeckoConfigFileProtocolHandler.response(args[0].decode("latin1"), args[1], args[2], **kw)
    if form == "statusRequest":
        return p.GeckoStatusBlockProtocolHandler.request(args[0], args[1], args[2], **kw)
    if form == "statusSegment":
        return p.GeckoStatusBlockProtocolHandler.response(args[0], args[1], args[2], **kw)
    if form == "partialUpdate":
        return p.GeckoPartialStatusBlockProtocolHandler.report_changes(sock or _Sock(), [tuple(c) for c in args[0]], **kw)
    if form == "partialAck":
        # the STATQ reply is built inside handle(): let the real handler build it for a received STATP
        s = _Sock(args[0])
        h = p.GeckoPartialStatusBlockProtocolHandler(s)
        h.handle(b"STATP\x00", parms)
        return s.sent[0]
    if form == "keypress":
        return p.GeckoPackCommandProtocolHandler.keypress(args[0], args[1], args[2], **kw)
    if form == "setValue":
        return p.GeckoPackCommandProtocolHandler.set_value(*args, **kw)
    if form == "packResponse":
        return p.GeckoPackCommandProtocolHandler.response(**kw)
    if form == "wcRequest":
        return p.GeckoWatercareProtocolHandler.request(args[0], **kw)
    if form == "wcSet":
        return p.GeckoWatercareProtocolHandler.set(args[0], args[1], **kw)
    if form == "wcResponse":
        return p.GeckoWatercareProtocolHandler.response(args[0], **kw)
    if form == "wcGiveSchedule":
        return p.GeckoWatercareProtocolHandler.giveschedule(**kw)
    if form == "remindersRequest":
        return p.GeckoRemindersProtocolHandler.request(args[0], **kw)
    if form == "remindersResponse":
        return p.GeckoRemindersProtocolHandler.response([tuple(r) for r in args[0]], **kw)
    if form == "firmwareRequest":
        return p.GeckoUpdateFirmwareProtocolHandler.request(args[0], **kw)
    if form == "firmwareResponse":
        return p.GeckoUpdateFirmwareProtocolHandler.response(**kw)
    if form == "rferr":
        return p.GeckoRFErrProtocolHandler.response(**kw)
    raise KeyError(form)


def impl_send(form, args, p2, p3):
    """(answer line, datagram or None, content or None)"""
    try:
        h = build(form, args, p2, p3)
        dg = h.send_bytes
        return "ok " + hx(dg), dg, getattr(h, "_content", None)
    except Exception as e:  # noqa
        return canon_err(e), None, None


def show_val(v):
    if v is None:
        return "None"
    if isinstance(v, bool):
        return "b1" if v else "b0"
    if isinstance(v, int):
        return f"i{int(v)}"
    if isinstance(v, (bytes, bytearray)):
        return "x" + hx(bytes(v))
    if isinstance(v, str):
        try:
            return "x" + hx(v.encode("latin1"))
        except Exception:  # noqa
            return "other:str-not-latin1"
    return f"other:{type(v).__name__}"


def attrs_of(name, h):
    g = lambda a: getattr(h, a, None)  # noqa
    rm = ("should_remove_handler", bool(h.should_remove_handler))
    if name == "Hello":
        return [("was_broadcast_discovery", g("was_broadcast_discovery")), ("_client_identifier", g("_client_identifier")),
                ("_spa_identifier", g("_spa_identifier")), ("_spa_name", g("_spa_name")), rm]
    if name == "Packet":
        pr = h.parms or (None, None, None, None)
        return [("parms[2]", pr[2]), ("parms[3]", pr[3]), ("packet_content", h.packet_content), rm]
    if name == "Ping":
        return [("_sequence", g("_sequence")), rm]
    if name == "Version":
        return [("_sequence", g("_sequence"))] + [(a, g(a)) for a in ("en_build", "en_major", "en_minor", "co_build", "co_major", "co_minor")] + [rm]
    if name == "GetChannel":
        return [("_sequence", g("_sequence")), ("channel", g("channel")), ("signal_strength", g("signal_strength")), rm]
    if name == "ConfigFile":
        return [("_sequence", g("_sequence")), ("plateform_key", g("plateform_key")), ("config_version", g("config_version")),
                ("log_version", g("log_version")), rm]
    if name == "StatusBlock":
        return [(a, g(a)) for a in ("sequence", "start", "length", "next", "data")] + [rm]
    if name in ("PartialStatusBlock", "AsyncPartialStatusBlock"):
        return [("sequence", g("sequence")), ("changes", "c[" + ",".join(f"{int(p)}:{hx(bytes(d))}" for p, d in h.changes) + "]"), rm]
    if name == "PackCommand":
        return [("_sequence", g("_sequence")), ("pack_type", g("pack_type")), ("is_key_press", g("is_key_press")), ("keycode", g("keycode")),
                ("is_set_value", g("is_set_value")), ("position", g("position")), ("new_data", g("new_data")), rm]
    if name == "Watercare":
        return [("_sequence", g("_sequence")), ("mode", g("mode")), ("schedule", g("schedule")), rm]
    if name == "Reminders":
        return [("_sequence", g("_sequence")), ("reminders", "p[" + ",".join(f"{int(t)}:{int(d)}" for t, d in h.reminders) + "]"), rm]
    if name == "UpdateFirmware":
        return [("_sequence", g("_sequence")), rm]
    if name == "RFErr":
        return [("total_error_count", h.total_error_count), rm]
    return [rm]


def impl_handle(name, data, sock=None):
    """(handler or None, exception or None) after handle(data) on a fresh instance"""
    try:
        h = fresh(name, sock)
        if name == "AsyncPartialStatusBlock":
            run_coro(h.async_handle(data, (IP[0], IP[1], b"S", b"D")))
        else:
            h.handle(data, (IP[0], IP[1], b"S", b"D"))
        return h, None
    except Exception as e:  # noqa
        return None, e


def _fmt_attrs(name, h):
    return "ok " + ";".join(f"{a}={v if isinstance(v, str) and v[:2] in ('c[', 'p[') and a in ('changes', 'reminders') else show_val(v)}"
                            for a, v in attrs_of(name, h))


# ---- long-lived instances: the simulator, the locator and every connection keep ONE handler object per verb for many messages.
# A message must decode to the fields it was built from whatever the same object decoded before. Checked for the roles in which
# the library really keeps an instance alive: hello (simulator, locator), packet (every connection, simulator), the async
# partial-update consumer, and the simulator's per-verb request handlers (which only ever see requests).
ROLE_FORMS = {
    "Hello": ("helloBroadcast", "helloClient", "helloResponse"),
    "AsyncPartialStatusBlock": ("partialUpdate",),
    "Ping": ("pingRequest",), "Version": ("versionRequest",), "GetChannel": ("channelRequest",), "ConfigFile": ("configRequest",),
    "StatusBlock": ("statusRequest",), "PackCommand": ("keypress", "setValue"), "Watercare": ("wcRequest", "wcSet"),
    "Reminders": ("remindersRequest",), "UpdateFirmware": ("firmwareRequest",),
}
LONG = {}        # class name -> [instance, previous message input]
ACK_LONG = {}    # partial-update class name -> (instance, its recording socket)
ACK_PREV = {}


def ack_addressing(name, content, p2, p3):
    """None | what is wrong with the STATQ the long-lived partial-update consumer queued for this STATP (received from
    ip:port with SRCCN p3 and DESCN p2): it must go to that ip:port framed with SRCCN p2 / DESCN p3"""
    ent = ACK_LONG.get(name)
    if ent is None:
        sock = _Sock()
        ent = ACK_LONG[name] = (fresh(name, sock), sock)
    h, sock = ent
    sender = (IP[0], IP[1], p3, p2)
    n0 = len(sock.sent)
    try:
        if name == "AsyncPartialStatusBlock":
            run_coro(h.async_handle(content, sender))
        else:
            h.handle(content, sender)
            h.changes.clear()                       # what the blocking client does after applying
        new = sock.sent[n0:]
        if len(new) != 1:
            return {"acknowledgements_queued": len(new)}
        got = new[0].send_bytes
        want_prefix = b"<PACKT><SRCCN>" + p2 + b"</SRCCN><DESCN>" + p3 + b"</DESCN><DATAS>STATQ"
        if not got.startswith(want_prefix):
            ACK_LONG.pop(name, None)
            return {"acknowledgement": hx(got[:120]), "expected_to_start_with": hx(want_prefix)}
    except Exception as e:  # noqa
        ACK_LONG.pop(name, None)
        return {"raises": f"{type(e).__name__}: {e}"}
    return None


def reuse_decode(name, form, content, exp, this_input):
    """-> None | (differing attributes, previous message input)"""
    if form not in ROLE_FORMS.get(name, ()):
        return None
    ent = LONG.get(name)
    if ent is None:
        ent = LONG[name] = [fresh(name), None]
    h, prev = ent
    bad = {}
    try:
        if name == "AsyncPartialStatusBlock":
            run_coro(h.async_handle(content, (IP[0], IP[1], b"S", b"D")))
        else:
            h.handle(content, (IP[0], IP[1], b"S", b"D"))
        for a, v in exp.items():
            if a == "should_remove_handler":
                continue
            try:
                got = read_attr(h, a)
            except Exception as e3:  # noqa
                got = f"<{type(e3).__name__}>"
            if got != v or type(got) is not type(v) and not isinstance(v, (int, list)):
                bad[a] = [repr(v)[:120], repr(got)[:120]]
    except Exception as e:  # noqa
        bad = {"raises": f"{type(e).__name__}: {e}"}
    if bad:
        LONG.pop(name, None)
        return bad, prev
    ent[1] = this_input
    return None


def impl_dec(name, data):
    h, e = impl_handle(name, data)
    if e is not None:
        r = canon_err(e)
    else:
        try:
            r = _fmt_attrs(name, h)
        except Exception as e:  # noqa
            r = canon_err(e)
    return r


def impl_claims(data):
    out = []
    for n in HANDLERS:
        try:
            if fresh(n).can_handle(data, (IP[0], IP[1], b"S", b"D")):
                out.append(n)
        except Exception as e:  # noqa
            out.append(f"{n}!{type(e).__name__}")
    return out


def impl_ext(data):
    try:
        r = fresh("Packet")._extract_packet_parts(data)
        if r[0] is None:
            return "none"
        return "some " + " ".join(hx(x) for x in r)
    except Exception as e:  # noqa
        return canon_err(e)


def impl_reply(received, reply):
    try:
        h = fresh("Packet")
        h.handle(received, IP)
        if h.parms[2] is None:
            return "none"
        r = P().GeckoPacketProtocolHandler(content=reply, parms=h.parms)
        return "ok " + hx(r.send_bytes)
    except Exception as e:  # noqa
        return canon_err(e)


# ------------------------------------------------------------------------------- generators
U8 = [0, 1, 2, 57, 70, 127, 128, 191, 192, 254, 255]
U16 = [0, 1, 255, 256, 637, 1023, 1024, 32767, 32768, 65534, 65535]
I16 = [-32768, -32767, -13, -1, 0, 1, 128, 257, 32766, 32767]


def g_int(rng, pool, lo, hi, bad, oor):
    r = rng.random()
    if oor and r < 0.06:
        return rng.choice(bad)
    if r < 0.6:
        return rng.choice(pool)
    return rng.randrange(lo, hi + 1)


def g_u8(rng, oor=True):
    return g_int(rng, U8, 0, 255, [-1, 256, 1000, -200], oor)


def g_u16(rng, oor=True):
    return g_int(rng, U16, 0, 65535, [-1, 65536, 70000], oor)


def g_i16(rng, oor=True):
    return g_int(rng, I16, -32768, 32767, [-32769, 32768, 65535], oor)


def g_payload(rng, maxlen=255, delim=0.25):
    """arbitrary bytes with embedded newlines, NULs, tags, verbs, '|', quotes"""
    r = rng.random()
    n = rng.choice([0, 1, 2, 3, 4, 5, 38, 39, 40, 254, 255]) if r < 0.3 else rng.randrange(0, 48)
    parts = []
    total = 0
    while total < n:
        k = rng.random()
        if k < delim:
            piece = rng.choice(TAGS + [L1, L2, L1 + b"x" + L2] * 4 + [b"|", b"'", b'"', b"\n", b"\r\n", b"\x00", b".xml", b",", b"_"]
                               + list(VERB.values()))
        elif k < delim + 0.2:
            piece = bytes([rng.choice([0, 10, 13, 60, 62, 47, 124, 255, 128, 34, 39])])
        else:
            piece = bytes(rng.randrange(256) for _ in range(rng.randrange(1, 6)))
        parts.append(piece)
        total += len(piece)
    out = b"".join(parts)[:max(n, 0)] if rng.random() < 0.5 else b"".join(parts)
    return out[:maxlen]


def g_ident(rng, kind=None):
    """identifier without '<' (ids on the wire are IOS<uuid> / AND<uuid> / SPA<mac>)"""
    kind = kind or rng.choice(["ios", "and", "spa", "odd"])
    if kind == "ios":
        base = b"IOS" + bytes(rng.choice(b"0123456789abcdef-") for _ in range(rng.choice([0, 1, 8, 36])))
    elif kind == "and":
        base = b"AND" + bytes(rng.choice(b"0123456789abcdef-") for _ in range(rng.choice([0, 8, 36])))
    elif kind == "spa":
        base = b"SPA" + b":".join(b"%02x" % rng.randrange(256) for _ in range(6))
    else:
        base = bytes(rng.choice([0, 10, 32, 47, 62, 65, 73, 79, 83, 124, 128, 255, rng.randrange(256)]) for _ in range(rng.randrange(0, 8)))
    return base.replace(b"<", b"(")


def g_name(rng):
    r = rng.random()
    if r < 0.25:
        return rng.choice([b"", b"Spa", b"My Spa", b"Name", b"a|b", b"|", b"||", b"Caf\xe9 Spa", b"1", b"IOS", b"x\ny", b"\x00"])
    if r < 0.40:
        # latin-1 names whose BYTES are also well-formed multi-byte UTF-8 (a decoder that tries UTF-8 first changes them)
        lead = rng.choice([(0xC2, 0xA0 + rng.randrange(0x20)), (0xC3, 0x80 + rng.randrange(0x40)), (0xC2, 0xAE), (0xC3, 0xA9),
                           (0xE2, 0x82, 0xAC), (0xF0, 0x9F, 0x98, 0x80)])
        return rng.choice([b"", b"Spa ", b"x"]) + bytes(lead) + rng.choice([b"", b" t", bytes(rng.choice([(0xC3, 0xBC), (0xC2, 0xB0)]))])
    return bytes(rng.choice([32, 65, 97, 124, 233, 255, 10, 0, 60, 62, rng.randrange(256)]) for _ in range(rng.randrange(0, 12)))


def platforms():
    try:
        import gen_c04
        return [n.encode("latin1") for _, n in gen_c04.platform_names()] + [b"MrSt", b"inXM"]
    except Exception:  # noqa
        return [b"inXM", b"MrSt"]


def g_args(rng, form, plats, wide):
    """wide=True: the correspondence domain (incl. out-of-range, out-of-domain); False: the property's domain"""
    if form == "helloClient":
        return [g_ident(rng, None if wide else rng.choice(["ios", "and"]))]
    if form == "helloResponse":
        ident = g_ident(rng, None if wide else "spa")
        if not wide:
            ident = ident.replace(b"|", b"!")
        return [ident, g_name(rng)]
    if form == "configResponse":
        p = rng.choice(plats)
        if wide and rng.random() < 0.3:
            p = rng.choice([b"", b"in_XM", b"a,b", b"x.xml", b"Mr.St", b"caf\xe9", b"A B", b"in XM"])
        v = lambda: rng.choice([0, 1, 7, 9, 10, 64, 99, 100, 255, rng.randrange(0, 100)])  # noqa
        return [p, v(), v()]
    if form == "statusSegment":
        blk = g_payload(rng, 256 if wide else 255)
        if wide and rng.random() < 0.04:
            blk = bytes(256)
        return [g_u8(rng, wide), g_u8(rng, wide), blk]
    if form == "partialUpdate":
        r = rng.random()
        if wide:
            n = rng.choice([0, 1, 1, 2, 3, 5]) if r < 0.97 else rng.choice([255, 256])
            return [[[g_u16(rng, n < 10), bytes(rng.randrange(256) for _ in range(rng.choice([0, 1, 2, 2, 2, 3])))] for _ in range(n)]]
        n = rng.choice([0, 1, 1, 1, 2, 3, 7]) if r < 0.97 else 255
        ch = [[g_u16(rng, False), bytes(rng.randrange(256) for _ in range(2))] for _ in range(n)]
        if ch:
            ch[-1][1] = bytes(rng.randrange(256) for _ in range(rng.choice([0, 1, 1, 2, 2])))
        return [ch]
    if form == "setValue":
        ln = rng.choice([1, 2]) if not wide or rng.random() < 0.9 else rng.choice([0, 3, -1, 251])
        data = g_u8(rng, wide) if ln == 1 else g_u16(rng, wide)
        if wide and rng.random() < 0.1:
            data = g_u16(rng, True)
        return [g_u8(rng, wide), g_u8(rng, wide), g_u8(rng, wide), g_u8(rng, wide), g_u16(rng, wide), ln, data]
    if form == "remindersResponse":
        n = rng.choice([0, 1, 2, 7, 10])
        ty = (lambda: rng.choice([0, 1, 2, 3, 4, 5, 6, 7, 8, 255, g_u8(rng, True)])) if wide else (lambda: rng.randrange(0, 7))
        return [[[ty(), g_i16(rng, wide)] for _ in range(n)]]
    if form == "versionResponse":
        return [g_u16(rng, wide), g_u8(rng, wide), g_u8(rng, wide), g_u16(rng, wide), g_u8(rng, wide), g_u8(rng, wide)]
    if form == "statusRequest":
        return [g_u8(rng, wide), g_u16(rng, wide), g_u16(rng, wide)]
    kinds = FORMS[form][1]
    return [g_u8(rng, wide) for _ in kinds]


def arg_str(kind, v):
    if kind in "in":
        return str(v)
    if kind in "bs":
        return hx(v)
    if kind == "r":
        return ",".join(f"{t}:{d}" for t, d in v) or "-"
    if kind == "c":
        return ",".join(f"{p}:{hx(d)}" for p, d in v) or "-"
    raise KeyError(kind)


def enc_line(form, args, p2, p3):
    return " ".join(["enc", hx(p2), hx(p3), form] + [arg_str(k, a) for k, a in zip(FORMS[form][1], args)])


# ------------------------------------------------------------------------------- domain + expected fields (independent of the model)
def in_range(form, args):
    u8 = lambda v: 0 <= v <= 255  # noqa
    u16 = lambda v: 0 <= v <= 65535  # noqa
    i16 = lambda v: -32768 <= v <= 32767  # noqa
    k = FORMS[form][1]
    if form == "versionResponse":
        return u16(args[0]) and u8(args[1]) and u8(args[2]) and u16(args[3]) and u8(args[4]) and u8(args[5])
    if form == "statusRequest":
        return u8(args[0]) and u16(args[1]) and u16(args[2])
    if form == "statusSegment":
        return u8(args[0]) and u8(args[1]) and len(args[2]) <= 255
    if form == "partialUpdate":
        return len(args[0]) <= 255 and all(u16(p) for p, _ in args[0])
    if form == "setValue":
        s, pt, cv, lv, pos, ln, d = args
        return ln in (1, 2) and (u8(d) if ln == 1 else u16(d)) and all(u8(x) for x in (s, pt, cv, lv)) and u16(pos)
    if form == "remindersResponse":
        return all(u8(t) and i16(d) for t, d in args[0])
    if form in ("helloClient", "helloResponse", "configResponse"):
        return True
    return all(u8(a) for a, kk in zip(args, k) if kk == "i")


def in_domain(form, args):
    if form == "helloClient":
        return args[0].startswith(b"IOS") or args[0].startswith(b"AND")
    if form == "helloResponse":
        return b"|" not in args[0] and not (args[0].startswith(b"IOS") or args[0].startswith(b"AND"))
    if form == "configResponse":
        return not any(c in args[0] for c in b",_.")
    if form == "partialUpdate":
        ch = args[0]
        return all(len(d) == 2 for _, d in ch[:-1]) and (not ch or len(ch[-1][1]) <= 2)
    if form == "remindersResponse":
        return all(0 <= t <= 6 for t, _ in args[0])
    return True


def expected_fields(form, args):
    """attribute -> value a peer must read back, from the arguments alone"""
    a = args
    if form == "helloBroadcast":
        return {"was_broadcast_discovery": True, "_client_identifier": None, "_spa_identifier": None, "_spa_name": None}
    if form == "helloClient":
        return {"was_broadcast_discovery": False, "_client_identifier": a[0], "_spa_identifier": None, "_spa_name": None}
    if form == "helloResponse":
        return {"was_broadcast_discovery": False, "_client_identifier": None, "_spa_identifier": a[0], "_spa_name": a[1].decode("latin1")}
    if form == "pingRequest":
        return {"_sequence": None}
    if form == "pingResponse":
        return {"_sequence": 0}
    if form in ("versionRequest", "channelRequest", "configRequest", "wcRequest", "remindersRequest", "firmwareRequest"):
        d = {"_sequence": a[0], "should_remove_handler": False}
        if form == "wcRequest":
            d["schedule"] = False
        return d
    if form == "versionResponse":
        return dict(zip(("en_build", "en_major", "en_minor", "co_build", "co_major", "co_minor"), a), should_remove_handler=True)
    if form == "channelResponse":
        return {"channel": a[0], "signal_strength": a[1], "should_remove_handler": True}
    if form == "configResponse":
        key = a[0].decode("latin1")
        return {"plateform_key": "MrSteam" if key == "MrSt" else key, "config_version": a[1], "log_version": a[2], "should_remove_handler": True}
    if form == "statusRequest":
        return {"sequence": a[0], "start": a[1], "length": a[2]}
    if form == "statusSegment":
        return {"sequence": a[0], "next": a[1], "length": len(a[2]), "data": a[2]}
    if form == "partialUpdate":
        return {"changes": [(p, d) for p, d in a[0]]}
    if form == "partialAck":
        return {"sequence": a[0]}
    if form == "keypress":
        return {"_sequence": a[0], "pack_type": a[1], "is_key_press": True, "keycode": a[2], "is_set_value": False}
    if form == "setValue":
        return {"_sequence": a[0], "pack_type": a[1], "is_key_press": False, "is_set_value": True, "position": a[4],
                "new_data": pystruct.pack(">B" if a[5] == 1 else ">H", a[6])}
    if form == "packResponse":
        return {"should_remove_handler": True, "is_key_press": False, "is_set_value": False}
    if form == "wcSet":
        return {"_sequence": a[0], "mode": a[1], "schedule": False, "should_remove_handler": False}
    if form == "wcResponse":
        return {"mode": a[0], "schedule": False, "should_remove_handler": True}
    if form == "wcGiveSchedule":
        return {}
    if form == "remindersResponse":
        return {"reminders": [(t, d) for t, d in a[0]], "should_remove_handler": True}
    if form == "firmwareResponse":
        return {"should_remove_handler": True}
    if form == "rferr":
        return {"total_error_count": 1}
    raise KeyError(form)


def read_attr(h, a):
    v = getattr(h, a)
    if a in ("changes",):
        return [(int(p), bytes(d)) for p, d in v]
    if a == "reminders":
        return [(int(t), int(d)) for t, d in v]
    return v


def classify_bytes(b):
    return (min(len(b), 3) if len(b) < 3 else ("max" if len(b) >= 255 else "mid"), L2 in b, L1 in b, any(t in b for t in TAGS),
            b"\n" in b or b"\x00" in b, any(x > 127 for x in b), b"|" in b)


def classify(form, args):
    out = [form]
    for k, v in zip(FORMS[form][1], args):
        if k in "in":
            out.append("neg" if v < 0 else v if v in (0, 1, 127, 128, 255, 256, 32767, 32768, 65535) else ("u8" if v < 256 else "u16" if v < 65536 else "big"))
        elif k in "bs":
            out.append(classify_bytes(v))
        elif k == "r":
            out.append((len(v), tuple(sorted({t for t, _ in v}))[:4], any(d < 0 for _, d in v)))
        elif k == "c":
            out.append((min(len(v), 4), tuple(len(d) for _, d in v[:4])))
    return tuple(out)


# ------------------------------------------------------------------------------- the oracle on the real code (no model involved)
def msg_input(form, args, p2, p3):
    return {"kind": "message", "form": form, "args": [arg_str(k, a) for k, a in zip(FORMS[form][1], args)], "p2": hx(p2), "p3": hx(p3)}


def parse_input(inp):
    from common import unhx
    form = inp["form"]
    args = []
    for k, s in zip(FORMS[form][1], inp["args"]):
        if k in "in":
            args.append(int(s))
        elif k in "bs":
            args.append(unhx(s))
        elif k == "r":
            args.append([] if s == "-" else [[int(x) for x in it.split(":")] for it in s.split(",")])
        elif k == "c":
            args.append([] if s == "-" else [[int(it.split(":")[0]), unhx(it.split(":")[1])] for it in s.split(",")])
    return form, args, unhx(inp["p2"]), unhx(inp["p3"])


def receive_path(dg, p2, p3):
    """what the verb consumers of a connection find in the receive queue after the framed datagram `dg` (SRCCN p3, DESCN p2) arrived from
    the spa's address: the REAL protocol object (datagram_received, queue), the REAL long-lived packet handler and the REAL
    GeckoAsyncSpa._async_on_packet of a connection whose identifier pair is (p3, p2).  Returns the list of queued contents."""
    import rig
    import vloop
    from geckolib.async_spa import GeckoAsyncSpa
    from geckolib.async_tasks import AsyncTasks
    from geckolib.driver import GeckoPacketProtocolHandler
    from geckolib.driver.async_udp_protocol import GeckoAsyncUdpProtocol

    async def body(loop):
        async def ev(*a, **k):
            pass
        desc = rig.Desc(identifier=p3)
        spa = GeckoAsyncSpa(p2, desc, AsyncTasks(), ev)
        proto = GeckoAsyncUdpProtocol(None, desc.destination)
        proto.connection_made(vloop.FakeTransport(loop, proto))
        spa._protocol = proto
        handler = GeckoPacketProtocolHandler(async_on_handled=spa._async_on_packet)
        proto.datagram_received(dg, desc.destination)
        out = []
        for _ in range(4):
            if proto.queue.head is None:
                break
            data, sender = proto.queue.head
            proto.queue.pop()
            if handler.can_handle(data, sender):
                await handler.async_handle(data, sender)
                await handler.async_handled(sender)
            else:
                out.append(data)
        return out
    return vloop.run_virtual(body)


def oracle(form, args, p2, p3):
    """[(key, expected, observed)] : every way this in-range, in-domain message fails the property on the real code"""
    fails = []
    intended = FORMS[form][0]
    try:
        h = build(form, args, p2, p3)
        dg = h.send_bytes
    except Exception as e:  # noqa
        return [(f"encode:{form}:{type(e).__name__}", "constructor accepts in-range fields", f"{type(e).__name__}: {e}")]
    hello = form.startswith("hello")
    # 1. the datagram is claimed by exactly the tag handler
    cl = [c for c in impl_claims(dg) if c != "Unhandled"]
    want = ["Hello"] if hello else ["Packet"]
    if cl != want:
        fails.append((f"claim-datagram:{form}:{'+'.join(cl) or 'nobody'}", want, cl))
    if hello:
        content = dg
    else:
        content = h._content
        # 2. framing: the packet handler recovers identifiers and content
        ph, e = impl_handle("Packet", dg)
        got = None if ph is None else (ph.parms[2], ph.parms[3], ph.packet_content)
        if e is not None or got != (p3, p2, content):
            d3 = L2 in content
            fails.append(("D3:frame:content-contains-</DESCN><DATAS>" if d3 else f"frame:{form}:{'raises' if e is not None else 'mis-split'}",
                          {"src": hx(p3), "dst": hx(p2), "content": hx(content)},
                          canon_err(e) if e is not None else {"src": show_val(got[0]), "dst": show_val(got[1]), "content": show_val(got[2])}))
        else:
            # 2b. the same through the connection's own receive path: the content reaches the verb consumers byte for byte
            try:
                q = receive_path(dg, p2, p3)
            except Exception as e3:  # noqa
                q = f"raised {type(e3).__name__}: {e3}"
            if q != [content]:
                fails.append((f"receive-path:{form}:{'raises' if isinstance(q, str) else ('lost' if not q else 'altered')}",
                              [hx(content)], q if isinstance(q, str) else [show_val(x) for x in q]))
            # 3. a reply built from the received packet goes back to its sender, identifiers swapped
            try:
                r = P().GeckoPacketProtocolHandler(content=b"APING\x00", parms=ph.parms).send_bytes
                rh, e2 = impl_handle("Packet", r)
                if e2 is not None or (rh.parms[2], rh.parms[3]) != (p2, p3) or ph.parms[:2] != IP:
                    fails.append((f"reply:{form}", {"src": hx(p2), "dst": hx(p3)}, canon_err(e2) if e2 else [show_val(rh.parms[2]), show_val(rh.parms[3])]))
            except Exception as e2:  # noqa
                fails.append((f"reply:{form}:raises", "a reply can be built", canon_err(e2)))
        # 4. the content is claimed by exactly the handler classes of its verb
        cc = [c for c in impl_claims(content) if c != "Unhandled"]
        if cc != intended:
            if not cc and form in ("wcSet", "wcGiveSchedule"):
                key = f"D4:unclaimed:{VERB[form].decode()}"
            else:
                key = f"claim:{form}:{'+'.join(cc) or 'nobody'}"
            fails.append((key, intended, cc))
            if not set(intended) <= set(cc):
                return fails
    # 5. each intended handler decodes the fields
    exp = expected_fields(form, args)
    for name in intended:
        hh, e = impl_handle(name, content)
        if e is not None:
            bad = {"raises": f"{type(e).__name__}: {e}"}
        else:
            bad = {}
            for a, v in exp.items():
                try:
                    got = read_attr(hh, a)
                except Exception as e3:  # noqa
                    got = f"<{type(e3).__name__}>"
                if got != v or type(got) is not type(v) and not isinstance(v, (int, list)):
                    bad[a] = [repr(v)[:120], repr(got)[:120]]
        if bad:
            if form == "helloResponse" and b"|" in args[1]:
                key = "D2:hello:name-contains-separator"
            else:
                key = f"roundtrip:{form}:{name}:{'raises' if 'raises' in bad else '+'.join(sorted(bad))}"
            fails.append((key, {a: repr(v)[:120] for a, v in exp.items()}, bad))
        else:
            if form == "partialUpdate":
                # the acknowledgement the LONG-LIVED partial-update consumer queues is a reply to THIS packet: addressed back to its
                # sender, identifiers swapped (whatever pairs the same consumer has acknowledged before)
                r_ack = ack_addressing(name, content, p2, p3)
                if r_ack is not None:
                    fails.append((f"reply:ack:{name}", {"src": hx(p2), "dst": hx(p3), "to": list(IP)}, r_ack,
                                  dict(msg_input(form, args, p2, p3), kind="ack", handler=name, previous=ACK_PREV.get(name))))
                ACK_PREV[name] = msg_input(form, args, p2, p3)
            # the same message through the LONG-LIVED instance of that class
            me = msg_input(form, args, p2, p3)
            r = reuse_decode(name, form, content, exp, me)
            if r is not None:
                fails.append((f"stale-state:{name}:{'raises' if 'raises' in r[0] else '+'.join(sorted(r[0]))}",
                              {a: repr(v)[:120] for a, v in exp.items()}, r[0], dict(me, kind="reuse", handler=name, previous=r[1])))
    return fails


# the inputs on which the audited commit failed (D2, D3, D4): tried first on every run, so a regression is reported with them
CANONICAL = [
    ("helloResponse", [b"SPA01:02:03:04:05:06", b"My|Spa"], b"", b""),
    ("statusSegment", [3, 0, b"x</SRCCN><DESCN>y</DESCN><DATAS>z"], b"IOSclient", b"SPA01:02:03:04:05:06"),
    ("wcSet", [1, 2], b"IOSclient", b"SPA01:02:03:04:05:06"),
    ("wcGiveSchedule", [], b"SPA01:02:03:04:05:06", b"IOSclient"),
    ("statusSegment", [3, 0, b"ab\n"], b"IOSclient", b"SPA01:02:03:04:05:06"),           # contents that END in a line ending
    ("statusSegment", [0, 1, b"\r\n"], b"IOSclient", b"SPA01:02:03:04:05:06"),
    ("statusSegment", [0, 0, b"x \t\x00"], b"IOSclient", b"SPA01:02:03:04:05:06"),
]


def search(ctx, n):
    rng = ctx.rng
    plats = platforms()
    seen = set()
    cases = list(CANONICAL)
    forms = list(FORMS)
    # every form at every corner of its integer fields (all-min, all-max), then the seeded stream
    for f in forms:
        ks = FORMS[f][1]
        if ks and all(k == "i" for k in ks) and f not in ("setValue",):
            for pick in (lambda k, i: 0, lambda k, i: 255):
                cases.append((f, [pick(k, i) for i, k in enumerate(ks)], b"IOSc", b"SPA1"))
    cases.append(("versionResponse", [65535, 255, 255, 65535, 255, 255], b"IOSc", b"SPA1"))
    cases.append(("statusRequest", [255, 65535, 65535], b"IOSc", b"SPA1"))
    cases.append(("setValue", [255, 255, 255, 255, 65535, 2, 65535], b"IOSc", b"SPA1"))
    cases.append(("setValue", [0, 0, 0, 0, 0, 1, 0], b"IOSc", b"SPA1"))
    for p in plats:
        for c, l in ((0, 0), (9, 10), (99, 99), (7, 100)):
            cases.append(("configResponse", [p, c, l], b"SPA1", b"IOSc"))
    while len(cases) < n:
        f = rng.choice(forms)
        args = g_args(rng, f, plats, False)
        if not (in_range(f, args) and in_domain(f, args)):
            continue
        cases.append((f, args, g_ident(rng), g_ident(rng)))
    for f, args, p2, p3 in cases:
        ctx.count("evaluations")
        ctx.hist("search_forms", f)
        seen.add(classify(f, args) + (classify_bytes(p2)[4:], classify_bytes(p3)[4:]))
        try:
            fails = oracle(f, args, p2, p3)
        except Exception as e:  # noqa   (a mutated tree must give a verdict, not a crash)
            fails = [(f"oracle:{f}:{type(e).__name__}", "the library's encoder and decoder run", f"{type(e).__name__}: {e}")]
        for fl in fails:
            key, exp, obs = fl[:3]
            ctx.hist("search_failures", key.split(":")[0])
            ctx.violation(key, fl[3] if len(fl) > 3 else msg_input(f, args, p2, p3), exp, obs)
    ctx.cov["search_messages"] = len(cases)
    return seen


def search_layout(ctx):
    """the byte-layout clause: the literals the author captured in tests/test_protocol.py, on the real code
    (constructor -> send_bytes, handle -> attributes, can_handle) - the only layout oracle in the sandbox"""
    import ast
    from common import REPO
    import gen_c04
    try:
        enc, dec, claim, skipped = gen_c04.pinned_vectors()
    except Exception as e:  # noqa
        ctx.notes.append(f"pinned vectors not extractable: {type(e).__name__}: {e}")
        return
    short_of = {v: k for k, v in CLASSNAME.items()}
    tree = ast.parse((REPO / "tests" / "test_protocol.py").read_text().replace("self.handler", "handler"))
    # re-read the constructor calls as Python values (the generator only keeps Lean terms)
    calls = {}
    for cls in [c for c in tree.body if isinstance(c, ast.ClassDef)]:
        for fn in [f for f in cls.body if isinstance(f, ast.FunctionDef)]:
            for st in fn.body:
                if isinstance(st, ast.Assign) and ast.unparse(st.targets[0]) == "handler" and isinstance(st.value, ast.Call):
                    calls[f"{cls.name}.{fn.name}"] = st.value
    ns = {}
    try:
        p = P()
        ns = {k: getattr(p, k) for k in dir(p) if k.startswith("Gecko")}
        ns["PARMS"] = (1, 2, b"SRCID", b"DESTID")
        ns["socket"] = _Sock()
    except Exception:  # noqa
        pass
    n = 0
    for name, short, meth, term, parms, exp in enc:
        n += 1
        try:
            got = eval(compile(ast.Expression(calls[name]), "<vector>", "eval"), ns).send_bytes
        except Exception as e:  # noqa
            got = canon_err(e)
        if got != exp:
            ctx.violation(f"layout:encode:{name}", {"kind": "vector", "test": name}, hx(exp), got if isinstance(got, str) else hx(got))
    for name, short, data, attrs in dec:
        n += 1
        h, e = impl_handle(short, data, _Sock())
        bad = {}
        if e is not None:
            bad["raises"] = canon_err(e)
        else:
            for a, v in attrs:
                try:
                    got = getattr(h, a)
                    if a == "reminders":
                        got, v = [[int(t), int(d)] for t, d in got], [list(x) for x in v]
                    if a == "changes":
                        got, v = [[int(t), bytes(d)] for t, d in got], [list(x) for x in v]
                except Exception as e2:  # noqa
                    got = f"<{type(e2).__name__}>"
                if got != v:
                    bad[a] = [repr(v), repr(got)]
        if bad:
            ctx.violation(f"layout:decode:{name}", {"kind": "vector", "test": name}, "attributes asserted by the test", bad)
    for name, short, data, exp in claim:
        n += 1
        try:
            got = bool(fresh(short).can_handle(data, ns.get("PARMS")))
        except Exception as e:  # noqa
            got = canon_err(e)
        if got != exp:
            ctx.violation(f"layout:claim:{name}:{hx(data)}", {"kind": "vector", "test": name}, exp, got)
    ctx.cov["layout_vectors_checked_on_real_code"] = n
    ctx.count("evaluations", n)


def search_files_all(ctx):
    """thorough: every shipped platform name x 100 x 100 versions through the real encoder and decoder"""
    n = 0
    for p in platforms():
        for c in range(100):
            for l in range(100):
                n += 1
                try:
                    content = build("configResponse", [p, c, l], b"a", b"b")._content
                    h, e = impl_handle("ConfigFile", content)
                    got = None if h is None else (h.plateform_key, h.config_version, h.log_version)
                except Exception as e2:  # noqa
                    got, e = None, e2
                want = ("MrSteam" if p == b"MrSt" else p.decode("latin1"), c, l)
                if got != want:
                    ctx.violation(f"roundtrip:configResponse:ConfigFile:{p.decode('latin1')}", msg_input("configResponse", [p, c, l], b"a", b"b"),
                                  want, repr(got) if e is None else canon_err(e))
    ctx.cov["files_roundtrips"] = n
    ctx.count("evaluations", n)


# ------------------------------------------------------------------------------- correspondence
def regex_corpus(ctx):
    """frames with <= 3-fold combinations of the delimiters inside each of the three fields + malformed frames"""
    rng = ctx.rng
    delims = [b"<SRCCN>", b"</SRCCN>", b"<DESCN>", b"</DESCN>", b"<DATAS>", b"</DATAS>", L1, L2, b"\n", b"<", b"x"]
    combos = [()] + [c for k in (1, 2, 3) for c in itertools.product(range(len(delims)), repeat=k)]
    out = []
    base = [b"IOSa", b"SPAb", b"DATA"]

    def frame(s, d, c):
        return b"<SRCCN>" + s + b"</SRCCN><DESCN>" + d + b"</DESCN><DATAS>" + c + b"</DATAS>"
    for field in range(3):
        cs = combos if not ctx.quick else [c for c in combos if len(c) <= 2] + rng.sample([c for c in combos if len(c) == 3], 250)
        for c in cs:
            f = list(base)
            f[field] = b"".join(delims[i] for i in c)
            out.append(frame(*f))
            if len(c) == 2 and rng.random() < 0.3:
                f[field] = b"p" + delims[c[0]] + b"q" + delims[c[1]] + b"r"
                out.append(frame(*f))
    # two fields at once
    for _ in range(300 if ctx.quick else 4000):
        f = [b"".join(rng.choice(delims) for _ in range(rng.randrange(0, 3))) for _ in range(3)]
        out.append(frame(*f))
    # malformed: truncations, prefixes, missing closers, text before the first tag
    good = frame(b"IOSa", b"SPAb", b"DA\nTA")
    for i in range(len(good) + 1):
        out.append(good[:i])
        if i % 3 == 0:
            out.append(good[i:])
    for _ in range(200 if ctx.quick else 2000):
        g = bytearray(frame(g_ident(rng), g_ident(rng), g_payload(rng, 60, 0.5)))
        for _ in range(rng.randrange(0, 3)):
            if g:
                j = rng.randrange(len(g))
                if rng.random() < 0.5:
                    del g[j]
                else:
                    g[j:j] = rng.choice(delims)
        out.append(bytes(rng.choice([b"", b"junk", b"<SRCCN>"])) + bytes(g))
    return list(dict.fromkeys(out))


def correspondence(ctx, n):
    rng = ctx.rng
    plats = platforms()
    lines, impl, tags = [], [], []

    def op(line, ans, tag):
        lines.append(line)
        impl.append(ans)
        tags.append(tag)
        ctx.hist("ops", tag)

    msgs = [(f, a, p2, p3) for f, a, p2, p3 in CANONICAL]
    forms = list(FORMS)
    for i in range(n):
        f = forms[i % len(forms)] if i < 4 * len(forms) else rng.choice(forms)
        msgs.append((f, g_args(rng, f, plats, True), g_ident(rng), g_ident(rng)))
    contents = []
    n_delim = 0
    for f, args, p2, p3 in msgs:
        ans, dg, content = impl_send(f, args, p2, p3)
        op(enc_line(f, args, p2, p3), ans, "enc")
        ctx.hist("forms", f)
        ctx.hist("encode_outcomes", ans.split(" ")[0])
        if dg is None:
            continue
        op("claim " + hx(dg), "claim " + ",".join(impl_claims(dg)), "claim-datagram")
        if f.startswith("hello"):
            op("dec Hello " + hx(dg), impl_dec("Hello", dg), "dec")
            continue
        if content is not None and any(t in content for t in (L1, L2)):
            n_delim += 1
        op("dec Packet " + hx(dg), impl_dec("Packet", dg), "dec-packet")
        if rng.random() < 0.3:
            op(f"reply {hx(dg)} {hx(b'APING')}", impl_reply(dg, b"APING"), "reply")
        op("claim " + hx(content), "claim " + ",".join(impl_claims(content)), "claim-content")
        for name in FORMS[f][0]:
            op(f"dec {name} {hx(content)}", impl_dec(name, content), "dec")
        if rng.random() < 0.25:
            name = rng.choice(STANDARD[2:])
            op(f"dec {name} {hx(content)}", impl_dec(name, content), "dec-cross")
        contents.append((f, content))
    ctx.cov["payloads_with_delimiter_run"] = n_delim
    # malformed stream: truncations by 1..n bytes, trailing garbage, a flipped byte, for the intended decoder and a random one
    k = 0
    budget = n if ctx.quick else 3 * n
    rng.shuffle(contents)
    for f, content in contents:
        if k >= budget:
            break
        variants = [content[:len(content) - i] for i in range(1, min(len(content), 12) + 1)]
        variants += [content + g for g in (b"\x00", b"\xff\xff", b"garbage", b"</DATAS>")]
        if len(content) > 5:
            j = rng.randrange(5, len(content))
            variants.append(content[:j] + bytes([content[j] ^ (1 << rng.randrange(8))]) + content[j + 1:])
        for v in variants:
            for name in FORMS[f][0][:1] + ([rng.choice(STANDARD[2:])] if rng.random() < 0.2 else []):
                op(f"dec {name} {hx(v)}", impl_dec(name, v), "dec-malformed")
                k += 1
    # hand-picked decoder inputs (FILES text, hello text)
    for t in [b"FILES,inXM_C09.xml,inXM_S09.xml", b"FILES,inXM_C09.xml,inYE_S09.xml", b"FILES,inXM_C09.xml", b"FILES", b"FILES,",
              b"FILES,a_Cx.xml,a_S1.xml", b"FILES,a_C.xml,a_S1.xml", b"FILES,a.xml,a_S1.xml", b"FILES,MrSt_C01.xml,MrSt_S02.xml",
              b"FILES,a_C1.xml.xml,a_S2.xm.xmll", b"FILES,.xml_C1,.xml_S2", b"FILES,a_C1_9.xml,a_S2,zz", b"FILES,a_C12,a_S\xb2",
              b"FILES,a_C+1.xml,a_S2.xml", b"FILES,a_C 1.xml,a_S2.xml", b"FILESXa_C1,a_S2", b"FILES,\xe9_C1,\xe9_S2"]:
        op("dec ConfigFile " + hx(t), impl_dec("ConfigFile", t), "dec-files")
    for t in [b"<HELLO>1</HELLO>", b"<HELLO></HELLO>", b"<HELLO>IOS</HELLO>", b"<HELLO>AND1</HELLO>", b"<HELLO>SPA|x</HELLO>",
              b"<HELLO>SPA</HELLO>", b"<HELLO>a|b|c</HELLO>", b"<HELLO>|</HELLO>", b"<HELLO>||</HELLO>", b"<HELLO>11</HELLO>",
              b"<HELLO>IO|S</HELLO>", b"short", b"", b"<HELLO>1</HELLO", b"<HELLO>\xe9|\xff</HELLO>"]:
        op("dec Hello " + hx(t), impl_dec("Hello", t), "dec-hello")
        op("claim " + hx(t), "claim " + ",".join(impl_claims(t)), "claim-raw")
    for t in [b"<PACKT></PACKT>", b"<PACKT></PACKT", b"<PACKT></PACKT> ", b"<PACKT>", b"</PACKT>", b"<PACKT><SRCCN>a</SRCCN><DESCN>b</DESCN><DATAS>c</DATAS></PACKT>"]:
        op("dec Packet " + hx(t), impl_dec("Packet", t), "dec-packet")
        op("claim " + hx(t), "claim " + ",".join(impl_claims(t)), "claim-raw")
    for v in list(VERB.values()) + [b"WCSET", b"REQWC", b"WCERR", b"OTHER", b"APIN", b"aping", b" APING"]:
        for tail in (b"", b"\x01", b"\x01\x02"):
            op("claim " + hx(v + tail), "claim " + ",".join(impl_claims(v + tail)), "claim-raw")
        for name in STANDARD[2:]:
            if rng.random() < 0.15:
                op(f"dec {name} {hx(v + bytes([7]))}", impl_dec(name, v + bytes([7])), "dec-cross")
    # the regex on its adversarial corpus
    corpus = regex_corpus(ctx)
    for c in corpus:
        op("ext " + hx(c), impl_ext(c), "ext")
    ctx.cov["regex_corpus"] = len(corpus)
    ctx.cov["regex_corpus_matching"] = sum(1 for l, a in zip(lines, impl) if l.startswith("ext ") and a.startswith("some"))
    try:
        model = Driver("Driver/C04.lean").run(lines)
    except DriverFailure as e:
        ctx.obligation_broken("driver:C04", e)
        return
    ndis, skipped = 0, 0
    for i, (mo, im) in enumerate(zip(model, impl)):
        if "E_OUTOFMODEL" in mo:
            skipped += 1
            continue
        if im.startswith("err:"):
            ctx.hist("error_kinds", im)
        if mo != im:
            ndis += 1
            ctx.hist("disagreements", tags[i])
            if ndis <= 4:
                ctx.obligation_broken(f"correspondence:{tags[i]}:model-vs-implementation", {"op": lines[i][:400], "model": mo[:400], "impl": im[:400]})
    ctx.cov["correspondence_ops"] = len(lines)
    ctx.cov["correspondence_disagreements"] = ndis
    ctx.cov["out_of_model_skipped"] = skipped
    for i in (0, 3, 7):
        if i < len(lines):
            ctx.sample({"op": lines[i][:200], "impl": impl[i][:200]})


FRAMING_TAGS = [b"<SRCCN>", b"</SRCCN>", b"<DESCN>", b"</DESCN>", b"<DATAS>", b"</DATAS>", b"<PACKT>", b"</PACKT>"]


def markup_payload_case(combo, p2=b"IOSabc", p3=b"SPA01:02"):
    """content that holds the protocol's own framing tags, framed by the encoder's layout: what the consumers of the awaitable
    connection find in the queue, and what the blocking packet handler unwraps"""
    from geckolib.driver import GeckoPacketProtocolHandler
    pay = b"STATV\x00\x01\x20" + b"".join(FRAMING_TAGS[i] for i in combo) + b"z"
    dg = b"<PACKT><SRCCN>" + p3 + b"</SRCCN><DESCN>" + p2 + b"</DESCN><DATAS>" + pay + b"</DATAS></PACKT>"
    try:
        got = receive_path(dg, p2, p3)
    except Exception as e:  # noqa
        got = f"raised {type(e).__name__}: {e}"
    try:
        h = GeckoPacketProtocolHandler()
        ok = h.can_handle(dg, ("10.0.0.1", 10022))
        h.handle(dg, ("10.0.0.1", 10022))
        sync = h.packet_content if ok else None
    except Exception as e:  # noqa
        sync = f"raised {type(e).__name__}: {e}"
    return pay, got, sync


def search_markup_payloads(ctx, only=None):
    """every run of up to three (thorough: four) framing tags as the content of a packet: delivered whole, once"""
    for k in (1, 2, 3) if ctx.quick else (1, 2, 3, 4):
        for combo in itertools.product(range(len(FRAMING_TAGS)), repeat=k):
            if only is not None and list(combo) != only:
                continue
            pay, got, sync = markup_payload_case(combo)
            ctx.count("evaluations")
            ctx.hist("markup_payloads", f"{k} tags")
            if got != [pay] or sync != pay:
                ctx.violation("markup-payload:not-delivered-whole", {"kind": "markup-payload", "tags": list(combo)},
                              {"content": pay.decode("latin1")},
                              {"queued for the consumers": [x.decode("latin1") if isinstance(x, bytes) else str(x) for x in got] if isinstance(got, list) else got,
                               "blocking handler unwraps": sync.decode("latin1") if isinstance(sync, bytes) else str(sync)})
                return


def search_claims_with_a_slow_client(ctx, only=None):
    """'claimed by exactly its verb' on a LIVE connection whose client takes its time: the real consumer task set of a connection (C07's
    rig), a client handler of the RF-error / watercare-error events that suspends for longer than a polling interval, datagrams of other
    verbs arriving meanwhile - every datagram is taken out of the queue by a consumer that accepts its verb"""
    import random
    from common import Ctx
    from props import c07
    classes = c07.handler_classes()
    for seed, slow in ((11, 250), (12, 400), (13, 120)):
        if only is not None and only != [seed, slow]:
            continue
        rng = random.Random(seed)
        arrivals = c07.gen_arrivals(rng, 60, 9000)
        inp = {"kind": "claims-with-a-slow-client", "case": [seed, slow]}
        try:
            res = c07.run_connection(arrivals, seed, shuffle=True, jitter=0.0, horizon_s=11.0, slow_client_ms=slow)
        except Exception as e:  # noqa
            ctx.violation("slow-client:raised", inp, "the connection's consumers run", f"{type(e).__name__}: {e}")
            continue
        sub = Ctx("C07", "quick", 0)
        c07.monitors(sub, res["trace"], res, classes, True, dict(inp))
        ctx.count("evaluations", len(res["trace"].puts))
        ctx.hist("claims_with_a_slow_client", f"handler suspends {slow} ms")
        # (consumer deaths are C07's business - its generator also feeds unframed datagrams, which is outside this property; here: who pops what)
        bad = [v for v in sub.violations if v["key"].startswith("incapable-pop")]
        if bad:
            ctx.violation("slow-client:" + bad[0]["key"].split(":")[0], inp, "every datagram is popped by a consumer that accepts its verb",
                          {"popped by": str(bad[0].get("observed"))[:300], "datagram": str(bad[0].get("input", {}).get("datagram"))[:120]})
            return


def search_simulator_fanout(ctx):
    """"a message built from a received packet is addressed back with the sender's identifiers swapped", for the one message the
    simulator builds for SEVERAL senders at once: every client that has pinged is told about a change of the block. The datagrams
    are rendered when the engine takes them off the send queue (later than they were queued), one per client, and each must carry
    THAT client's identifiers and the change"""
    import fakenet
    from props import c10
    from geckolib.driver import GeckoPingProtocolHandler, GeckoPacketProtocolHandler
    sim = fakenet.make_sim(c10.SNAP)
    spa_id = b"SPA01:02:03:04:05:06"
    clients = [("10.0.0.%d" % (11 + i), 50011 + i, spa_id, (b"IOS" if i % 2 == 0 else b"AND") + bytes("%08d-aaaa-bbbb" % (11111111 * (i + 1)), "ascii")) for i in range(3)]
    import builtins
    real_print = builtins.print
    builtins.print = lambda *a, **k: None
    try:
        for c in clients:
            ping = GeckoPingProtocolHandler.request(parms=(c[0], c[1], c[2], c[3]))     # a client frames SRCCN = its own id (parms[3]), DESCN = the spa (parms[2])
            sim._socket.dispatch_recevied_data(ping.send_bytes, (c[0], c[1]))
        ping_answers = list(sim._socket._send_handlers)          # the ping answers: still queued while the next client's ping is dispatched
        sim._socket._send_handlers.clear()
        acc = next(a for a in sim.structure.accessors.values() if a.read_write is not None and a.type == "Enum" and a.items and len(a.items) > 1)
        sim._send_structure_change = True
        try:
            acc.value = acc.items[1] if acc.value != acc.items[1] else acc.items[0]
        finally:
            sim._send_structure_change = False
        queued = list(sim._socket._send_handlers)
        sim._socket._send_handlers.clear()
    finally:
        builtins.print = real_print
    rendered = [(h.send_bytes, dest) for (h, dest) in queued]     # rendered AFTER all were queued, as the engine does
    seen_p = {}
    for h, dest in ping_answers:
        u = GeckoPacketProtocolHandler()
        try:
            u.handle(h.send_bytes, (dest[0], dest[1]))
            seen_p[(dest[0], dest[1])] = (u.parms[2], u.parms[3], u.packet_content[:5])
        except Exception as e:  # noqa
            seen_p[(dest[0], dest[1])] = f"{type(e).__name__}: {e}"
    want_p = {(c[0], c[1]): (spa_id, c[3], b"APING") for c in clients}
    ctx.count("evaluations", len(ping_answers))
    if seen_p != want_p:
        ctx.violation("simulator-fanout:ping-answers", {"kind": "simulator-fanout", "clients": [[c[0], c[1], c[3].decode()] for c in clients]},
                      {f"{k[0]}:{k[1]}": [x.decode("latin1") if isinstance(x, bytes) else x for x in v] for k, v in want_p.items()},
                      {f"{k[0]}:{k[1]}": ([x.decode("latin1") if isinstance(x, bytes) else x for x in v] if isinstance(v, tuple) else v) for k, v in seen_p.items()})
    ctx.count("evaluations", len(rendered))
    ctx.cov["simulator_fanout_datagrams"] = len(rendered)
    seen = {}
    for data, dest in rendered:
        u = GeckoPacketProtocolHandler()
        try:
            u.handle(data, (dest[0], dest[1]))
            seen[(dest[0], dest[1])] = (u.parms[2], u.parms[3], u.packet_content[:5])
        except Exception as e:  # noqa
            seen[(dest[0], dest[1])] = f"{type(e).__name__}: {e}"
    want = {(c[0], c[1]): (spa_id, c[3], b"STATP") for c in clients}
    if seen != want:
        ctx.violation("simulator-fanout:identifiers", {"kind": "simulator-fanout", "clients": [[c[0], c[1], c[3].decode()] for c in clients]},
                      {f"{k[0]}:{k[1]}": [x.decode("latin1") if isinstance(x, bytes) else x for x in v] for k, v in want.items()},
                      {f"{k[0]}:{k[1]}": ([x.decode("latin1") if isinstance(x, bytes) else x for x in v] if isinstance(v, tuple) else v) for k, v in seen.items()})


def run(ctx):
    st = translate.run(["WireFormats", "WirePins", "Skeletons"])
    ctx.cov["translator"] = st
    for k, v in st.items():
        if v != "ok":
            ctx.obligation_broken(f"translate:{k}", v)
    ctx.lean_obligations("GeckoModel.Properties.C04")
    try:
        P()
    except Exception as e:  # noqa
        ctx.violation("import:geckolib.driver.protocol", {"kind": "import"}, "the protocol package imports", f"{type(e).__name__}: {e}")
        return
    n_corr = 6000 if ctx.quick else 100000
    n_search = 20000 if ctx.quick else 1000000
    if all(v == "ok" for v in st.values()):
        correspondence(ctx, n_corr)
    seen = search(ctx, n_search)
    search_layout(ctx)
    search_markup_payloads(ctx)
    try:
        search_claims_with_a_slow_client(ctx)
    except Exception as e:  # noqa
        ctx.obligation_broken("harness:claims-with-a-slow-client", f"{type(e).__name__}: {e}")
    try:
        search_simulator_fanout(ctx)
    except Exception as e:  # noqa
        ctx.obligation_broken("harness:simulator-fanout", f"{type(e).__name__}: {e}")
    ctx.cov["long_lived_handler_roles_checked"] = sorted(ROLE_FORMS)
    if not ctx.quick:
        search_files_all(ctx)
    ctx.cov["distinct_nontrivial"] = len(seen)
    ctx.cov["exhaustive"] = False
    ctx.log("forms hit (correspondence):", len(ctx.cov.get("forms", {})), "of", len(FORMS), "| error kinds:", ctx.cov.get("error_kinds"),
            "| payloads with a delimiter run:", ctx.cov.get("payloads_with_delimiter_run"), "| correspondence ops:",
            ctx.cov.get("correspondence_ops"), "disagreements:", ctx.cov.get("correspondence_disagreements"),
            "| search messages:", ctx.cov.get("search_messages"), "distinct classes:", len(seen))
    ctx.cov["rule"] = ("search: the four inputs of the repaired defects D2/D3/D4, every form at the corners of its integer fields, every shipped platform name, then a seeded "
                       "type-directed stream over the 27 forms restricted to the property's domain (in-range fields, GeckoReminderType values, STATP record "
                       "shapes the decoder is specified for, '<'-free identifiers; names and payloads arbitrary bytes with tags/verbs/newlines/NULs/'|' "
                       "planted); each case = real constructor -> send_bytes -> every can_handle -> real packet handle -> reply -> every can_handle on the "
                       "content -> real handle of each intended class -> compare fields. distinct non-trivial = distinct (form, boundary class of every "
                       "integer field, (length class, delimiter run, tag, control byte, non-ASCII, '|') class of every byte field, list shape, identifier "
                       "classes). correspondence: same generator widened to out-of-range / out-of-domain values + malformed stream + regex corpus, "
                       "every answer compared with the Lean driver")
    ctx.assumptions += ["identifiers contain no '<' (on the wire they are IOS<uuid> / AND<uuid> / SPA<mac>); an identifier containing a closing tag is ambiguous for any parser",
                        "client identifiers start with IOS or AND (what the library sends; the hello decoder classifies by that prefix)",
                        "STATP: every record but the last has 2 data bytes, the last <= 2 (the library sends one 1- or 2-byte record per message; the decoder assumes 4-byte records)",
                        "reminder types are GeckoReminderType values (others are dropped by the decoder by design)",
                        "latin-1 text = bytes (identity on 0..255), exercised with non-ASCII names"]


def replay(inp):
    if inp.get("kind") == "claims-with-a-slow-client":
        from common import Ctx
        c = Ctx("C04", "quick", 0)
        search_claims_with_a_slow_client(c, only=inp["case"])
        return bool(c.violations), c.violations[0]["observed"] if c.violations else "claimed by its own verb's consumer"
    if inp.get("kind") == "markup-payload":
        from common import Ctx
        c = Ctx("C04", "quick", 0)
        search_markup_payloads(c, only=inp["tags"])
        return bool(c.violations), c.violations[0]["observed"] if c.violations else "delivered whole"
    if inp.get("kind") == "simulator-fanout":
        from common import Ctx
        c = Ctx("C04", "quick", 0)
        search_simulator_fanout(c)
        return bool(c.violations), c.violations[0]["observed"] if c.violations else "every client's datagram carries its own identifiers"
    if inp.get("kind") == "vector":
        from common import Ctx
        c = Ctx("C04", "quick", 0)
        search_layout(c)
        v = [x for x in c.violations if x["input"].get("test") == inp.get("test")]
        return bool(v), [{"key": x["key"], "expected": x["expected"], "observed": x["observed"]} for x in v] or "vector reproduced by the real code"
    if inp.get("kind") == "ack":
        ACK_LONG.clear()
        out = []
        for m in ([inp["previous"]] if inp.get("previous") else []) + [dict(inp, kind="message")]:
            f, args, p2, p3 = parse_input(dict(m, kind="message"))
            out = [x for x in oracle(f, args, p2, p3) if x[0].startswith("reply:ack")]
        return bool(out), [{"key": x[0], "expected": x[1], "observed": x[2]} for x in out] or "acknowledged to its sender, identifiers swapped"
    if inp.get("kind") == "reuse":
        LONG.clear()
        out = []
        for m in ([inp["previous"]] if inp.get("previous") else []) + [dict(inp, kind="message")]:
            f, args, p2, p3 = parse_input(dict(m, kind="message"))
            out = [x for x in oracle(f, args, p2, p3) if x[0].startswith("stale-state")]
        return bool(out), [{"key": x[0], "expected": x[1], "observed": x[2]} for x in out] or "decodes the same on the long-lived instance"
    if inp.get("kind") != "message":
        return False, "not a message input"
    f, args, p2, p3 = parse_input(inp)
    fails = oracle(f, args, p2, p3)
    return bool(fails), [{"key": k, "expected": e, "observed": o} for k, e, o in fails] or "round-trips and is claimed by exactly its handler"
