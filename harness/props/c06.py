"""C06 - request engine: bounded retries, one request in flight, every caller completes."""
import asyncio
import sys

import rig
import translate
import vloop
from common import Driver, DriverFailure

LEVEL = "proof"
MANIFEST = dict(
    text="Lean 4 invariants over a transition system of GeckoAsyncUdpProtocol.get for any number of concurrent callers, proved for every reachable state by "
         "induction over action sequences (all arrival times, wake-up orders, reply loss/delay patterns, stalls): at most one caller inside an exchange and it is the lock "
         "holder (at_most_one_in_flight), datagrams per call <= retry count with the waiting handler built at the latest transmission (sends_bounded), callers served in "
         "call order (fifo: acquired ++ parked = called), a reply is returned only by the caller's own poll finding it (reply_was_delivered); and, without event-loop stalls, "
         "the lock is held for at most retry x (timeout + 100 ms + pause) (holder_time_bounded, potential-function invariant) and a free lock with parked callers is handed "
         "over before time passes. Tie = trace validation: real GeckoAsyncUdpProtocol.get with seeded concurrent callers of mixed retry/timeout on the virtual-time loop, "
         "scripted replies (prompt / late / never / wrong verb); every observed call, lock hand-off, poll, send, pause end and return must be enabled in the model and "
         "agree with its send log and results. Gating is checked on the real GeckoAsyncSpa entry points. Session 4: an arrival-order monitor (no later caller is transmitted while an earlier caller has not completed). The lock shape of get() is a theorem over its regenerated suspension skeleton (get_lock_shape: every transmission while the caller holds the lock, the lock taken once per call, for every trace). Also the multi-segment request (GeckoAsyncStructure.get): every attempt consumes retry budget in both gets (every_attempt_consumes_budget over the regenerated skeletons) and the partial-loss pattern (a middle segment lost every time, the final one arriving) is driven on the real code. The answering-pings gate is searched with the real ping loop against a spa that stops answering, after silences of 150 s to two days (a week in the thorough tier), on a virtual clock that also drives time.time and datetime.now. A query whose replies are all lost while the spa keeps sending unsolicited partial updates (the connection`s consumers running); request_clock_is_the_handlers_own. Session 5: unwrapper_overwrites_its_fields_for_every_datagram (every normal end of GeckoPacketProtocolHandler.handle assigns addressing and content: nothing of the previous datagram survives; everyNormalEndDid_sound), and stray traffic on the real consumers: after an answered query the spa goes quiet for that verb while malformed framings, packets for another client or from another host and garbage arrive - the query reports failure after exactly its retry count; then the spa falls silent under the same strays and the answering-pings gate closes. The silence scenario also runs with the WALL clock stepped back an hour when the spa falls silent (vloop.WALL_SHIFT moves time.time / datetime.now without the monotonic clock). Round 14: the retransmissions of the real connection sequence (first transmission of every handshake request lost / one segment lost): new sequence number per attempt of one connection, attempts a timeout apart unless answered. Round 15: addressed STATP traffic during the silent phase of the stray-traffic scenario - the ping gate closes although the spa keeps talking. Round 16: the lock is instrumented on the connection's own lock object (acquire / release), not on a class name; callers CANCELLED while queueing for the connection (search_cancelled_waiter): nobody releases what he does not hold, one request in flight, every other caller gets its reply.",
    note="partial: time bounds hold under the fairness hypothesis (no event-loop stall), with one polling interval of slack per attempt; asyncio.Lock FIFO hand-off and "
         "'no pre-emption between awaits' are assumed (exercised by the traces). Known finding D12: the connected/ping gates are evaluated once at call entry, so a call "
         "parked on the lock can transmit after pings have gone stale.",
    technique="Lean 4 inductive invariants + potential-function time bound over a transition system; trace validation of the real protocol object",
    design="5/C06")

ADDR = ("10.0.0.1", 10022)


def gen_scenario(rng, quick):
    n = rng.choice([1, 2, 3, 4, 6, 8] if quick else [1, 2, 3, 5, 8, 12, 20])
    callers = []
    t = 0
    for i in range(n):
        t += rng.choice([0, 0, 0, 50, 100, 130, 1000, 4100, 7000])
        callers.append({"id": i + 1, "at": t, "retry": rng.choice([1, 1, 2, 3, 10]), "timeout": rng.choice([350, 1050, 4050]),
                        # per attempt: reply delay in ms, None = never, ("wrong", d) = a datagram of another verb after d
                        "replies": [rng.choice([0, 10, 99, 100, 101, 250, 900, None, None, ("wrong", 50), ("late", 700)]) for _ in range(10)]})
    return {"callers": callers, "pause": rng.choice([0, 100, 500, 2000])}


def run_scenario(sc, seed, shuffle, jitter):
    from geckolib.driver.async_udp_protocol import GeckoAsyncUdpProtocol
    from geckolib.driver.protocol.ping import GeckoPingProtocolHandler
    from geckolib.driver.protocol.unhandled import GeckoUnhandledProtocolHandler
    import geckolib.config as cfg
    import geckolib.driver.async_udp_protocol as aup
    res = {}

    async def body(loop):
        tr = rig.Trace(loop)
        cfg.GeckoConfig.PAUSE_BETWEEN_RETRIES_IN_SECONDS = sc["pause"] / 1000.0
        proto = GeckoAsyncUdpProtocol(None, ADDR)
        ft = vloop.FakeTransport(loop, proto)
        proto.connection_made(ft)
        cur = {}          # task -> caller id
        attempts = {}     # caller id -> number of sends
        # --- lock instrumentation: on the connection's own lock object, whatever its class (the library's DbgLock subclass, a plain
        #     asyncio.Lock ...) and however it is taken (`async with` goes through acquire / release as well)
        lk = proto.Lock
        o_acquire, o_release = lk.acquire, lk.release

        async def acquire():
            t = asyncio.current_task()
            cid = cur.get(t)
            parked = lk.locked() or bool(getattr(lk, "_waiters", None))
            tr.add("lock-wait" if parked else "lock-free", cid)
            r = await o_acquire()
            tr.add("acquired", cid, parked)
            return r

        def release():
            tr.add("released", cur.get(asyncio.current_task()))
            return o_release()
        lk.acquire, lk.release = acquire, release
        o_send = ft.sendto

        def sendto(data, addr=None):
            cid = cur.get(asyncio.current_task())
            attempts[cid] = attempts.get(cid, 0) + 1
            tr.add("send", cid, attempts[cid])
            o_send(data, addr)
            c = [c for c in sc["callers"] if c["id"] == cid]
            if c:
                rep = c[0]["replies"][(attempts[cid] - 1) % len(c[0]["replies"])]
                if rep is None:
                    return
                if isinstance(rep, tuple) and rep[0] == "wrong":
                    loop.call_later(rep[1] / 1000.0, proto.datagram_received, b"ZZTOP" + bytes([cid]), ADDR)
                elif isinstance(rep, tuple) and rep[0] == "late":
                    loop.call_later((c[0]["timeout"] + rep[1]) / 1000.0, proto.datagram_received, b"APING" + bytes([cid]), ADDR)
                else:
                    loop.call_later(rep / 1000.0, proto.datagram_received, b"APING" + bytes([cid]), ADDR)
        ft.sendto = sendto
        results = {}

        async def caller(c):
            await asyncio.sleep(c["at"] / 1000.0)
            cur[asyncio.current_task()] = c["id"]
            tr.add("call", c["id"], (c["retry"], c["timeout"]))

            def mk():
                return GeckoPingProtocolHandler(content=b"APING", timeout=c["timeout"] / 1000.0 + 0.0005, parms=(ADDR[0], ADDR[1], b"s", b"c"))
            try:
                h = await proto.get(mk, None, c["retry"])
                results[c["id"]] = ("reply", getattr(h, "_verif_reply", None)) if h is not None else ("none", None)
            except asyncio.CancelledError:
                results[c["id"]] = ("cancelled", None)          # (only callers with a "cancel_at" are ever cancelled)
            except Exception as e:  # noqa
                results[c["id"]] = ("raised", f"{type(e).__name__}: {e}")
            tr.add("return", c["id"], results[c["id"]])
        with rig.instrument(tr):
            try:
                ut = asyncio.ensure_future(GeckoUnhandledProtocolHandler().consume(proto))
                tasks = [asyncio.ensure_future(caller(c)) for c in sc["callers"]]
                for c, t_ in zip(sc["callers"], tasks):
                    if c.get("cancel_at") is not None:
                        loop.call_later(c["cancel_at"] / 1000.0, t_.cancel)
                horizon = max(c["at"] for c in sc["callers"]) / 1000.0 + sum(c["retry"] * (c["timeout"] + 100 + sc["pause"]) for c in sc["callers"]) / 1000.0 + 5
                done, pending = await asyncio.wait(tasks, timeout=horizon)
                res["pending"] = len(pending)
                for t in pending:
                    t.cancel()
                ut.cancel()
            finally:
                pass
        res["trace"], res["results"], res["cur"] = tr, results, cur
    vloop.run_virtual(body, seed=seed, shuffle=shuffle, jitter=jitter)
    return res


def _poller(tr_event):
    return tr_event


def to_lines(sc, res, fair):
    """trace -> validator lines"""
    tr = res["trace"]
    lines = ["reset", f"mode {'fair' if fair else 'unfair'}"]
    now = 0
    by_id = {c["id"]: c for c in sc["callers"]}
    handler_owner = {}
    evs = tr.ev
    pending_call = set()
    paused = set()
    i = 0
    # which handler objects belong to which caller: learned from pops / head reads is not possible from outside, so polls are
    # attributed to the current lock holder (the only one allowed to poll); the validator checks exactly that.
    holder = None
    n = len(evs)
    for idx, (ms, kind, who, payload) in enumerate(evs):
        if ms != now:
            lines.append(f"t {ms}")
            now = ms
        if kind == "call":
            pending_call.add(who)
        elif kind == "lock-free" or kind == "lock-wait":
            c = by_id[who]
            lines.append(f"call {who} {c['retry']} {c['timeout']} {sc['pause']}")
        elif kind == "acquired":
            if payload:       # had been parked
                lines.append(f"handoff {who}")
            holder = who
        elif kind == "released":
            holder = None
        elif kind == "send":
            if payload > 1:
                lines.append(f"resume {who}")
            lines.append(f"send {who}")
        elif kind == "wfr-poll":
            lines.append(f"poll {holder if holder is not None else 0} {payload if payload else '-'}")
            if payload:
                handler_owner[holder] = payload
        elif kind == "return":
            if payload[0] == "none":
                # the pause after the last failed attempt ended
                lines.append(f"resume {who}")
                lines.append(f"done {who} none")
            elif payload[0] == "reply":
                lines.append(f"done {who} {handler_owner.get(who)}")
            else:
                lines.append(f"done {who} raised")
    lines.append("end")
    return lines


def add_poll_events(res):
    """derive one 'wfr-poll' event per look at the queue by wait_for_response, with the popped datagram id if any"""
    tr = res["trace"]
    out = []
    evs = []
    for e in tr.ev:
        # the unpacking read `data, sender = queue.head` immediately follows the test read of the same look (same ms, something at the head,
        # later bytecode offset): keep the test read only
        if e[1] == "wfr-head" and evs and evs[-1][1] == "wfr-head" and evs[-1][0] == e[0] and evs[-1][3][1] and e[3][1] and e[3][0] > evs[-1][3][0]:
            continue
        evs.append(e)
    k = 0
    while k < len(evs):
        ms, kind, who, payload = evs[k]
        if kind == "wfr-head":
            # a pop by a wait_for_response immediately after = reply
            if k + 1 < len(evs) and evs[k + 1][1] == "pop" and evs[k + 1][3][2] == "wait_for_response" and evs[k + 1][0] == ms:
                out.append((ms, "wfr-poll", who, evs[k + 1][3][0]))
                k += 2
                continue
            out.append((ms, "wfr-poll", who, None))
        elif kind in ("put", "mark", "u-head-none", "u-is-marked") or (kind == "pop"):
            pass
        else:
            out.append(evs[k])
        k += 1
    tr.ev = out


class head_probe:
    """additionally record every head read made from wait_for_response (one per poll)"""

    def __init__(self, tr):
        self.tr = tr

    def __enter__(self):
        from geckolib.driver import async_peekablequeue as m
        self.Q = m.AsyncPeekableQueue
        self.prev = self.Q.__dict__["head"]
        prev, tr = self.prev, self.tr
        state = {"last": None}

        def head(q):
            v = prev.fget(q)
            f = sys._getframe(1)
            if f.f_code.co_name == "wait_for_response":
                # wait_for_response reads head at two places per look (the test, then the unpacking); the bytecode offset tells them apart
                tr.add("wfr-head", None, (f.f_lasti, v is not None))
            return v
        self.Q.head = property(head)
        return self

    def __exit__(self, *a):
        self.Q.head = self.prev


def monitors(ctx, sc, res, fair, inp):
    tr = res["trace"]
    holder = None
    acq_time = {}
    call_order, acq_order = [], []
    sends = {}
    last_send = {}
    by_id = {c["id"]: c for c in sc["callers"]}
    returned = set()
    for (ms, kind, who, payload) in tr.ev:
        if kind == "return":
            returned.add(who)
        if kind == "return" and payload[0] == "none" and who in last_send and ms - last_send[who] < by_id[who]["timeout"]:
            ctx.violation("failure-reported-early", inp, f"failure is reported only after the timeout ({by_id[who]['timeout']} ms) of the last attempt",
                          f"caller {who}: gave up {ms - last_send[who]} ms after its last transmission")
        if kind in ("lock-free", "lock-wait"):
            call_order.append(who)
        elif kind == "acquired":
            if holder is not None:
                ctx.violation("two-holders", inp, "one caller inside the exchange at a time", f"{who} acquired while {holder} holds")
            holder = who
            acq_time[who] = ms
            acq_order.append(who)
        elif kind == "released":
            if fair and who in acq_time:
                c = by_id[who]
                bound = c["retry"] * (c["timeout"] + 100 + sc["pause"])
                if ms - acq_time[who] > bound:
                    ctx.violation("time-bound", inp, f"lock held at most retry x (timeout + 100 + pause) = {bound} ms", f"{ms - acq_time[who]} ms by caller {who}")
            holder = None
        elif kind == "send":
            # served in arrival order: nobody transmits while a caller that arrived earlier has not completed
            first_calls = list(dict.fromkeys(call_order))
            if who in first_calls:
                earlier = [x for x in first_calls[:first_calls.index(who)] if x not in returned]
                if earlier:
                    ctx.violation("arrival-order", inp, "callers are served in arrival order: a later caller transmits only after every earlier one has completed",
                                  f"caller {who} transmitted at {ms} ms while earlier caller(s) {earlier} had not completed")
            # one attempt at a time: the previous attempt of this call is only abandoned after its timeout has run out
            if who in last_send and ms - last_send[who] < by_id[who]["timeout"]:
                ctx.violation("attempt-abandoned-early", inp, f"an unanswered attempt waits its timeout ({by_id[who]['timeout']} ms) before the next one",
                              f"caller {who}: next transmission after {ms - last_send[who]} ms")
            last_send[who] = ms
            sends[who] = sends.get(who, 0) + 1
            if holder != who:
                ctx.violation("send-without-lock", inp, "only the lock holder transmits", f"caller {who} sent while holder is {holder}")
            if sends[who] > by_id[who]["retry"]:
                ctx.violation("too-many-sends", inp, f"at most {by_id[who]['retry']} transmissions", sends[who])
    if acq_order != call_order[:len(acq_order)]:
        ctx.violation("fifo", inp, {"call_order": call_order}, {"acquisition_order": acq_order})
    if res["pending"]:
        ctx.violation("not-complete", inp, "every caller completes", f"{res['pending']} callers still pending at the horizon")
    for cid, r in res["results"].items():
        if r[0] == "raised":
            ctx.violation("get-raised", inp, "get returns a handler or None", r[1])


async def _gate_rig(loop):
    """a real GeckoAsyncSpa on a fake transport whose peer answers pings (and nothing else) while `answering[0]`; the REAL ping loop
    runs, so whether pings are fresh or stale is decided by the library's own bookkeeping - nothing is written into the spa object
    beyond what `_connect` itself sets (protocol, connected flag, pack identity)"""
    from geckolib.async_spa import GeckoAsyncSpa
    from geckolib.async_tasks import AsyncTasks
    from geckolib.driver.async_udp_protocol import GeckoAsyncUdpProtocol

    async def ev(*a, **k):
        pass
    desc = rig.Desc()
    spa = GeckoAsyncSpa(b"IOSclient", desc, AsyncTasks(), ev)
    proto = GeckoAsyncUdpProtocol(None, ADDR)
    ft = vloop.FakeTransport(loop, proto)
    proto.connection_made(ft)
    spa._protocol = proto
    spa._is_connected = True
    spa.pack_type, spa.config_version, spa.log_version = 6, 1, 2
    answering = [True]
    orig = ft.sendto

    def sendto(data, addr=None):
        orig(data, addr)
        if answering[0] and b"APING" in data:
            sender = (ADDR[0], ADDR[1], desc.identifier, b"IOSclient")
            loop.call_later(0.02, proto.datagram_received, b"APING\x00", sender)
    ft.sendto = sendto
    ping = asyncio.ensure_future(spa._ping_loop())
    entry = {"async_press": lambda: spa.async_press(1), "_on_async_set_value": lambda: spa._on_async_set_value(10, 1, 5),
             "async_get_watercare": spa.async_get_watercare, "async_set_watercare": lambda: spa.async_set_watercare(1),
             "async_get_reminders": spa.async_get_reminders}
    return spa, ft, answering, ping, entry


_GATED_VERBS = (b"SPACK", b"GETWC", b"SETWC", b"REQRM")


def search_gate(ctx):
    """the gates on the REAL GeckoAsyncSpa: (a) a call made while not connected sends nothing; (b) D12 scenario"""
    import geckolib.config as cfg
    out = {}

    async def body(loop):
        spa, ft, answering, ping, entry = await _gate_rig(loop)
        await asyncio.sleep(100)
        # (a) not connected (pings are being answered): nothing is transmitted
        spa._is_connected = False
        for name, mk in entry.items():
            n0 = len(ft.sent)
            try:
                await asyncio.wait_for(mk(), 0.5)
            except asyncio.TimeoutError:
                pass
            except Exception as e:  # noqa
                out[f"gate:disconnected:{name}"] = f"raised {type(e).__name__}"
                continue
            out[f"gate:disconnected:{name}"] = len([x for x in ft.sent[n0:] if any(v in x[1] for v in _GATED_VERBS)])
        ping.cancel()
    vloop.run_virtual(body)

    async def body_b(loop):
        # (b) check-then-wait: active timing table (a pump is running), a query hogs the lock, a command parks behind it
        cfg.GeckoConfig.PING_FREQUENCY_IN_SECONDS = 2
        spa, ft, answering, ping, entry = await _gate_rig(loop)
        await asyncio.sleep(10)
        fresh = spa.is_responding_to_pings
        hog = asyncio.ensure_future(spa.async_get_reminders())
        await asyncio.sleep(0.2)
        n0 = len(ft.sent)
        cmd = asyncio.ensure_future(spa._on_async_set_value(10, 1, 5))
        stale_send = None
        for _ in range(700):
            await asyncio.sleep(0.1)
            new = [x for x in ft.sent[n0:] if b"SPACK" in x[1]]
            if new:
                stale_send = (new[0][0], spa.is_responding_to_pings, spa.is_connected, fresh)
                break
        for t in (hog, cmd, ping):
            t.cancel()
        out["toctou"] = stale_send
    vloop.run_virtual(body_b)
    for k, v in out.items():
        ctx.count("evaluations")
        if k.startswith("gate:") and v != 0:
            ctx.violation(k, {"scenario": k}, "no datagram while the gate is closed", v)
    if out.get("toctou") is not None and out["toctou"][1] is False:
        ctx.violation("gate-toctou:set_value-parked-behind-a-query", {"scenario": "active timing table; async_get_reminders unanswered holds the connection; "
                      "_on_async_set_value called while pings are fresh parks on the lock and transmits when it gets it"},
                      "no command datagram while not answering pings", {"sent_at_s": out["toctou"][0], "is_responding_to_pings": False})
    ctx.cov["gate_checks"] = out


def search_gate_silence(ctx):
    _search_gate_silence(ctx, 0.0)
    # the same with the WALL clock stepped back an hour just as the spa falls silent (an NTP correction, the user setting the date):
    # how long the spa has been silent is a matter of elapsed time, whatever the calendar says
    _search_gate_silence(ctx, -3600.0)


def _search_gate_silence(ctx, wall_step):
    """the answering-pings gate over LONG silences, with nothing written into the spa object: the real ping loop runs against a spa
    that answers for a while and then goes silent; the command / query entry points are tried at offsets from seconds to a week
    (a whole number of days plus a little included) and must not transmit anything"""
    from geckolib.async_spa import GeckoAsyncSpa
    from geckolib.async_tasks import AsyncTasks
    from geckolib.driver.async_udp_protocol import GeckoAsyncUdpProtocol
    from geckolib.driver import GeckoPingProtocolHandler, GeckoPacketProtocolHandler
    import geckolib.config as cfg
    out = {}
    offsets = [150, 3600, 86400.3, 86400 + 60, 2 * 86400 + 1.0] + ([7 * 86400 + 0.5] if not ctx.quick else [])

    async def body(loop):
        spa, ft, answering, ping, entry = await _gate_rig(loop)
        await asyncio.sleep(200)                       # a few answered pings
        out["answered_before_silence"] = spa.is_responding_to_pings
        answering[0] = False
        t_silent = loop.time()
        vloop.WALL_SHIFT[0] = wall_step
        verbs = _GATED_VERBS
        for off in offsets:
            await asyncio.sleep(max(0.0, t_silent + off - loop.time()))
            for name, mk in entry.items():
                n0 = len(ft.sent)
                try:
                    await asyncio.wait_for(mk(), 0.5)
                except asyncio.TimeoutError:
                    pass
                except Exception as e:  # noqa
                    out[f"silent:{off}:{name}"] = f"raised {type(e).__name__}: {e}"
                    continue
                sent = [d for _, d in [(x[0], x[1]) for x in ft.sent[n0:]] if any(v in d for v in verbs)]
                out[f"silent:{off}:{name}"] = len(sent)
        ping.cancel()
    try:
        vloop.run_virtual(body)
    finally:
        vloop.WALL_SHIFT[0] = 0.0
    tag = "" if not wall_step else f":wall-clock-stepped-{int(wall_step)}s"
    if out.get("answered_before_silence") is not True:
        ctx.violation("gate-silence:never-answering", {"scenario": "pings answered for 200 s"}, "is_responding_to_pings while pings are answered",
                      out.get("answered_before_silence"))
    for k, v in out.items():
        if not k.startswith("silent:"):
            continue
        ctx.count("evaluations")
        if v != 0:
            _, off, name = k.split(":")
            ctx.violation(f"gate-silence:{name}{tag}", {"kind": "gate-silence", "silent_for_s": float(off), "entry": name, "wall_step_s": wall_step},
                          "no command or query datagram while the spa has not answered a ping for that long", v)
    ctx.cov["gate_silence_checks" + tag] = {k: v for k, v in out.items() if k.startswith("silent:")}


def search_chatter(ctx):
    """a query whose every reply is LOST while the spa keeps sending unsolicited (framed) partial updates, with the connection's own
    long-lived consumers running as `_connect` starts them: the query still gives up after its retries, within
    retry x (timeout + poll + pause), and the ping queued behind it is then served"""
    import geckolib.config as cfg
    from geckolib.const import GeckoConstants
    from geckolib.driver import GeckoPacketProtocolHandler, GeckoUnhandledProtocolHandler
    from geckolib.driver.protocol.statusblock import GeckoAsyncPartialStatusBlockProtocolHandler
    out = {}

    async def body(loop):
        spa, ft, answering, ping, entry = await _gate_rig(loop)
        proto = spa._protocol
        desc_id = spa.descriptor.identifier
        tasks = [asyncio.ensure_future(GeckoUnhandledProtocolHandler().consume(proto)),
                 asyncio.ensure_future(GeckoPacketProtocolHandler(async_on_handled=spa._async_on_packet).consume(proto)),
                 asyncio.ensure_future(GeckoAsyncPartialStatusBlockProtocolHandler(proto, async_on_handled=spa._async_on_partial_status_update).consume(proto))]
        await asyncio.sleep(70)                      # pings are being answered
        T = cfg.GeckoConfig.PROTOCOL_TIMEOUT_IN_SECONDS
        P = cfg.GeckoConfig.PAUSE_BETWEEN_RETRIES_IN_SECONDS
        R = cfg.GeckoConfig.PROTOCOL_RETRY_COUNT
        bound = R * (T + 0.2 + P) + 2.0

        async def chatter():
            k = 0
            while True:
                await asyncio.sleep(T / 3.0)
                k += 1
                proto.datagram_received(rig.frame(desc_id, b"IOSclient", b"STATP\x01\x00" + bytes([40 + k % 50, k % 256, 7])), ADDR)
        ch = asyncio.ensure_future(chatter())
        t0 = loop.time()
        n0 = len(ft.sent)
        q = asyncio.ensure_future(spa.async_get_watercare())
        done, pend = await asyncio.wait([q], timeout=bound + 30)
        out["finished_after_s"] = round(loop.time() - t0, 2) if not pend else None
        out["bound_s"] = round(bound, 2)
        out["getwc_transmissions"] = len([x for x in ft.sent[n0:] if b"GETWC" in x[1]])
        out["retry_count"] = R
        pings0 = len([x for x in ft.sent if b"APING" in x[1]])
        await asyncio.sleep(2 * cfg.GeckoConfig.PING_FREQUENCY_IN_SECONDS + 10)
        out["pings_after"] = len([x for x in ft.sent if b"APING" in x[1]]) - pings0
        for t in tasks + [ch, ping, q]:
            t.cancel()
    vloop.run_virtual(body)
    ctx.count("evaluations")
    ctx.cov["chatter_scenario"] = out
    if out.get("finished_after_s") is None or out["finished_after_s"] > out["bound_s"] or out["getwc_transmissions"] > out["retry_count"] or out["pings_after"] < 1:
        ctx.violation("chatter:query-does-not-give-up", {"kind": "chatter"},
                      f"the query finishes within {out.get('bound_s')} s after at most {out.get('retry_count')} transmissions, and later callers (the ping) are served",
                      out)

STRAYS = {
    # what anybody on the network may send to an unconnected UDP endpoint while a request of ours is outstanding
    "empty-packet": lambda d: (b"<PACKT></PACKT>", ADDR),
    "no-sections": lambda d: (b"<PACKT>hello</PACKT>", ("10.9.9.9", 10022)),
    "missing-datas": lambda d: (b"<PACKT><SRCCN>" + d + b"</SRCCN><DESCN>IOSclient</DESCN></PACKT>", ADDR),
    "garbled-sections": lambda d: (b"<PACKT><SRCCN>" + d + b"</SRCCN><DATAS>WCGET\x02</DATAS></PACKT>", ADDR),
    "other-client": lambda d: (rig.frame(d, b"IOSother", b"WCGET\x03"), ADDR),
    "other-host": lambda d: (rig.frame(d, b"IOSclient", b"WCGET\x03"), ("10.9.9.9", 10022)),
    "raw-garbage": lambda d: (b"\x00\xffWCGE", ADDR),
}


def search_strays(ctx):
    """"returns a reply only if one was actually delivered for it", with the connection's long-lived consumers running as `_connect`
    starts them and every reply FRAMED as the spa frames it: after an answered query, the spa stops answering that verb; while the
    next query of the same verb is outstanding, stray datagrams arrive (malformed framings, packets for another client, from another
    host, garbage). The query must report failure after exactly its retry count; then the spa stops answering pings under the
    same strays and the answering-pings gate must close"""
    import geckolib.config as cfg
    from geckolib.driver import GeckoPacketProtocolHandler, GeckoUnhandledProtocolHandler
    from geckolib.driver.protocol.statusblock import GeckoAsyncPartialStatusBlockProtocolHandler
    out = {}

    async def body(loop):
        spa, ft, answering, ping0, entry = await _gate_rig(loop)
        ping0.cancel()
        answering[0] = False                     # this scenario frames its own replies
        proto = spa._protocol
        desc_id = spa.descriptor.identifier
        sw = {"ping": True, "wc": True}
        inner = ft.sendto

        def sendto(data, addr=None):
            inner(data, addr)
            if b"APING" in data and sw["ping"]:
                loop.call_later(0.02, proto.datagram_received, rig.frame(desc_id, b"IOSclient", b"APING\x00"), ADDR)
            if b"GETWC" in data and sw["wc"]:
                loop.call_later(0.02, proto.datagram_received, rig.frame(desc_id, b"IOSclient", b"WCGET\x02"), ADDR)
        ft.sendto = sendto
        tasks = [asyncio.ensure_future(GeckoUnhandledProtocolHandler().consume(proto)),
                 asyncio.ensure_future(GeckoPacketProtocolHandler(async_on_handled=spa._async_on_packet).consume(proto)),
                 asyncio.ensure_future(GeckoAsyncPartialStatusBlockProtocolHandler(proto, async_on_handled=spa._async_on_partial_status_update).consume(proto))]
        ping = asyncio.ensure_future(spa._ping_loop())
        await asyncio.sleep(70)
        T = cfg.GeckoConfig.PROTOCOL_TIMEOUT_IN_SECONDS
        P = cfg.GeckoConfig.PAUSE_BETWEEN_RETRIES_IN_SECONDS
        R = cfg.GeckoConfig.PROTOCOL_RETRY_COUNT
        bound = R * (T + 0.2 + P) + 2.0
        out["retry_count"], out["bound_s"] = R, round(bound, 2)
        for kind, mk in STRAYS.items():
            sw["wc"] = True
            primed = await asyncio.wait_for(spa.async_get_watercare(), bound + 5)
            sw["wc"] = False

            async def strays():
                while True:
                    await asyncio.sleep(T / 3.0)
                    proto.datagram_received(*mk(desc_id))
            st = asyncio.ensure_future(strays())
            t0, n0 = loop.time(), len(ft.sent)
            q = asyncio.ensure_future(spa.async_get_watercare())
            done, pend = await asyncio.wait([q], timeout=bound + 30)
            st.cancel()
            res = None
            if not pend:
                try:
                    res = ("returned", q.result())
                except Exception as e:  # noqa
                    res = ("raised", type(e).__name__)
            else:
                q.cancel()
            out[kind] = {"primed_with": primed, "result": res, "after_s": round(loop.time() - t0, 2),
                         "transmissions": len([x for x in ft.sent[n0:] if b"GETWC" in x[1]]),
                         "consumers_alive": [not t.done() for t in tasks]}
            await asyncio.sleep(5)
        # the spa falls silent altogether; the strays go on
        sw["ping"] = False
        sw["wc"] = False
        t_sil = loop.time()

        async def strays2():
            k = 0
            kinds = list(STRAYS.values())
            while True:
                await asyncio.sleep(1.0)
                k += 1
                proto.datagram_received(*kinds[k % len(kinds)](desc_id))
                # ... and the spa itself goes on REPORTING changes (properly addressed partial updates) although it answers no ping: being
                # heard from is not the same as answering pings
                proto.datagram_received(rig.frame(desc_id, b"IOSclient", b"STATP\x01\x00" + bytes([40 + k % 50, k % 256, 7])), ADDR)
        st = asyncio.ensure_future(strays2())
        await asyncio.sleep(6 * cfg.GeckoConfig.PING_FREQUENCY_IN_SECONDS + 10)
        n0 = len(ft.sent)
        try:
            await asyncio.wait_for(spa._on_async_set_value(10, 1, 5), 0.5)
        except asyncio.TimeoutError:
            pass
        out["silent"] = {"silent_for_s": round(loop.time() - t_sil, 1), "is_responding_to_pings": spa.is_responding_to_pings,
                         "commands_sent": len([x for x in ft.sent[n0:] if b"SPACK" in x[1]])}
        for t in tasks + [ping, st]:
            t.cancel()
    vloop.run_virtual(body)
    ctx.cov["stray_scenarios"] = out
    R = out.get("retry_count")
    for kind in STRAYS:
        o = out.get(kind)
        ctx.count("evaluations")
        if o is None:
            ctx.violation(f"strays:{kind}:not-run", {"kind": "strays", "stray": kind}, "scenario runs", out)
            continue
        if o["primed_with"] != 2:
            ctx.violation(f"strays:{kind}:answered-query-failed", {"kind": "strays", "stray": kind}, "an answered query returns the spa's answer (2)", o)
        elif o["result"] != ("returned", None) or o["transmissions"] != R or o["after_s"] > out["bound_s"] or not all(o["consumers_alive"]):
            ctx.violation(f"strays:{kind}:reply-not-delivered-for-it", {"kind": "strays", "stray": kind},
                          f"no reply was delivered for the query: it reports failure (None) after {R} transmissions within {out['bound_s']} s, consumers still running", o)
    o = out.get("silent")
    ctx.count("evaluations")
    if o is None or o["is_responding_to_pings"] is not False or o["commands_sent"] != 0:
        ctx.violation("strays:gate-stays-open-for-a-silent-spa", {"kind": "strays", "stray": "silent"},
                      "after the spa stops answering pings the gate closes and no command datagram is sent", o)


def search_handshake_retries(ctx):
    """"each attempt freshly built, one attempt at a time", on the requests the REAL connection sequence makes (`GeckoAsyncSpa._connect`
    builds each request's factory itself): the first transmission of every handshake request is lost (and, second run, one segment of
    the status block answer); on the wire every retransmission of a request carries a NEW sequence number, and unless an answer
    datagram came in between it follows the previous attempt by no less than the protocol timeout"""
    import fakenet
    import geckolib.config as cfg
    from geckolib import GeckoAsyncSpaMan
    from props import c10
    verbs = (b"AVERS", b"CURCH", b"SFILE", b"STATU")
    for label, phases in (("first-transmission-lost", [("until:CONNECTED", "first:1")]), ("first-segment-lost", [("until:CONNECTED", "segonce:0")])):
        rec = {}

        async def body(loop):
            rec["attempts"] = []

            class Man(GeckoAsyncSpaMan):
                async def handle_event(self, event, **kw):
                    if "CONNECTION_STARTED" in str(event):
                        rec["attempts"].append(loop.time())        # sequence numbers start again with every connection
            sim = fakenet.make_sim(c10.SNAP)
            net = fakenet.Network(loop, sim, phases=phases, seed=1)
            loop.network = net
            m = Man("uuid-1", spa_identifier=c10.IDENT, spa_address="10.0.0.9", spa_name="Spa")
            net.state_fn = lambda: str(m.spa_state).split(".")[-1]
            await m.__aenter__()
            for _ in range(4000):
                await asyncio.sleep(0.05)
                if m.facade is not None and str(m.spa_state).endswith("CONNECTED"):
                    break
            rec["connected"] = m.facade is not None
            rec["log"] = list(net.log)
            await m.__aexit__(None, None, None)
        vloop.run_virtual(body, stable=True)
        T = cfg.GeckoConfig.PROTOCOL_TIMEOUT_IN_SECONDS
        R = cfg.GeckoConfig.PROTOCOL_RETRY_COUNT
        problems = []
        bounds = list(rec.get("attempts", [])) + [float("inf")]
        for v, (lo, hi) in [(v_, w_) for v_ in verbs for w_ in zip(bounds, bounds[1:])]:
            sends = [(t, d) for (t, dr, d) in rec.get("log", []) if dr == "c>s" and fakenet.Network._verb(d) == v and lo <= t < hi]
            seqs = []
            for (t, d) in sends:
                k = d.find(b"<DATAS>")
                seqs.append((round(t, 3), d[k + 12] if k >= 0 and len(d) > k + 12 else None))
            if len(seqs) != len({q for _, q in seqs}):
                problems.append({"verb": v.decode(), "problem": "a retransmission carries the sequence number of an earlier attempt", "transmissions (t, seq)": seqs[:8]})
            if len(seqs) > R:
                problems.append({"verb": v.decode(), "problem": f"more than {R} transmissions", "transmissions (t, seq)": seqs[:12]})
            for (t1, _), (t2, _) in zip(seqs, seqs[1:]):
                answered = any(dr == "s>c" and t1 < t <= t2 and fakenet.Network._verb(d)[:3] in (v[:3], b"STA", b"SVE", b"CHC", b"FIL")
                               for (t, dr, d) in rec.get("log", []))
                if t2 - t1 < T - 0.2 and not answered:
                    problems.append({"verb": v.decode(), "problem": f"attempts {t2 - t1:.3f} s apart with no answer in between (timeout {T} s)", "transmissions (t, seq)": seqs[:8]})
                    break
        ctx.count("evaluations")
        ctx.hist("handshake_retries", f"{label}:{'connected' if rec.get('connected') else 'not-connected'}")
        if problems or not rec.get("connected"):
            ctx.violation(f"handshake-retries:{label}", {"kind": "handshake-retries", "loss": label},
                          "every retransmission is a freshly built request (new sequence number), one attempt at a time, and the connection completes",
                          {"connected": rec.get("connected"), "problems": problems[:3]})


def search_struct_get(ctx):
    """the multi-segment request (GeckoAsyncStructure.get: one STATU answered by a chain of STATV segments, under the same
    connection lock): attempts that end WITHOUT a timeout - a middle segment lost every time, the final one arriving out of
    sequence - count against the retry budget like any other, and the call returns (so the callers queued behind it complete)"""
    from props import c01
    rng = ctx.rng
    spa = bytes(rng.randrange(256) for _ in range(1024))
    cli = bytes(1024)
    n = 0
    for (s0, ln) in ((0, 117), (256, 301), (100, 200), (0, 1024)) if not ctx.quick else ((0, 117), (256, 301)):
        ch = c01.real_chain(spa, s0, ln)
        for k in sorted({1, len(ch) // 2, len(ch) - 2}):
            if not (1 <= k <= len(ch) - 2):
                continue
            for retry in (1, 3, 10):
                toks = [f"s{i}" for i in range(len(ch)) if i != k] * (retry + 5)
                res = c01.run_async(spa, cli, s0, ln, retry, toks, ch)
                n += 1
                inp = {"kind": "struct-get", "start": s0, "len": ln, "retry": retry, "lost_segment": k, "attempts_fed": retry + 5}
                if res["ok"] is not False or res["sends"] > retry:
                    ctx.violation("struct-get:attempt-ended-without-timeout-not-counted", inp,
                                  f"at most {retry} STATU transmissions, then the call returns False",
                                  {"result": str(res["ok"])[:80], "transmissions": res["sends"]})
    ctx.count("evaluations", n)
    ctx.cov["struct_get_partial_loss_runs"] = n


def search_cancelled_waiter(ctx, only=None):
    """a caller that is CANCELLED while it waits for the connection (a time-limited call of the client, a task cancelled by a reset) must not
    disturb the others: A's exchange is under way (its reply comes late), B queues and is cancelled there, C arrives - still one request in
    flight at a time, A and C get their replies, nobody raises. All orders of B's cancellation and C's arrival, one or two cancelled waiters"""
    cases = []
    for b_cancel, c_at in ((50, 100), (50, 20), (150, 100), (20, 20)):
        cases.append([{"id": 1, "at": 0, "retry": 2, "timeout": 400, "replies": [300]},
                      {"id": 2, "at": 10, "retry": 2, "timeout": 400, "replies": [30], "cancel_at": b_cancel},
                      {"id": 3, "at": c_at, "retry": 2, "timeout": 400, "replies": [30]}])
    cases.append([{"id": 1, "at": 0, "retry": 2, "timeout": 400, "replies": [300]},
                  {"id": 2, "at": 10, "retry": 2, "timeout": 400, "replies": [30], "cancel_at": 40},
                  {"id": 3, "at": 15, "retry": 2, "timeout": 400, "replies": [30], "cancel_at": 60},
                  {"id": 4, "at": 80, "retry": 2, "timeout": 400, "replies": [30]}])
    for ci, callers in enumerate(cases):
        if only is not None and only != ci:
            continue
        sc = {"pause": 50, "callers": callers}
        try:
            res = run_scenario(sc, 0, False, 0)
        except Exception as e:  # noqa
            ctx.violation("cancelled-waiter:raised", {"kind": "cancelled-waiter", "case": ci}, "the scenario runs", f"{type(e).__name__}: {e}")
            continue
        ctx.count("evaluations")
        ctx.hist("cancelled_waiter", f"case {ci}")
        holders, probs = [], []
        for (t, kind, who, payload) in res["trace"].ev:
            if kind == "acquired":
                holders.append(who)
            elif kind == "released":
                if who in holders:
                    holders.remove(who)
                else:
                    probs.append(f"t={t} ms: caller {who} released the connection without holding it (held by {holders})")
            elif kind == "send" and holders != [who]:
                probs.append(f"t={t} ms: caller {who} transmits while the connection is held by {holders}")
        for c in callers:
            r = res["results"].get(c["id"])
            want = "cancelled" if c.get("cancel_at") is not None else "reply"
            if r is None or r[0] != want:
                probs.append(f"caller {c['id']} ends with {r} instead of {want}")
        if probs:
            ctx.violation("cancelled-waiter:disturbs-the-others", {"kind": "cancelled-waiter", "case": ci, "callers": callers},
                          "one request in flight at a time; every caller that is not cancelled gets its reply", probs[:4])
            return


def run(ctx):
    st = translate.run(["Skeletons"])
    ctx.cov["translator"] = st
    for k, v in st.items():
        if v != "ok":
            ctx.obligation_broken(f"translate:{k}", v)
    ctx.lean_obligations("GeckoModel.Properties.C06")
    rng = ctx.rng
    n_runs = 12 if ctx.quick else 150
    all_lines = []
    run_inputs = []
    nontrivial = set()
    for r in range(n_runs):
        fair = r % 4 != 3
        sc = gen_scenario(rng, ctx.quick)
        seed = rng.randrange(1 << 30)
        inp = {"scenario": sc, "seed": seed, "fair": fair}
        try:
            res = _run(sc, seed, fair)
        except Exception as e:  # noqa
            ctx.violation("scenario-raised", inp, "scenario runs", f"{type(e).__name__}: {e}")
            continue
        monitors(ctx, sc, res, fair, inp)
        lines = to_lines(sc, res, fair)
        run_inputs.append((len(all_lines), inp))
        all_lines += lines
        ctx.count("evaluations", len(res["trace"].ev))
        ctx.hist("callers_per_run", len(sc["callers"]))
        for cid, rr in res["results"].items():
            ctx.hist("results", rr[0])
        nontrivial.add((len(sc["callers"]), tuple(sorted(v[0] for v in res["results"].values())), sc["pause"]))
        if r == 0:
            ctx.sample({"validator_lines": lines[:30]})
    try:
        out = Driver("Driver/C06.lean").run(all_lines)
    except DriverFailure as e:
        ctx.obligation_broken("driver:C06", e)
        out = None
    if out is not None:
        rej = [(i, o) for i, o in enumerate(out) if o.startswith("rejected") or o == "bad-op"]
        bad_runs = {all_lines[:i].count("reset") for i, _ in rej}
        ctx.cov["traces_validated_against_impl"] = n_runs - len(bad_runs)
        ctx.cov["trace_steps_accepted"] = sum(1 for o in out if o == "ok")
        for i, o in rej[:3]:
            src = [x for off, x in run_inputs if off <= i][-1]
            ctx.obligation_broken("correspondence:request-trace-not-accepted-by-model", {"line": all_lines[i], "verdict": o, "context": all_lines[max(0, i - 8):i + 1], "scenario": src})
        ctx.sample({"validator_summary": [o for o in out if o.startswith("end")][:3]})
    search_gate(ctx)
    search_gate_silence(ctx)
    search_chatter(ctx)
    search_cancelled_waiter(ctx)
    try:
        search_strays(ctx)
    except Exception as e:  # noqa
        ctx.obligation_broken("harness:strays", f"{type(e).__name__}: {e}")
    search_struct_get(ctx)
    try:
        search_handshake_retries(ctx)
    except Exception as e:  # noqa
        ctx.obligation_broken("harness:handshake-retries", f"{type(e).__name__}: {e}")
    ctx.cov["distinct_nontrivial"] = len(nontrivial)
    ctx.cov["rule"] = ("each run = 1..8 (thorough ..20) concurrent callers of the real protocol.get with seeded arrival times, retry in {1,2,3,10}, timeout in {0.35,1.05,4.05} s (+0.5 ms in the real handler, so that no floating-point tie on a whole millisecond decides a timeout; the model's strict > on whole ms is then exact), "
                       "pause in {0,0.1,0.5,2} s and per-attempt reply scripts (prompt / around the poll interval / late / never / wrong verb), seeded shuffle of ready callbacks; "
                       "every fourth run with timer jitter (stalls, validated in unfair mode). evaluations = recorded events; distinct = (callers, result multiset, pause)")
    ctx.assumptions += ["asyncio.Lock hands the lock over in FIFO order; no pre-emption between awaits"]


def _run(sc, seed, fair):
    # wrap run_scenario with the head probe so that every look at the queue is an event
    import rig as _rig
    orig_instrument = _rig.instrument

    class both(orig_instrument):
        def __enter__(self):
            super().__enter__()
            self.hp = head_probe(self.t)
            self.hp.__enter__()
            return self

        def __exit__(self, *a):
            self.hp.__exit__()
            super().__exit__(*a)
    _rig.instrument = both
    try:
        res = run_scenario(sc, seed, shuffle=True, jitter=0.0 if fair else 0.03)
    finally:
        _rig.instrument = orig_instrument
    add_poll_events(res)
    return res


def replay(inp):
    from common import Ctx
    ctx = Ctx("C06", "quick", 0)
    if "scenario" in inp and isinstance(inp["scenario"], dict):
        sc = inp["scenario"]
        for c in sc["callers"]:
            c["replies"] = [tuple(r) if isinstance(r, list) else r for r in c["replies"]]
        res = _run(sc, inp["seed"], inp["fair"])
        monitors(ctx, sc, res, inp["fair"], inp)
    elif inp.get("kind") == "cancelled-waiter":
        search_cancelled_waiter(ctx, only=inp["case"])
    elif inp.get("kind") == "struct-get":
        search_struct_get(ctx)
    elif inp.get("kind") == "chatter":
        search_chatter(ctx)
    elif inp.get("kind") == "handshake-retries":
        search_handshake_retries(ctx)
    elif inp.get("kind") == "strays":
        search_strays(ctx)
        ctx.violations[:] = [v for v in ctx.violations if v["input"].get("stray") == inp.get("stray")]
    elif inp.get("kind") == "gate-silence":
        search_gate_silence(ctx)
    else:
        search_gate(ctx)
    return bool(ctx.violations), ctx.violations[0]["observed"] if ctx.violations else "ok"
